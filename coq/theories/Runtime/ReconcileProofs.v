(* Reconcile (C09): when every change to the stores is followed by the handling of its event, the
   table stays exactly what the stores prescribe. *)
From Coq Require Import List Arith NArith Bool Lia.
From Uf Require Import Runtime.Load Runtime.LoadProofs.
Import ListNotations.

(* ---- find under point changes of a list ---- *)
Section FindChange.
  Context {A : Type} (key : A -> nat) (P : A -> bool).

  Definition put (v : A) (l : list A) : list A :=
    if existsb (fun q => Nat.eqb (key q) (key v)) l
    then map (fun q => if Nat.eqb (key q) (key v) then v else q) l
    else l ++ [v].

  Lemma find_map_put v l :
    P v = false ->
    (forall q, In q l -> key q = key v -> P q = true -> find P l <> Some q) ->
    find P (map (fun q => if Nat.eqb (key q) (key v) then v else q) l) = find P l.
  Proof.
    intros Hv. induction l as [|a l IH]; intros H; cbn; auto.
    destruct (Nat.eqb (key a) (key v)) eqn:E.
    - rewrite Hv. destruct (P a) eqn:Pa.
      + exfalso. apply (H a); cbn; auto. apply Nat.eqb_eq, E. rewrite Pa. reflexivity.
      + apply IH. intros q Hq Hk Pq. specialize (H q (or_intror Hq) Hk Pq). cbn in H. rewrite Pa in H. exact H.
    - destruct (P a) eqn:Pa; auto.
      apply IH. intros q Hq Hk Pq. specialize (H q (or_intror Hq) Hk Pq). cbn in H. rewrite Pa in H. exact H.
  Qed.

  Lemma find_put v l :
    P v = false ->
    (forall q, In q l -> key q = key v -> P q = true -> find P l <> Some q) ->
    find P (put v l) = find P l.
  Proof.
    intros Hv H. unfold put. destruct (existsb _ l).
    - apply find_map_put; auto.
    - rewrite find_app. destruct (find P l); auto. cbn. rewrite Hv. reflexivity.
  Qed.

  Lemma find_del k l :
    (forall q, In q l -> key q = k -> P q = true -> find P l <> Some q) ->
    find P (filter (fun q => negb (Nat.eqb (key q) k)) l) = find P l.
  Proof.
    induction l as [|a l IH]; intros H; cbn; auto.
    destruct (Nat.eqb (key a) k) eqn:E; cbn.
    - destruct (P a) eqn:Pa.
      + exfalso. apply (H a); cbn; auto. apply Nat.eqb_eq, E. rewrite Pa. reflexivity.
      + apply IH. intros q Hq Hk Pq. specialize (H q (or_intror Hq) Hk Pq). cbn in H. rewrite Pa in H. exact H.
    - destruct (P a) eqn:Pa; auto.
      apply IH. intros q Hq Hk Pq. specialize (H q (or_intror Hq) Hk Pq). cbn in H. rewrite Pa in H. exact H.
  Qed.

  Lemma in_put v l : In v (put v l).
  Proof.
    unfold put. destruct (existsb _ l) eqn:E.
    - apply existsb_exists in E as [q [Hq Ek]]. apply in_map_iff. exists q. rewrite Ek. auto.
    - apply in_or_app. right. left. reflexivity.
  Qed.

  Lemma put_keys v l : NoDup (map key l) -> NoDup (map key (put v l)).
  Proof.
    intros H. unfold put. destruct (existsb _ l) eqn:E.
    - replace (map key (map _ l)) with (map key l); auto.
      rewrite map_map. apply map_ext. intros q. destruct (Nat.eqb (key q) (key v)) eqn:Ek; auto.
      apply Nat.eqb_eq in Ek. auto.
    - rewrite map_app. cbn. apply nodup_snoc; auto. intros Hin. apply in_map_iff in Hin as [q [Ek Hq]].
      assert (existsb (fun q => Nat.eqb (key q) (key v)) l = true); [|congruence].
      apply existsb_exists. exists q. split; auto. apply Nat.eqb_eq, Ek.
  Qed.

  Lemma in_put_inv v l x : In x (put v l) -> x = v \/ In x l.
  Proof.
    unfold put. destruct (existsb _ l).
    - intros H. apply in_map_iff in H as [q [E Hq]]. destruct (Nat.eqb (key q) (key v)); subst; auto.
    - intros H. apply in_app_or in H as [H|[H|[]]]; auto.
  Qed.

  Lemma del_keys k l : NoDup (map key l) -> NoDup (map key (filter (fun q => negb (Nat.eqb (key q) k)) l)).
  Proof.
    induction l as [|a l IH]; cbn; intros H; auto. inversion H as [|? ? Hn Hd]; subst.
    destruct (negb _); cbn; auto. constructor; auto. intros Hin. apply Hn.
    apply in_map_iff in Hin as [z [E Hz]]. apply filter_In in Hz as [Hz _]. rewrite <- E. apply in_map, Hz.
  Qed.
End FindChange.

Lemma put_spec_put p l : put_spec p l = put p_id p l. Proof. reflexivity. Qed.
Lemma put_val_put v l : put_val v l = put v_id v l. Proof. reflexivity. Qed.

Lemma find_filter {A} (f g : A -> bool) l : find f (filter g l) = find (fun x => g x && f x) l.
Proof. induction l as [|a l IH]; cbn; auto. destruct (g a); cbn; auto. destruct (f a); auto. Qed.

(* ---- well-formed states ---- *)
Definition val_ids_ok (vals : list rval) : Prop := NoDup (map v_id vals) /\ forall v, In v vals -> v_id v <> 0.

Record wf (cfg : rcfg) (st : rstate) : Prop := mkwf {
  wf_specs : spec_ids_nodup (r_specs st);
  wf_vals : val_ids_ok (r_vals st);
  wf_tab : ids_nodup (r_tab st);
  wf_ns : table_ns cfg (r_tab st)
}.

Definition conv (cfg : rcfg) (st : rstate) : Prop :=
  forall id, t_lookup id (r_tab st) = expected cfg (r_specs st) (r_vals st) id.

Definition quiet (st : rstate) : Prop := r_sq st = [] /\ r_vq st = [].

(* ---- the spec the stores hold for an id, under changes to other ids ---- *)
Definition spec_pred (cfg : rcfg) (id : nat) (p : rspec) : bool :=
  (Nat.eqb (p_ns p) (c_ns cfg) && true) && Nat.eqb (p_id p) id.

Lemma the_spec_find cfg specs id : the_spec cfg specs id = find (spec_pred cfg id) specs.
Proof. unfold the_spec, selected. rewrite find_filter. reflexivity. Qed.

Lemma the_spec_put_other cfg specs p id : id <> p_id p -> the_spec cfg (put_spec p specs) id = the_spec cfg specs id.
Proof.
  intros Hne. rewrite !the_spec_find, put_spec_put. apply find_put.
  - unfold spec_pred. replace (Nat.eqb (p_id p) id) with false; [apply andb_false_r|]. symmetry. apply Nat.eqb_neq. congruence.
  - intros q _ Hk Pq. unfold spec_pred in Pq. apply andb_true_iff in Pq as [_ Pq]. apply Nat.eqb_eq in Pq. congruence.
Qed.

Lemma the_spec_del_other cfg specs k id : id <> k ->
  the_spec cfg (filter (fun q => negb (Nat.eqb (p_id q) k)) specs) id = the_spec cfg specs id.
Proof.
  intros Hne. rewrite !the_spec_find. apply (find_del p_id). intros q _ Hk Pq.
  unfold spec_pred in Pq. apply andb_true_iff in Pq as [_ Pq]. apply Nat.eqb_eq in Pq. congruence.
Qed.

(* a spec outside the namespace is invisible *)
Lemma the_spec_put_foreign cfg specs p id :
  p_ns p <> c_ns cfg -> (forall q, In q specs -> p_id q = p_id p -> p_ns q = p_ns p) ->
  the_spec cfg (put_spec p specs) id = the_spec cfg specs id.
Proof.
  intros Hns Hst. rewrite !the_spec_find, put_spec_put. apply find_put.
  - unfold spec_pred. replace (Nat.eqb (p_ns p) (c_ns cfg)) with false; [reflexivity|]. symmetry. apply Nat.eqb_neq, Hns.
  - intros q Hq Hk Pq. unfold spec_pred in Pq. rewrite (Hst q Hq Hk) in Pq.
    replace (Nat.eqb (p_ns p) (c_ns cfg)) with false in Pq; [discriminate|]. symmetry. apply Nat.eqb_neq, Hns.
Qed.

Lemma the_spec_del_foreign cfg specs k id :
  (forall q, In q specs -> p_id q = k -> p_ns q <> c_ns cfg) ->
  the_spec cfg (filter (fun q => negb (Nat.eqb (p_id q) k)) specs) id = the_spec cfg specs id.
Proof.
  intros Hns. rewrite !the_spec_find. apply (find_del p_id). intros q Hq Hk Pq.
  unfold spec_pred in Pq. apply andb_true_iff in Pq as [Pq _]. apply andb_true_iff in Pq as [Pq _].
  apply Nat.eqb_eq in Pq. exfalso. apply (Hns q Hq Hk Pq).
Qed.

(* ---- handling a spec event ---- *)
Lemma fmatch_one id x : fmatch (FIds [id]) x = Nat.eqb x id.
Proof. cbn. apply orb_false_r. Qed.

Lemma proc_spec_conv cfg st id :
  wf cfg st -> (forall x, x <> id -> t_lookup x (r_tab st) = expected cfg (r_specs st) (r_vals st) x) ->
  let st' := fst (proc_spec cfg st id) in
  wf cfg st' /\ conv cfg st' /\ r_sq st' = r_sq st /\ r_vq st' = r_vq st.
Proof.
  intros [Hs Hv Ht Hn] Hc. unfold proc_spec.
  pose proof (load_targeted cfg (FIds [id]) (r_specs st) (r_vals st) (r_tab st) Hs Ht Hn) as L.
  destruct (load _ _ _ _ _) as [tab log]. cbn [fst] in *. destruct L as [A [B [C D]]].
  split; [constructor; auto|]. split; [|auto].
  intros x. cbn [r_tab r_specs r_vals]. destruct (Nat.eqb x id) eqn:E.
  - apply A. rewrite fmatch_one. exact E.
  - rewrite B by (rewrite fmatch_one; exact E). apply Hc. apply Nat.eqb_neq, E.
Qed.

(* ---- a value change leaves every unbound symbol as it is ---- *)
Section ValueChange.
  Variables (cfg : rcfg) (vals vals' : list rval) (vid : nat).
  Hypothesis vid_nz : vid <> 0.
  (* vs: the stored versions of the changed value after the change (what Reconcile reads back) *)
  Variable vs : list rval.
  Hypothesis vs_ids : forall q, In q vs -> v_id q = vid.
  Hypothesis change :
    forall (P : rval -> bool),
      (forall q, In q vs -> P q = false) ->
      (forall q, In q vals -> v_id q = vid -> P q = true -> find P vals <> Some q) ->
      find P vals' = find P vals.

  Definition bent_bound (ns : nat) (b : bent) : bool :=
    (negb (Nat.eqb (b_id b) 0) && Nat.eqb (b_id b) vid)
    || (negb (Nat.eqb (b_name b) 0) && existsb (fun v => Nat.eqb (v_ns v) ns && Nat.eqb (v_name v) (b_name b)) vs).

  Lemma c1_vid : negb (Nat.eqb vid 0) && Nat.eqb vid vid = true.
  Proof. rewrite Nat.eqb_refl. apply Nat.eqb_neq in vid_nz. rewrite vid_nz. reflexivity. Qed.

  Lemma resolve_stable ns e :
    bent_bound ns (fst (resolve cfg vals ns e)) = false ->
    resolve cfg vals' ns e = resolve cfg vals ns e.
  Proof.
    unfold resolve, bent_bound. destruct (identified e) eqn:Ide; [|reflexivity].
    intros Hb. apply orb_false_iff in Hb as [C1 C2].
    rewrite (change (val_match ns e)); [reflexivity| |].
    - (* no new version matches the entry *)
      intros q Hq. destruct (val_match ns e q) eqn:M; auto. exfalso.
      pose proof (vs_ids q Hq) as Hqid.
      unfold val_match in M. apply andb_true_iff in M as [M Mn]. apply andb_true_iff in M as [Mns Mi].
      apply Nat.eqb_eq in Mns.
      assert (Hvs : forall nm, v_name q = nm -> existsb (fun v => Nat.eqb (v_ns v) ns && Nat.eqb (v_name v) nm) vs = true).
      { intros nm <-. apply existsb_exists. exists q. split; auto. rewrite Mns, !Nat.eqb_refl. reflexivity. }
      unfold identified in Ide.
      destruct (find (val_match ns e) vals) as [w|] eqn:F; cbn [fst b_id b_name] in C1, C2.
      + apply find_some in F as [_ Mw]. unfold val_match in Mw.
        apply andb_true_iff in Mw as [Mw Mwn]. apply andb_true_iff in Mw as [_ Mwi].
        destruct (Nat.eqb (e_name e) 0) eqn:En.
        * (* referred to by id alone *)
          rewrite orb_false_r in Ide. apply negb_true_iff in Ide. rewrite Ide in Mi, Mwi. cbn in Mi, Mwi.
          apply Nat.eqb_eq in Mi, Mwi. replace (v_id w) with vid in C1 by congruence.
          rewrite c1_vid in C1. discriminate.
        * cbn in Mn, Mwn. apply Nat.eqb_eq in Mn, Mwn.
          rewrite (Hvs (v_name w)) in C2 by congruence. rewrite andb_true_r in C2.
          apply negb_false_iff, Nat.eqb_eq in C2. apply Nat.eqb_neq in En. congruence.
      + destruct (Nat.eqb (e_id e) 0) eqn:Ei.
        * cbn in Ide. apply negb_true_iff in Ide. rewrite Ide in Mn. cbn in Mn. apply Nat.eqb_eq in Mn.
          rewrite (Hvs (e_name e)) in C2 by congruence. rewrite Ide in C2. discriminate.
        * cbn in Mi. apply Nat.eqb_eq in Mi. replace (e_id e) with vid in C1 by congruence.
          rewrite Nat.eqb_refl in C1. discriminate.
    - (* the entry was not bound to an old version *)
      intros q _ Hqid _ F. rewrite F in C1. cbn [fst b_id] in C1. rewrite Hqid, c1_vid in C1. discriminate.
  Qed.

  Lemma bind_stable p :
    existsb (bent_bound (p_ns p)) (y_env (bind cfg vals p)) = false -> bind cfg vals' p = bind cfg vals p.
  Proof.
    intros H. unfold bind in *. cbn [y_env] in H.
    assert (E : map (resolve cfg vals' (p_ns p)) (p_env p) = map (resolve cfg vals (p_ns p)) (p_env p)).
    { apply map_ext_in. intros e He. apply resolve_stable.
      destruct (bent_bound _ _) eqn:B; auto.
      assert (existsb (bent_bound (p_ns p)) (map fst (map (resolve cfg vals (p_ns p)) (p_env p))) = true); [|congruence].
      apply existsb_exists. exists (fst (resolve cfg vals (p_ns p) e)). split; auto.
      apply in_map, in_map, He. }
    rewrite E. reflexivity.
  Qed.
End ValueChange.

Lemma is_bound_bent vs vid y : is_bound vs vid y = existsb (bent_bound vid vs (y_ns y)) (y_env y).
Proof. reflexivity. Qed.

(* ---- handling a value event ---- *)
Lemma existsb_eqb_in id ids : existsb (Nat.eqb id) ids = true <-> In id ids.
Proof.
  rewrite existsb_exists. split.
  - intros [x [Hx E]]. apply Nat.eqb_eq in E. subst. exact Hx.
  - intros H. exists id. split; auto. apply Nat.eqb_refl.
Qed.

Lemma the_spec_id cfg specs id p : the_spec cfg specs id = Some p -> p_id p = id /\ p_ns p = c_ns cfg.
Proof.
  rewrite the_spec_find. intros H. apply find_some in H as [_ H]. unfold spec_pred in H.
  apply andb_true_iff in H as [H1 H2]. apply andb_true_iff in H1 as [H1 _].
  apply Nat.eqb_eq in H1, H2. auto.
Qed.

Lemma proc_val_conv cfg st vals0 vid :
  wf cfg st ->
  (forall id, t_lookup id (r_tab st) = expected cfg (r_specs st) vals0 id) ->
  (forall p, is_bound (filter (fun v => Nat.eqb (v_id v) vid) (r_vals st)) vid (bind cfg vals0 p) = false ->
        bind cfg (r_vals st) p = bind cfg vals0 p) ->
  let st' := fst (proc_val cfg st vid) in
  wf cfg st' /\ conv cfg st' /\ r_sq st' = r_sq st /\ r_vq st' = r_vq st.
Proof.
  intros [Hs Hv Ht Hn] Hc Hstab. unfold proc_val.
  remember (map y_id (filter (is_bound (filter (fun v => Nat.eqb (v_id v) vid) (r_vals st)) vid) (r_tab st))) as ids eqn:Eids.
  assert (K : forall id, ~ In id ids -> expected cfg (r_specs st) (r_vals st) id = expected cfg (r_specs st) vals0 id).
  { intros id Hnin. unfold expected. destruct (the_spec cfg (r_specs st) id) as [p|] eqn:T; cbn [option_map]; auto.
    f_equal. apply Hstab. destruct (is_bound _ vid (bind cfg vals0 p)) eqn:B; auto. exfalso. apply Hnin.
    pose proof (Hc id) as L. unfold expected in L. rewrite T in L. cbn in L. apply lookup_some in L as [Hin _].
    subst ids. apply in_map_iff. exists (bind cfg vals0 p). split.
    - rewrite bind_id. apply (the_spec_id _ _ _ _ T).
    - apply filter_In. auto. }
  destruct ids as [|i0 ids'].
  - cbn [fst]. split; [constructor; auto|]. split; [|auto]. intros id. rewrite Hc. symmetry. apply K. intros [].
  - pose proof (load_targeted cfg (FIds (i0 :: ids')) (r_specs st) (r_vals st) (r_tab st) Hs Ht Hn) as L.
    destruct (load _ _ _ _ _) as [tab log]. cbn [fst] in *. destruct L as [A [B [C D]]].
    split; [constructor; auto|]. split; [|auto].
    intros id. cbn [r_tab r_specs r_vals]. destruct (fmatch (FIds (i0 :: ids')) id) eqn:F.
    + apply A, F.
    + rewrite (B _ F), Hc. symmetry. apply K. intros Hin. apply existsb_eqb_in in Hin. cbn [fmatch] in F. congruence.
Qed.

(* ---- queues do not matter to wf and conv ---- *)
Lemma wf_queues cfg st a b : wf cfg st -> wf cfg (set_queues st a b).
Proof. intros [A B C D]. constructor; auto. Qed.
Lemma conv_queues cfg st a b : conv cfg st -> conv cfg (set_queues st a b).
Proof. intros H. exact H. Qed.

Lemma proc_spec_queues cfg st id : r_sq (fst (proc_spec cfg st id)) = r_sq st /\ r_vq (fst (proc_spec cfg st id)) = r_vq st.
Proof. unfold proc_spec. destruct (load _ _ _ _ _). cbn. auto. Qed.
Lemma proc_val_queues cfg st id : r_sq (fst (proc_val cfg st id)) = r_sq st /\ r_vq (fst (proc_val cfg st id)) = r_vq st.
Proof. unfold proc_val. destruct (map _ _); [cbn; auto|]. destruct (load _ _ _ _ _). cbn. auto. Qed.

Lemma drain_none cfg st : r_sq st = [] -> r_vq st = [] -> fst (r_step cfg st ODrain) = set_queues (set_queues st [] []) [] [].
Proof. intros Hs Hv. cbn [r_step]. rewrite Hs, Hv. cbn. reflexivity. Qed.

Lemma drain_spec1 cfg st id : r_sq st = [id] -> r_vq st = [] ->
  fst (r_step cfg st ODrain) = set_queues (fst (proc_spec cfg (set_queues st [] []) id)) [] [].
Proof.
  intros Hs Hv. cbn [r_step]. rewrite Hs, Hv. cbn [drain_specs].
  pose proof (proc_spec_queues cfg (set_queues st [] []) id) as [_ Q].
  destruct (proc_spec cfg (set_queues st [] []) id) as [s1 l1]. cbn [fst] in *. cbn [set_queues r_vq] in Q.
  rewrite Q. cbn. reflexivity.
Qed.

Lemma drain_val1 cfg st id : r_sq st = [] -> r_vq st = [id] ->
  fst (r_step cfg st ODrain) = fst (proc_val cfg (set_queues (set_queues st [] [id]) [] []) id).
Proof.
  intros Hs Hv. cbn [r_step]. rewrite Hs, Hv. cbn [drain_specs r_vq set_queues drain_vals].
  destruct (proc_val _ _ id) as [s1 l1]. cbn. reflexivity.
Qed.

Lemma key_unique {A} (key : A -> nat) l a b : NoDup (map key l) -> In a l -> In b l -> key a = key b -> a = b.
Proof.
  induction l as [|x l IH]; cbn; intros Hd Ha Hb E; [destruct Ha|].
  inversion Hd as [|? ? Hn Hd']; subst. destruct Ha as [->|Ha], Hb as [->|Hb]; auto.
  - exfalso. apply Hn. rewrite E. apply in_map, Hb.
  - exfalso. apply Hn. rewrite <- E. apply in_map, Ha.
Qed.

(* ---- values outside the namespace are invisible ---- *)
Lemma bind_foreign cfg vals vals' p :
  (forall e, find (val_match (p_ns p) e) vals' = find (val_match (p_ns p) e) vals) ->
  bind cfg vals' p = bind cfg vals p.
Proof.
  intros H. unfold bind.
  assert (E : map (resolve cfg vals' (p_ns p)) (p_env p) = map (resolve cfg vals (p_ns p)) (p_env p)).
  { apply map_ext. intros e. unfold resolve. rewrite H. reflexivity. }
  rewrite E. reflexivity.
Qed.

Lemma val_match_ns ns e v : val_match ns e v = true -> v_ns v = ns.
Proof. unfold val_match. intros H. apply andb_true_iff in H as [H _]. apply andb_true_iff in H as [H _]. apply Nat.eqb_eq, H. Qed.

Lemma expected_ext cfg specs vals vals' :
  (forall p, p_ns p = c_ns cfg -> bind cfg vals' p = bind cfg vals p) ->
  forall id, expected cfg specs vals' id = expected cfg specs vals id.
Proof.
  intros H id. unfold expected. destruct (the_spec cfg specs id) as [p|] eqn:T; cbn; auto.
  f_equal. apply H. apply (the_spec_id _ _ _ _ T).
Qed.

(* ---- one change followed by the handling of its event ---- *)
Definition change_ok (st : rstate) (op : rop) : Prop :=
  match op with
  | OSpecPut p => forall q, In q (r_specs st) -> p_id q = p_id p -> p_ns q = p_ns p
  | OSpecDel _ => True
  | OValPut v => v_id v <> 0 /\ forall q, In q (r_vals st) -> v_id q = v_id v -> v_ns q = v_ns v
  | OValDel _ => True
  | _ => False
  end.

Definition settled_after (cfg : rcfg) (st : rstate) (op : rop) : rstate :=
  fst (r_step cfg (fst (r_step cfg st op)) ODrain).

Record good (cfg : rcfg) (st : rstate) : Prop := mkgood { g_wf : wf cfg st; g_conv : conv cfg st; g_quiet : quiet st }.

Lemma good_intro cfg st : wf cfg st /\ conv cfg st /\ r_sq st = [] /\ r_vq st = [] -> good cfg st.
Proof. intros [A [B [C D]]]. constructor; auto. split; auto. Qed.

Theorem reconcile_step cfg st op : good cfg st -> change_ok st op -> good cfg (settled_after cfg st op).
Proof.
  intros [[Hs [Hvd Hvn] Ht Hn] Hc [Qs Qv]] Hok. unfold settled_after. destruct op; cbn [change_ok] in Hok; try contradiction.
  - (* spec put *)
    replace (fst (r_step cfg st (OSpecPut p))) with
      (mkr (put_spec p (r_specs st)) (r_vals st) (r_tab st) (if Nat.eqb (p_ns p) (c_ns cfg) then r_sq st ++ [p_id p] else r_sq st) (r_vq st)) by reflexivity.
    rewrite Qs, Qv. destruct (Nat.eqb (p_ns p) (c_ns cfg)) eqn:Ens.
    + rewrite drain_spec1 with (id := p_id p) by reflexivity.
      edestruct (proc_spec_conv cfg (set_queues (mkr (put_spec p (r_specs st)) (r_vals st) (r_tab st) ([] ++ [p_id p]) []) [] []) (p_id p)) as [A [B [C D]]].
      * constructor; cbn; auto. rewrite put_spec_put. apply put_keys, Hs. split; auto.
      * intros x Hx. cbn [r_tab r_specs r_vals set_queues]. rewrite Hc. unfold expected. rewrite the_spec_put_other by exact Hx. reflexivity.
      * apply good_intro. split; [apply wf_queues, A|]. split; [apply conv_queues, B|]. cbn. auto.
    + rewrite drain_none by reflexivity. apply good_intro. cbn. split; [|split; auto].
      * constructor; cbn; auto. rewrite put_spec_put. apply put_keys, Hs. split; auto.
      * intros x. cbn [r_tab r_specs r_vals set_queues]. rewrite Hc. unfold expected. rewrite the_spec_put_foreign; auto. apply Nat.eqb_neq, Ens.
  - (* spec delete *)
    replace (fst (r_step cfg st (OSpecDel id))) with
      (mkr (filter (fun q => negb (Nat.eqb (p_id q) id)) (r_specs st)) (r_vals st) (r_tab st)
           (match spec_ns id (r_specs st) with
            | Some ns => if Nat.eqb ns (c_ns cfg) then r_sq st ++ [id] else r_sq st
            | None => r_sq st end) (r_vq st)) by reflexivity.
    rewrite Qs, Qv.
    assert (Hd : spec_ids_nodup (filter (fun q => negb (Nat.eqb (p_id q) id)) (r_specs st))) by (apply (del_keys p_id), Hs).
    assert (Hother : forall x, x <> id -> t_lookup x (r_tab st) = expected cfg (filter (fun q => negb (Nat.eqb (p_id q) id)) (r_specs st)) (r_vals st) x).
    { intros x Hx. rewrite Hc. unfold expected. rewrite the_spec_del_other by exact Hx. reflexivity. }
    assert (Hforeign : (forall q, In q (r_specs st) -> p_id q = id -> p_ns q <> c_ns cfg) ->
                       forall x, t_lookup x (r_tab st) = expected cfg (filter (fun q => negb (Nat.eqb (p_id q) id)) (r_specs st)) (r_vals st) x).
    { intros Hf x. rewrite Hc. unfold expected. rewrite the_spec_del_foreign; auto. }
    unfold spec_ns. destruct (find (fun q => Nat.eqb (p_id q) id) (r_specs st)) as [q0|] eqn:F; cbn [option_map].
    + apply find_some in F as [Hq0 Eq0]. apply Nat.eqb_eq in Eq0.
      destruct (Nat.eqb (p_ns q0) (c_ns cfg)) eqn:Ens.
      * rewrite drain_spec1 with (id := id) by reflexivity.
        edestruct (proc_spec_conv cfg (set_queues (mkr (filter (fun q => negb (Nat.eqb (p_id q) id)) (r_specs st)) (r_vals st) (r_tab st) ([] ++ [id]) []) [] []) id) as [A [B [C D]]].
        { constructor; cbn; auto. split; auto. }
        { exact Hother. }
        { apply good_intro. split; [apply wf_queues, A|]. split; [apply conv_queues, B|]. cbn. auto. }
      * rewrite drain_none by reflexivity. apply good_intro. cbn. split; [|split; auto].
        { constructor; cbn; auto. split; auto. }
        { intros x0. cbn [r_tab r_specs r_vals set_queues]. apply Hforeign. intros q Hq Eq. rewrite (key_unique p_id _ q q0 Hs Hq Hq0) by congruence. apply Nat.eqb_neq, Ens. }
    + rewrite drain_none by reflexivity. apply good_intro. cbn. split; [|split; auto].
      { constructor; cbn; auto. split; auto. }
      { intros x0. cbn [r_tab r_specs r_vals set_queues]. apply Hforeign. intros q Hq Eq. apply (find_none _ _ F) in Hq. rewrite Eq, Nat.eqb_refl in Hq. discriminate. }
  - (* value put *)
    destruct Hok as [Hnz Hst].
    replace (fst (r_step cfg st (OValPut v))) with
      (mkr (r_specs st) (put_val v (r_vals st)) (r_tab st) (r_sq st)
           (if Nat.eqb (v_ns v) (c_ns cfg) then r_vq st ++ [v_id v] else r_vq st)) by reflexivity.
    rewrite Qs, Qv.
    assert (Hv' : val_ids_ok (put_val v (r_vals st))).
    { split. - rewrite put_val_put. apply put_keys, Hvd.
      - intros x Hx. rewrite put_val_put in Hx. apply in_put_inv in Hx as [->|Hx]; auto. }
    destruct (Nat.eqb (v_ns v) (c_ns cfg)) eqn:Ens.
    + rewrite drain_val1 with (id := v_id v) by reflexivity.
      edestruct (proc_val_conv cfg (set_queues (set_queues (mkr (r_specs st) (put_val v (r_vals st)) (r_tab st) [] ([] ++ [v_id v])) [] [v_id v]) [] []) (r_vals st) (v_id v)) as [A [B [C D]]].
      * constructor; cbn; auto.
      * exact Hc.
      * intros p Hb. cbn [r_vals set_queues] in *. rewrite is_bound_bent in Hb.
        apply (bind_stable cfg (r_vals st) (put_val v (r_vals st)) (v_id v) Hnz
                 (filter (fun v0 => Nat.eqb (v_id v0) (v_id v)) (put_val v (r_vals st)))); auto.
        { intros q Hq. apply filter_In in Hq as [_ Hq]. apply Nat.eqb_eq, Hq. }
        { intros P HP Hold. rewrite put_val_put. apply find_put; auto.
          apply HP. apply filter_In. split; [rewrite put_val_put; apply in_put | apply Nat.eqb_refl]. }
      * apply good_intro. split; [exact A|]. split; [exact B|]. cbn in C, D. auto.
    + rewrite drain_none by reflexivity. apply good_intro. cbn. split; [|split; auto].
      * constructor; cbn; auto.
      * intros x. cbn [r_tab r_specs r_vals set_queues]. rewrite Hc. symmetry. apply expected_ext. intros p Hp. apply bind_foreign. intros e.
        rewrite put_val_put. apply find_put.
        { destruct (val_match (p_ns p) e v) eqn:M; auto. apply val_match_ns in M. apply Nat.eqb_neq in Ens. congruence. }
        { intros q Hq Eq M. apply val_match_ns in M. rewrite (Hst q Hq Eq) in M. apply Nat.eqb_neq in Ens. congruence. }
  - (* value delete *)
    replace (fst (r_step cfg st (OValDel id))) with
      (mkr (r_specs st) (filter (fun q => negb (Nat.eqb (v_id q) id)) (r_vals st)) (r_tab st) (r_sq st)
           (match val_ns id (r_vals st) with
            | Some ns => if Nat.eqb ns (c_ns cfg) then r_vq st ++ [id] else r_vq st
            | None => r_vq st end)) by reflexivity.
    rewrite Qs, Qv.
    assert (Hv' : val_ids_ok (filter (fun q => negb (Nat.eqb (v_id q) id)) (r_vals st))).
    { split. - apply (del_keys v_id), Hvd. - intros x Hx. apply filter_In in Hx as [Hx _]. auto. }
    assert (Hforeign : (forall q, In q (r_vals st) -> v_id q = id -> v_ns q <> c_ns cfg) ->
                       forall x, t_lookup x (r_tab st) = expected cfg (r_specs st) (filter (fun q => negb (Nat.eqb (v_id q) id)) (r_vals st)) x).
    { intros Hf x. rewrite Hc. symmetry. apply expected_ext. intros p Hp. apply bind_foreign. intros e.
      apply (find_del v_id). intros q Hq Eq M. apply val_match_ns in M. exfalso. apply (Hf q Hq Eq). congruence. }
    unfold val_ns. destruct (find (fun q => Nat.eqb (v_id q) id) (r_vals st)) as [q0|] eqn:F; cbn [option_map].
    + apply find_some in F as [Hq0 Eq0]. apply Nat.eqb_eq in Eq0.
      destruct (Nat.eqb (v_ns q0) (c_ns cfg)) eqn:Ens.
      * rewrite drain_val1 with (id := id) by reflexivity.
        edestruct (proc_val_conv cfg (set_queues (set_queues (mkr (r_specs st) (filter (fun q => negb (Nat.eqb (v_id q) id)) (r_vals st)) (r_tab st) [] ([] ++ [id])) [] [id]) [] []) (r_vals st) id) as [A [B [C D]]].
        { constructor; cbn; auto. }
        { exact Hc. }
        { intros p Hb. cbn [r_vals set_queues] in *. rewrite is_bound_bent in Hb.
          assert (Hnz : id <> 0) by (rewrite <- Eq0; apply Hvn, Hq0).
          apply (bind_stable cfg (r_vals st) (filter (fun q => negb (Nat.eqb (v_id q) id)) (r_vals st)) id Hnz
                   (filter (fun v0 => Nat.eqb (v_id v0) id) (filter (fun q => negb (Nat.eqb (v_id q) id)) (r_vals st)))); auto.
          - intros q Hq. apply filter_In in Hq as [_ Hq]. apply Nat.eqb_eq, Hq.
          - intros P _ Hold. apply (find_del v_id). exact Hold. }
        { apply good_intro. split; [exact A|]. split; [exact B|]. cbn in C, D. auto. }
      * rewrite drain_none by reflexivity. apply good_intro. cbn. split; [|split; auto].
        { constructor; cbn; auto. }
        { intros x0. cbn [r_tab r_specs r_vals set_queues]. apply Hforeign. intros q Hq Eq. rewrite (key_unique v_id _ q q0 Hvd Hq Hq0) by congruence. apply Nat.eqb_neq, Ens. }
    + rewrite drain_none by reflexivity. apply good_intro. cbn. split; [|split; auto].
      { constructor; cbn; auto. }
      { intros x0. cbn [r_tab r_specs r_vals set_queues]. apply Hforeign. intros q Hq Eq. apply (find_none _ _ F) in Hq. rewrite Eq, Nat.eqb_refl in Hq. discriminate. }
Qed.

(* ---- any history of changes, each followed by the handling of its event ---- *)
Fixpoint history_ok (cfg : rcfg) (st : rstate) (ops : list rop) : Prop :=
  match ops with
  | [] => True
  | op :: ops' => change_ok st op /\ history_ok cfg (settled_after cfg st op) ops'
  end.

Theorem reconcile_history cfg : forall ops st,
  good cfg st -> history_ok cfg st ops -> good cfg (fold_left (settled_after cfg) ops st).
Proof.
  induction ops as [|op ops IH]; intros st Hg Hh; cbn [fold_left]; auto.
  destruct Hh as [Hok Hh]. apply IH; auto. apply reconcile_step; auto.
Qed.

Lemma good_init cfg : good cfg r_init.
Proof.
  constructor.
  - constructor; cbn; try constructor; [constructor | intros v []| intros y []].
  - intros id. reflexivity.
  - split; reflexivity.
Qed.

(* non-vacuity: a concrete history meets the hypotheses *)
Example history_ok_example :
  history_ok (mkcfg 1 None) r_init
    [OValPut (mkval 1 1 2 10); OSpecPut (mkspec 1 1 1 1 [mkeref 1 0 2] 0); OValPut (mkval 1 1 2 11); OValDel 1; OSpecDel 1].
Proof. cbn. repeat split; auto; intros q H; try tauto; try (destruct H as [<-|[]]; cbn; auto). Qed.
