(* Model of the frame bookkeeping of the debug agent (pkg/runtime/agent.go, hooks): per process a list
   of frames; the inbound hook of an endpoint files its packet in the first frame of "that port"
   whose InPck is empty, else appends a frame; the outbound hook does the same with OutPck.
   An endpoint is the reader (in-port) or writer (out-port) a process has on a port of a symbol; the
   hooks are closures over (process, symbol, port), and a.frames is keyed by process, so one list of
   frames and the ports of one process are all there is to model.

   Two matching rules: the pinned one, `f.Symbol == sym && (f.InPort == in || f.OutPort == out)`,
   where `out` is nil for every in-port hook and `in` is nil for every out-port hook - so every frame
   of an in-port of the symbol matches every in-port hook of the symbol, and likewise for out-ports -
   and the repaired one (`&&`), under which a frame matches exactly the hooks of its own port. *)
From Coq Require Import List Arith Bool Lia.
Import ListNotations.

Record port := mkport { p_sym : nat; p_out : bool; p_id : nat }.
Definition port_eqb (a b : port) : bool :=
  Nat.eqb (p_sym a) (p_sym b) && Bool.eqb (p_out a) (p_out b) && Nat.eqb (p_id a) (p_id b).

Record frame := mkframe { f_port : port; f_in : option nat; f_out : option nat }.

(* a packet hook fired: HIn = the endpoint's inbound hook (a request reaching a reader, a response
   reaching a writer), HOut = its outbound hook (an answer leaving a reader, a request leaving a writer) *)
Inductive hev := HIn (x : port) (pck : nat) | HOut (x : port) (pck : nat).

Definition rule := port -> frame -> bool.
Definition rule_repaired : rule := fun x f => port_eqb (f_port f) x.
Definition rule_pinned : rule := fun x f =>
  Nat.eqb (p_sym (f_port f)) (p_sym x) && (port_eqb (f_port f) x || Bool.eqb (p_out (f_port f)) (p_out x)).

Definition is_none {A} (o : option A) : bool := match o with None => true | Some _ => false end.

Fixpoint fill_in (m : rule) (x : port) (p : nat) (fs : list frame) : list frame :=
  match fs with
  | [] => [mkframe x (Some p) None]
  | f :: t => if m x f && is_none (f_in f) then mkframe (f_port f) (Some p) (f_out f) :: t
              else f :: fill_in m x p t
  end.
Fixpoint fill_out (m : rule) (x : port) (p : nat) (fs : list frame) : list frame :=
  match fs with
  | [] => [mkframe x None (Some p)]
  | f :: t => if m x f && is_none (f_out f) then mkframe (f_port f) (f_in f) (Some p) :: t
              else f :: fill_out m x p t
  end.

Definition a_step (m : rule) (fs : list frame) (e : hev) : list frame :=
  match e with
  | HIn x p => fill_in m x p fs
  | HOut x p => fill_out m x p fs
  end.
Definition a_run (m : rule) (evs : list hev) : list frame := fold_left (a_step m) evs [].

(* what the property talks about, per port: the packets that entered / left through its hooks, in order *)
Fixpoint ins_of (x : port) (evs : list hev) : list nat :=
  match evs with
  | [] => []
  | HIn y p :: t => if port_eqb y x then p :: ins_of x t else ins_of x t
  | _ :: t => ins_of x t
  end.
Fixpoint outs_of (x : port) (evs : list hev) : list nat :=
  match evs with
  | [] => []
  | HOut y p :: t => if port_eqb y x then p :: outs_of x t else outs_of x t
  | _ :: t => outs_of x t
  end.

Definition frames_of (x : port) (fs : list frame) : list (option nat * option nat) :=
  map (fun f => (f_in f, f_out f)) (filter (fun f => port_eqb (f_port f) x) fs).

(* k-th inbound packet with k-th outbound packet, the longer list padded *)
Fixpoint zipl (a b : list nat) : list (option nat * option nat) :=
  match a with
  | [] => map (fun y => (None, Some y)) b
  | x :: a' => match b with
               | [] => (Some x, None) :: zipl a' []
               | y :: b' => (Some x, Some y) :: zipl a' b'
               end
  end.
