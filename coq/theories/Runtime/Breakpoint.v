(* Model of pkg/runtime/breakpoint.go as a thread machine: OnFrame (called by the agent inside a
   packet hook, i.e. by the goroutine that carries the packet), Next, Done and Close, with the two
   unbuffered channels `in` and `out` as rendezvous steps, `done` as a flag every select can see,
   and the mutexes rmu / wmu.  The frame of an OnFrame call is an opaque number: OnFrame only hands
   it over, it never changes it (the agent's frames are untouched by breakpoints). *)
From Coq Require Import List Arith Bool Lia.
Import ListNotations.

Inductive pc :=
| F0 (f : nat) | F1 | FEnd                 (* OnFrame: `b.in <- frame` / done ; `<-b.out` / done ; returned *)
| NDLock | NDSel | NLock | NSel | NEnd (r : bool)   (* Next: its inner Done (lock, select), its own lock, its select *)
| DLock | DSel | DEnd (r : bool)           (* Done *)
| CWLock | CRLock | CEnd.                  (* Close: wmu, close(done), rmu, current = nil *)

Record bstate := mkb { cur : option nat; done : bool; rmu : option nat; wmu : option nat; pcs : list pc }.

Inductive blabel :=
| BLock (t : nat)            (* t takes the mutex it waits for (and acts on what it finds) *)
| BSendIn (t u : nat)        (* OnFrame t hands its frame to Next u *)
| BRecvOut (t u : nat)       (* OnFrame t takes the frame back from Done (or Next's inner Done) u *)
| BSeeDone (t : nat).        (* t's select takes the done case *)

Definition pc_of (st : bstate) (t : nat) : pc := nth t (pcs st) CEnd.
Fixpoint set_nth {A} (n : nat) (x : A) (l : list A) : list A :=
  match l, n with
  | [], _ => []
  | _ :: t, O => x :: t
  | a :: t, S n' => a :: set_nth n' x t
  end.
Definition set_pc (st : bstate) (t : nat) (p : pc) : bstate := mkb (cur st) (done st) (rmu st) (wmu st) (set_nth t p (pcs st)).
Definition is_none {A} (o : option A) := match o with None => true | _ => false end.

(* Some st' when the step is enabled *)
Definition b_step (st : bstate) (l : blabel) : option bstate :=
  match l with
  | BLock t =>
      match pc_of st t with
      | NDLock => if is_none (rmu st) then
                    Some (if is_none (cur st) then set_pc st t NLock
                          else set_pc (mkb (cur st) (done st) (Some t) (wmu st) (pcs st)) t NDSel)
                  else None
      | NLock => if is_none (rmu st) then
                   Some (if is_none (cur st) then set_pc (mkb (cur st) (done st) (Some t) (wmu st) (pcs st)) t NSel
                         else set_pc st t (NEnd false))
                 else None
      | DLock => if is_none (rmu st) then
                   Some (if is_none (cur st) then set_pc st t (DEnd true)
                         else set_pc (mkb (cur st) (done st) (Some t) (wmu st) (pcs st)) t DSel)
                 else None
      | CWLock => if is_none (wmu st) then
                    Some (if done st then set_pc st t CEnd
                          else set_pc (mkb (cur st) true (rmu st) (Some t) (pcs st)) t CRLock)
                  else None
      | CRLock => if is_none (rmu st) then Some (set_pc (mkb None (done st) None None (pcs st)) t CEnd) else None
      | _ => None
      end
  | BSendIn t u =>
      match pc_of st t, pc_of st u with
      | F0 f, NSel => Some (set_pc (set_pc (mkb (Some f) (done st) None (wmu st) (pcs st)) t F1) u (NEnd true))
      | _, _ => None
      end
  | BRecvOut t u =>
      match pc_of st t, pc_of st u with
      | F1, NDSel => Some (set_pc (set_pc (mkb None (done st) None (wmu st) (pcs st)) t FEnd) u NLock)
      | F1, DSel => Some (set_pc (set_pc (mkb None (done st) None (wmu st) (pcs st)) t FEnd) u (DEnd true))
      | _, _ => None
      end
  | BSeeDone t =>
      if done st then
        match pc_of st t with
        | F0 _ => Some (set_pc st t F1)
        | F1 => Some (set_pc st t FEnd)
        | NSel => Some (set_pc (mkb (cur st) (done st) None (wmu st) (pcs st)) t (NEnd false))
        | NDSel => Some (set_pc (mkb (cur st) (done st) None (wmu st) (pcs st)) t NLock)
        | DSel => Some (set_pc (mkb (cur st) (done st) None (wmu st) (pcs st)) t (DEnd false))
        | _ => None
        end
      else None
  end.

Definition b_next (st : bstate) (l : blabel) : bstate := match b_step st l with Some st' => st' | None => st end.
Definition b_run (threads : list pc) (ls : list blabel) : bstate := fold_left b_next ls (mkb None false None None threads).

Definition ended (p : pc) : bool := match p with FEnd | NEnd _ | DEnd _ | CEnd => true | _ => false end.
Definition initial (p : pc) : bool := match p with F0 _ | NDLock | DLock | CWLock => true | _ => false end.
