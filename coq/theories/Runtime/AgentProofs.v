(* Under the repaired rule the frames of a port are, in order, the k-th packet of its inbound hook
   paired with the k-th packet of its outbound hook, whatever happens on other ports in between. *)
From Coq Require Import List Arith Bool Lia.
From Uf Require Import Runtime.Agent.
Import ListNotations.

Lemma port_eqb_eq a b : port_eqb a b = true <-> a = b.
Proof.
  destruct a as [s o i], b as [s' o' i']. unfold port_eqb. cbn. split.
  - intros H. apply andb_true_iff in H. destruct H as [H H3]. apply andb_true_iff in H. destruct H as [H1 H2].
    apply Nat.eqb_eq in H1, H3. apply eqb_prop in H2. subst. reflexivity.
  - intros H. inversion H; subst. rewrite !Nat.eqb_refl, eqb_reflx. reflexivity.
Qed.
Lemma port_eqb_refl a : port_eqb a a = true.
Proof. apply port_eqb_eq. reflexivity. Qed.
Lemma port_eqb_sym a b : port_eqb a b = port_eqb b a.
Proof.
  destruct (port_eqb a b) eqn:E.
  - apply port_eqb_eq in E. subst. symmetry. apply port_eqb_refl.
  - destruct (port_eqb b a) eqn:E2; auto. apply port_eqb_eq in E2. subst. rewrite port_eqb_refl in E. discriminate.
Qed.

(* the local view of filling *)
Fixpoint lfill_in (p : nat) (l : list (option nat * option nat)) : list (option nat * option nat) :=
  match l with
  | [] => [(Some p, None)]
  | (i, o) :: t => if is_none i then (Some p, o) :: t else (i, o) :: lfill_in p t
  end.
Fixpoint lfill_out (p : nat) (l : list (option nat * option nat)) : list (option nat * option nat) :=
  match l with
  | [] => [(None, Some p)]
  | (i, o) :: t => if is_none o then (i, Some p) :: t else (i, o) :: lfill_out p t
  end.

Lemma frames_of_fill_in_same x p fs :
  frames_of x (fill_in rule_repaired x p fs) = lfill_in p (frames_of x fs).
Proof.
  unfold frames_of. induction fs as [|f t IH]; cbn.
  - rewrite port_eqb_refl. reflexivity.
  - unfold rule_repaired at 1. destruct (port_eqb (f_port f) x) eqn:E; cbn.
    + destruct (is_none (f_in f)) eqn:N; cbn; rewrite E; cbn; [reflexivity|]. rewrite IH. reflexivity.
    + rewrite E. exact IH.
Qed.
Lemma frames_of_fill_in_other x y p fs :
  port_eqb x y = false -> frames_of y (fill_in rule_repaired x p fs) = frames_of y fs.
Proof.
  intros D. unfold frames_of. induction fs as [|f t IH]; cbn.
  - rewrite D. reflexivity.
  - unfold rule_repaired at 1. destruct (port_eqb (f_port f) x) eqn:E; cbn.
    + apply port_eqb_eq in E. destruct (is_none (f_in f)); cbn; rewrite E, D; [reflexivity|exact IH].
    + destruct (port_eqb (f_port f) y); cbn; rewrite IH; reflexivity.
Qed.
Lemma frames_of_fill_out_same x p fs :
  frames_of x (fill_out rule_repaired x p fs) = lfill_out p (frames_of x fs).
Proof.
  unfold frames_of. induction fs as [|f t IH]; cbn.
  - rewrite port_eqb_refl. reflexivity.
  - unfold rule_repaired at 1. destruct (port_eqb (f_port f) x) eqn:E; cbn.
    + destruct (is_none (f_out f)) eqn:N; cbn; rewrite E; cbn; [reflexivity|]. rewrite IH. reflexivity.
    + rewrite E. exact IH.
Qed.
Lemma frames_of_fill_out_other x y p fs :
  port_eqb x y = false -> frames_of y (fill_out rule_repaired x p fs) = frames_of y fs.
Proof.
  intros D. unfold frames_of. induction fs as [|f t IH]; cbn.
  - rewrite D. reflexivity.
  - unfold rule_repaired at 1. destruct (port_eqb (f_port f) x) eqn:E; cbn.
    + apply port_eqb_eq in E. destruct (is_none (f_out f)); cbn; rewrite E, D; [reflexivity|exact IH].
    + destruct (port_eqb (f_port f) y); cbn; rewrite IH; reflexivity.
Qed.

Lemma zipl_nil_r a : zipl a [] = map (fun x => (Some x, None)) a.
Proof. induction a; cbn; congruence. Qed.

Lemma lfill_in_zipl p a b : lfill_in p (zipl a b) = zipl (a ++ [p]) b.
Proof.
  revert b. induction a as [|x a IH]; intros b; cbn.
  - destruct b; reflexivity.
  - destruct b; cbn; rewrite IH; reflexivity.
Qed.
Lemma lfill_out_zipl p a b : lfill_out p (zipl a b) = zipl a (b ++ [p]).
Proof.
  revert b. induction a as [|x a IH]; intros b; cbn.
  - induction b as [|y b IHb]; cbn; [reflexivity|]. rewrite IHb. reflexivity.
  - destruct b; cbn; [reflexivity|rewrite IH; reflexivity].
Qed.

Lemma ins_of_app x e1 e2 : ins_of x (e1 ++ e2) = ins_of x e1 ++ ins_of x e2.
Proof. induction e1 as [|[y p|y p] t IH]; cbn; auto. destruct (port_eqb y x); cbn; congruence. Qed.
Lemma outs_of_app x e1 e2 : outs_of x (e1 ++ e2) = outs_of x e1 ++ outs_of x e2.
Proof. induction e1 as [|[y p|y p] t IH]; cbn; auto. destruct (port_eqb y x); cbn; congruence. Qed.

Lemma a_run_snoc m evs e : a_run m (evs ++ [e]) = a_step m (a_run m evs) e.
Proof. unfold a_run. rewrite fold_left_app. reflexivity. Qed.

Theorem frames_zip evs x : frames_of x (a_run rule_repaired evs) = zipl (ins_of x evs) (outs_of x evs).
Proof.
  induction evs as [|e evs IH] using rev_ind; [reflexivity|].
  rewrite a_run_snoc, ins_of_app, outs_of_app. destruct e as [y p|y p]; cbn [a_step ins_of outs_of].
  - destruct (port_eqb y x) eqn:E.
    + apply port_eqb_eq in E. subst y. rewrite frames_of_fill_in_same, IH, app_nil_r. apply lfill_in_zipl.
    + rewrite frames_of_fill_in_other by exact E. rewrite !app_nil_r. exact IH.
  - destruct (port_eqb y x) eqn:E.
    + apply port_eqb_eq in E. subst y. rewrite frames_of_fill_out_same, IH, app_nil_r. apply lfill_out_zipl.
    + rewrite frames_of_fill_out_other by exact E. rewrite !app_nil_r. exact IH.
Qed.

Lemma zipl_nth a b k i o :
  nth_error (zipl a b) k = Some (Some i, Some o) -> nth_error a k = Some i /\ nth_error b k = Some o.
Proof.
  revert b k. induction a as [|x a IH]; intros b k H; cbn in H.
  - exfalso. revert k H. induction b as [|y b IHb]; intros [|k] H; cbn in H; try discriminate. eapply IHb; eauto.
  - destruct b as [|y b]; destruct k as [|k]; cbn in *; try discriminate.
    + exfalso. rewrite zipl_nil_r in H. revert k H. clear. induction a; intros [|k] H; cbn in H; try discriminate. eapply IHa; eauto.
    + inversion H; subst. auto.
    + apply IH. exact H.
Qed.

Theorem frames_pair evs x k i o :
  nth_error (frames_of x (a_run rule_repaired evs)) k = Some (Some i, Some o) ->
  nth_error (ins_of x evs) k = Some i /\ nth_error (outs_of x evs) k = Some o.
Proof. rewrite frames_zip. apply zipl_nth. Qed.

(* hooks of one port never touch the frames of another *)
Theorem frames_local evs e x :
  (match e with HIn y _ | HOut y _ => port_eqb y x = false end) ->
  frames_of x (a_run rule_repaired (evs ++ [e])) = frames_of x (a_run rule_repaired evs).
Proof.
  intros D. rewrite a_run_snoc. destruct e as [y p|y p]; cbn [a_step].
  - apply frames_of_fill_in_other, D.
  - apply frames_of_fill_out_other, D.
Qed.
