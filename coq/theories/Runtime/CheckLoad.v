(* Correspondence checker for Runtime.Load / Reconcile (C09). *)
From Coq Require Import List NArith Bool.
From Uf Require Import Runtime.Load.
Import ListNotations.

Fixpoint mismatches_from {A} (ok : A -> bool) (i : nat) (l : list A) : list nat :=
  match l with
  | [] => []
  | c :: t => if ok c then mismatches_from ok (S i) t else i :: mismatches_from ok (S i) t
  end.
Definition mismatches {A} (ok : A -> bool) (l : list A) : list nat := mismatches_from ok 0 l.

(* what the harness reads off a table symbol *)
Record obs := mkobs { o_id : nat; o_ns : nat; o_kind : nat; o_body : nat; o_env : list bent; o_copy : option (option nat); o_node : bool }.

Fixpoint ins_sym (x : tsym) (l : list tsym) : list tsym :=
  match l with [] => [x] | y :: t => if Nat.leb (y_id x) (y_id y) then x :: l else y :: ins_sym x t end.
Definition sort_syms (l : list tsym) : list tsym := fold_right ins_sym [] l.

Definition ev_id (e : ev) : nat := match e with ELoad i | EUnload i => i end.
(* stable: an element goes after the equal ones already there when folding from the right is
   reversed, so insert before strictly greater ones only *)
Fixpoint ins_ev (x : ev) (l : list ev) : list ev :=
  match l with [] => [x] | y :: t => if Nat.leb (ev_id x) (ev_id y) then x :: l else y :: ins_ev x t end.
Definition sort_evs (l : list ev) : list ev := fold_right ins_ev [] l.

Definition ev_eqb (a b : ev) : bool :=
  match a, b with
  | ELoad x, ELoad y | EUnload x, EUnload y => Nat.eqb x y
  | _, _ => false
  end.

(* the environment and the built field of a symbol whose Bind failed depend on Go's map order;
   they are not compared *)
Definition obs_match (y : tsym) (o : obs) : bool :=
  Nat.eqb (y_id y) (o_id o) && Nat.eqb (y_ns y) (o_ns o) && Nat.eqb (y_kind y) (o_kind o) && Nat.eqb (y_body y) (o_body o)
  && Bool.eqb (y_node y) (o_node o)
  && (if y_ok y then list_eqb bent_eqb (y_env y) (o_env o) && ooeqb (y_copy y) (o_copy o) else true).

Definition step_ok (m : list tsym * list ev) (o : option (list obs * option (list ev))) : bool :=
  match o with
  | None => true
  | Some (tab, oe) =>
      list_eqb obs_match (sort_syms (fst m)) tab
      && match oe with Some evs => list_eqb ev_eqb (sort_evs (snd m)) evs | None => true end
  end.

Definition c9case := (rcfg * list rop * list (option (list obs * option (list ev))))%type.

Definition c9ok (c : c9case) : bool :=
  let '(cfg, ops, observed) := c in
  list_eqb step_ok (r_run cfg r_init ops) observed.
