(* Correspondence checker for C19: the frames the agent holds for each port of the workflow's symbols
   against the model's frames computed from the hook firings the harness recorded. *)
From Coq Require Import List Arith Bool.
From Uf Require Import Runtime.Agent.
Import ListNotations.

Fixpoint mismatches_from {A} (ok : A -> bool) (i : nat) (l : list A) : list nat :=
  match l with
  | [] => []
  | c :: t => if ok c then mismatches_from ok (S i) t else i :: mismatches_from ok (S i) t
  end.
Definition mismatches {A} (ok : A -> bool) (l : list A) : list nat := mismatches_from ok 0 l.

Fixpoint list_eqb {A} (f : A -> A -> bool) (l l' : list A) : bool :=
  match l, l' with
  | [], [] => true
  | a :: t, b :: t' => f a b && list_eqb f t t'
  | _, _ => false
  end.
Definition on_eqb (a b : option nat) : bool :=
  match a, b with
  | None, None => true
  | Some x, Some y => Nat.eqb x y
  | _, _ => false
  end.
Definition pair_eqb (a b : option nat * option nat) : bool := on_eqb (fst a) (fst b) && on_eqb (snd a) (snd b).

Record c19case := mk19 { c19events : list hev; c19frames : list (port * list (option nat * option nat)) }.

Definition c19ok (c : c19case) : bool :=
  let fs := a_run rule_repaired (c19events c) in
  forallb (fun xo => list_eqb pair_eqb (frames_of (fst xo) fs) (snd xo)) (c19frames c) &&
  Nat.eqb (length fs) (fold_left (fun n xo => n + length (snd xo)) (c19frames c) 0).

(* ---- the agent across processes (Runtime/AgentProc.v) against a real Agent: processes open a port of a loaded
   symbol, send and answer requests, and terminate with requests unanswered (the closing reader then hands out drop
   notices through the packet hooks AFTER the agent's exit hook); after every operation, for every process, whether the
   agent lists it and the frames it holds for it ---- *)
From Uf Require Import Runtime.AgentProc.
Definition apobs := (nat * bool * list (option nat * option nat))%type.
Definition apcase := list (list pev * list apobs).

Definition ap_obs_ok (st : ag) (o : apobs) : bool :=
  let '(p, tracked, fr) := o in
  Bool.eqb (mem p (g_procs st)) tracked
  && list_eqb pair_eqb (map (fun f => (f_in f, f_out f)) (frames_for p st)) fr.

Fixpoint ap_ok_from (st : ag) (c : apcase) : bool :=
  match c with
  | [] => true
  | (evs, obs) :: rest =>
      let st' := fold_left (g_step true) evs st in
      forallb (ap_obs_ok st') obs && ap_ok_from st' rest
  end.
Definition ap_ok (c : apcase) : bool := ap_ok_from ag0 c.

Definition c19any := (c19case + apcase)%type.
Definition c19ok_any (c : c19any) : bool := match c with inl x => c19ok x | inr y => ap_ok y end.
