(* The debug agent across processes (pkg/runtime/agent.go: accept, the exit hook it registers, and the
   guard at the head of the packet hooks).  Agent.frames and Agent.processes are keyed by process; a
   process is accepted by the first open hook that runs for it, and the exit hook registered then
   deletes both entries.  A packet hook may fire AFTER that exit hook (at exit the agent's hook runs
   before the hooks of the ports the process opened; those close the readers, and a closing reader
   hands out drop notices through its outbound hook).

   Two rules for a packet hook that fires for a process the agent does not list:
   - repaired (fix b2cab63): ignore it;
   - pinned: file the packet anyway - which re-creates the frames entry of a terminated process.
   Accepting a process that has already terminated registers an exit hook that runs at once. *)
From Coq Require Import List Arith Bool Lia.
From Uf Require Import Runtime.Agent Runtime.AgentProofs.
Import ListNotations.

Inductive pev :=
| PAccept (p : nat)            (* an open hook of the agent ran for process p *)
| PFire (p : nat) (e : hev)    (* a packet hook installed for process p fired *)
| PExit (p : nat).             (* process p terminated: its exit hooks ran *)

Record ag := mkag {
  g_procs : list nat;                   (* Agent.processes *)
  g_frames : list (nat * list frame);   (* Agent.frames *)
  g_dead : list nat                     (* processes that have terminated (the world, not the agent) *)
}.
Definition ag0 : ag := mkag [] [] [].

Definition mem (p : nat) (l : list nat) : bool := existsb (Nat.eqb p) l.
Definition del (p : nat) (l : list nat) : list nat := filter (fun q => negb (Nat.eqb q p)) l.
Fixpoint fget (p : nat) (m : list (nat * list frame)) : option (list frame) :=
  match m with [] => None | (q, fs) :: t => if Nat.eqb q p then Some fs else fget p t end.
Definition fdel (p : nat) (m : list (nat * list frame)) : list (nat * list frame) :=
  filter (fun kv => negb (Nat.eqb (fst kv) p)) m.
Definition fset (p : nat) (fs : list frame) (m : list (nat * list frame)) : list (nat * list frame) :=
  (p, fs) :: fdel p m.

Definition forget (p : nat) (st : ag) : ag := mkag (del p (g_procs st)) (fdel p (g_frames st)) (g_dead st).

Definition g_step (guarded : bool) (st : ag) (e : pev) : ag :=
  match e with
  | PAccept p =>
      if mem p (g_procs st) then st
      else
        let st1 := mkag (p :: g_procs st)
                        (match fget p (g_frames st) with Some _ => g_frames st | None => fset p [] (g_frames st) end)
                        (g_dead st) in
        if mem p (g_dead st) then forget p st1 else st1
  | PFire p ev =>
      if guarded && negb (mem p (g_procs st)) then st
      else mkag (g_procs st)
                (fset p (a_step rule_repaired (match fget p (g_frames st) with Some fs => fs | None => [] end) ev) (g_frames st))
                (g_dead st)
  | PExit p =>
      let st1 := mkag (g_procs st) (g_frames st) (p :: g_dead st) in
      if mem p (g_procs st) then forget p st1 else st1
  end.

Definition g_run (guarded : bool) (evs : list pev) : ag := fold_left (g_step guarded) evs ag0.

(* Agent.Frames(p) *)
Definition frames_for (p : nat) (st : ag) : list frame :=
  match fget p (g_frames st) with Some fs => fs | None => [] end.

(* ---- facts about the finite maps ---- *)
Lemma mem_in p l : mem p l = true <-> In p l.
Proof.
  unfold mem. rewrite existsb_exists. split.
  - intros [x [Hx E]]. apply Nat.eqb_eq in E. subst. exact Hx.
  - intros H. exists p. split; auto. apply Nat.eqb_refl.
Qed.

Lemma in_del p q l : In q (del p l) <-> In q l /\ q <> p.
Proof.
  unfold del. rewrite filter_In. split; intros [A B]; split; auto.
  - apply negb_true_iff, Nat.eqb_neq in B. exact B.
  - apply negb_true_iff, Nat.eqb_neq. exact B.
Qed.

Lemma fget_fdel_same p m : fget p (fdel p m) = None.
Proof.
  induction m as [|[q fs] m IH]; cbn; auto. destruct (Nat.eqb q p) eqn:E; cbn; auto. rewrite E. exact IH.
Qed.

Lemma fget_fdel_other p q m : q <> p -> fget q (fdel p m) = fget q m.
Proof.
  intros Hne. induction m as [|[k fs] m IH]; cbn; auto. destruct (Nat.eqb k p) eqn:E; cbn.
  - apply Nat.eqb_eq in E. subst k. assert (Nat.eqb p q = false) by (apply Nat.eqb_neq; congruence). rewrite H. exact IH.
  - destruct (Nat.eqb k q); auto.
Qed.

Lemma fget_fset_same p fs m : fget p (fset p fs m) = Some fs.
Proof. cbn. rewrite Nat.eqb_refl. reflexivity. Qed.

Lemma fget_fset_other p q fs m : q <> p -> fget q (fset p fs m) = fget q m.
Proof.
  intros Hne. cbn. assert (Nat.eqb p q = false) by (apply Nat.eqb_neq; congruence). rewrite H.
  apply fget_fdel_other, Hne.
Qed.

(* ---- nothing of a terminated process stays with the (repaired) agent ---- *)
Definition clean (st : ag) : Prop :=
  (forall p, In p (g_dead st) -> ~ In p (g_procs st)) /\
  (forall p, fget p (g_frames st) <> None -> In p (g_procs st)).

Lemma clean_step st e : clean st -> clean (g_step true st e).
Proof.
  intros [D F]. destruct e as [p|p ev|p]; cbn [g_step].
  - destruct (mem p (g_procs st)) eqn:M; [split; auto|].
    destruct (mem p (g_dead st)) eqn:Md.
    + split; cbn [forget g_procs g_frames g_dead].
      * intros q Hq Hin. apply in_del in Hin as [[<-|Hin] Hne]; [congruence|]. apply (D q); auto.
      * intros q Hq. destruct (Nat.eq_dec q p) as [->|Hne].
        { exfalso. apply Hq, fget_fdel_same. }
        { rewrite fget_fdel_other in Hq by exact Hne. apply in_del. split; auto. right. apply F.
          revert Hq. destruct (fget p (g_frames st)); auto. intros Hq. rewrite fget_fset_other in Hq by exact Hne. exact Hq. }
    + split; cbn [forget g_procs g_frames g_dead].
      * intros q Hq [E|Hin]; [subst q|apply (D q); auto].
        assert (mem p (g_dead st) = true) by (apply mem_in, Hq). congruence.
      * intros q Hq. destruct (Nat.eq_dec q p) as [->|Hne]; [left; reflexivity|]. right. apply F.
        revert Hq. destruct (fget p (g_frames st)); auto. intros Hq. rewrite fget_fset_other in Hq by exact Hne. exact Hq.
  - cbn [andb]. destruct (mem p (g_procs st)) eqn:M; cbn [negb]; [|split; auto].
    split; cbn [forget g_procs g_frames g_dead]; auto. intros q Hq. destruct (Nat.eq_dec q p) as [->|Hne]; [apply mem_in, M|].
    apply F. rewrite fget_fset_other in Hq by exact Hne. exact Hq.
  - destruct (mem p (g_procs st)) eqn:M.
    + split; cbn [forget g_procs g_frames g_dead].
      * intros q [<-|Hq] Hin; apply in_del in Hin as [Hin Hne]; [congruence|]. apply (D q); auto.
      * intros q Hq. destruct (Nat.eq_dec q p) as [->|Hne].
        { exfalso. apply Hq, fget_fdel_same. }
        { rewrite fget_fdel_other in Hq by exact Hne. apply in_del. auto. }
    + split; cbn [forget g_procs g_frames g_dead]; auto. intros q [<-|Hq]; [|apply D, Hq].
      intros Hin. apply mem_in in Hin. congruence.
Qed.

Theorem agent_no_residue evs :
  forall p, In p (g_dead (g_run true evs)) ->
            ~ In p (g_procs (g_run true evs)) /\ fget p (g_frames (g_run true evs)) = None /\ frames_for p (g_run true evs) = [].
Proof.
  assert (C : clean (g_run true evs)).
  { unfold g_run. assert (G : forall st, clean st -> clean (fold_left (g_step true) evs st)).
    { induction evs as [|e evs IH]; cbn; auto. intros st Cst. apply IH, clean_step, Cst. }
    apply G. split; cbn; [tauto|congruence]. }
  destruct C as [D F]. intros p Hp. assert (Np : ~ In p (g_procs (g_run true evs))) by (apply D, Hp).
  assert (E : fget p (g_frames (g_run true evs)) = None).
  { destruct (fget p (g_frames (g_run true evs))) eqn:G; auto. exfalso. apply Np, F. congruence. }
  split; auto. split; auto. unfold frames_for. rewrite E. reflexivity.
Qed.

(* the pinned hooks: a drop notice after the exit re-creates the entry, and nothing removes it again *)
Theorem pinned_agent_keeps_frames :
  exists evs p, In p (g_dead (g_run false evs)) /\ frames_for p (g_run false evs) <> [].
Proof.
  exists [PAccept 1; PFire 1 (HIn (mkport 0 false 0) 7); PExit 1; PFire 1 (HOut (mkport 0 false 0) 8)], 1.
  vm_compute. split; [auto|discriminate].
Qed.

(* ---- processes do not disturb one another (C19): the frames of a process depend on its own events only ---- *)
Definition own (p : nat) (e : pev) : bool :=
  match e with PAccept q | PExit q => Nat.eqb q p | PFire q _ => Nat.eqb q p end.

Definition view (p : nat) (st : ag) : bool * option (list frame) * bool :=
  (mem p (g_procs st), fget p (g_frames st), mem p (g_dead st)).

Lemma mem_del_other p q l : q <> p -> mem q (del p l) = mem q l.
Proof.
  intros Hne. destruct (mem q l) eqn:M.
  - apply mem_in. apply in_del. split; auto. apply mem_in, M.
  - destruct (mem q (del p l)) eqn:M2; auto. apply mem_in, in_del in M2 as [M2 _]. apply mem_in in M2. congruence.
Qed.

Lemma mem_cons_other p q l : q <> p -> mem q (p :: l) = mem q l.
Proof. intros Hne. cbn. assert (Nat.eqb q p = false) by (apply Nat.eqb_neq; exact Hne). rewrite H. reflexivity. Qed.

Lemma foreign_step g st e p : own p e = false -> view p (g_step g st e) = view p st.
Proof.
  intros Ho. unfold view. destruct e as [q|q ev|q]; cbn [own] in Ho; apply Nat.eqb_neq in Ho;
    assert (Hne : p <> q) by congruence; cbn [g_step].
  - destruct (mem q (g_procs st)); auto. destruct (mem q (g_dead st)); cbn [forget g_procs g_frames g_dead].
    + rewrite mem_del_other, mem_cons_other by exact Hne. rewrite fget_fdel_other by exact Hne.
      destruct (fget q (g_frames st)); auto. rewrite fget_fset_other by exact Hne. reflexivity.
    + rewrite mem_cons_other by exact Hne. destruct (fget q (g_frames st)); auto. rewrite fget_fset_other by exact Hne. reflexivity.
  - destruct (g && negb (mem q (g_procs st))); auto. cbn [g_procs g_frames g_dead]. rewrite fget_fset_other by exact Hne. reflexivity.
  - destruct (mem q (g_procs st)); cbn [forget g_procs g_frames g_dead].
    + rewrite mem_del_other, mem_cons_other by exact Hne. rewrite fget_fdel_other by exact Hne. reflexivity.
    + rewrite mem_cons_other by exact Hne. reflexivity.
Qed.

Definition vstep (g : bool) (v : bool * option (list frame) * bool) (e : pev) : bool * option (list frame) * bool :=
  let '(tr, fr, dd) := v in
  match e with
  | PAccept _ =>
      if tr then v else if dd then (false, None, dd)
      else (true, match fr with Some fs => Some fs | None => Some [] end, dd)
  | PFire _ ev =>
      if g && negb tr then v
      else (tr, Some (a_step rule_repaired (match fr with Some fs => fs | None => [] end) ev), dd)
  | PExit _ => if tr then (false, None, true) else (tr, fr, true)
  end.

Lemma mem_head p l : mem p (p :: l) = true.
Proof. cbn. rewrite Nat.eqb_refl. reflexivity. Qed.
Lemma mem_del_same p l : mem p (del p l) = false.
Proof. destruct (mem p (del p l)) eqn:E; auto. apply mem_in, in_del in E as [_ E]. congruence. Qed.

Lemma own_view g st e p : own p e = true -> view p (g_step g st e) = vstep g (view p st) e.
Proof.
  intros Ho. unfold view, vstep. destruct e as [q|q ev|q]; cbn [own] in Ho; apply Nat.eqb_eq in Ho; subst q; cbn [g_step].
  - destruct (mem p (g_procs st)) eqn:M; [rewrite M; reflexivity|].
    destruct (mem p (g_dead st)) eqn:Md; cbn [forget g_procs g_frames g_dead].
    + rewrite mem_del_same, fget_fdel_same, Md. reflexivity.
    + rewrite mem_head, Md. destruct (fget p (g_frames st)) eqn:G; [rewrite G|rewrite fget_fset_same]; reflexivity.
  - destruct (g && negb (mem p (g_procs st))); [reflexivity|].
    cbn [g_procs g_frames g_dead]. rewrite fget_fset_same. reflexivity.
  - destruct (mem p (g_procs st)) eqn:M; cbn [forget g_procs g_frames g_dead].
    + rewrite mem_del_same, fget_fdel_same, mem_head. reflexivity.
    + rewrite M, mem_head. reflexivity.
Qed.

Lemma own_step_view g st st' e p : view p st = view p st' -> view p (g_step g st e) = view p (g_step g st' e).
Proof.
  intros V. destruct (own p e) eqn:Ho; [|rewrite !foreign_step by exact Ho; exact V].
  rewrite !own_view by exact Ho. rewrite V. reflexivity.
Qed.

Theorem agent_processes_independent g evs p :
  view p (g_run g evs) = view p (g_run g (filter (own p) evs)).
Proof.
  unfold g_run. assert (G : forall st st', view p st = view p st' ->
      view p (fold_left (g_step g) evs st) = view p (fold_left (g_step g) (filter (own p) evs) st')).
  { induction evs as [|e evs IH]; cbn [fold_left filter]; auto. intros st st' V.
    destruct (own p e) eqn:Ho; cbn [fold_left].
    - apply IH, own_step_view, V.
    - apply IH. rewrite foreign_step by exact Ho. exact V. }
  apply G. reflexivity.
Qed.

(* ---- the frames of a live process are the single-process bookkeeping of Runtime/Agent.v over its own firings ---- *)
Fixpoint fires_of (p : nat) (evs : list pev) : list hev :=
  match evs with
  | [] => []
  | PFire q e :: t => if Nat.eqb q p then e :: fires_of p t else fires_of p t
  | _ :: t => fires_of p t
  end.

Definition no_exit (p : nat) (evs : list pev) : Prop := forall e, In e evs -> e <> PExit p.
Definition untouched (p : nat) (evs : list pev) : Prop := forall e, In e evs -> own p e = false.

Lemma live_run p : forall post st fs,
  no_exit p post -> view p st = (true, Some fs, false) ->
  view p (fold_left (g_step true) post st) = (true, Some (fold_left (a_step rule_repaired) (fires_of p post) fs), false).
Proof.
  induction post as [|e post IH]; intros st fs Hn V; cbn [fold_left fires_of]; auto.
  assert (Hn' : no_exit p post) by (intros x Hx; apply Hn; right; exact Hx).
  destruct (own p e) eqn:Ho.
  - pose proof (own_view true st e p Ho) as OV. rewrite V in OV.
    destruct e as [q|q ev|q]; cbn [own] in Ho; apply Nat.eqb_eq in Ho; subst q.
    + cbn [vstep] in OV. apply (IH _ fs Hn' OV).
    + cbn [vstep andb negb] in OV. rewrite Nat.eqb_refl. cbn [fold_left]. apply (IH _ _ Hn' OV).
    + exfalso. apply (Hn (PExit p)); auto. left. reflexivity.
  - assert (E : fires_of p (e :: post) = fires_of p post).
    { destruct e as [q|q ev|q]; cbn [fires_of]; auto. cbn [own] in Ho. rewrite Ho. reflexivity. }
    cbn [fires_of] in E. rewrite E. apply IH; auto. rewrite foreign_step by exact Ho. exact V.
Qed.

Theorem live_frames pre post p :
  untouched p pre -> no_exit p post ->
  frames_for p (g_run true (pre ++ PAccept p :: post)) = a_run rule_repaired (fires_of p post)
  /\ mem p (g_procs (g_run true (pre ++ PAccept p :: post))) = true.
Proof.
  intros Hu Hn. unfold g_run. rewrite fold_left_app. cbn [fold_left].
  set (st0 := fold_left (g_step true) pre ag0).
  assert (V0 : view p st0 = (false, None, false)).
  { assert (G : forall evs s0, untouched p evs -> view p (fold_left (g_step true) evs s0) = view p s0).
    { induction evs as [|e evs IH]; cbn [fold_left]; auto. intros s0 Hu0.
      rewrite IH by (intros x Hx; apply Hu0; right; exact Hx). apply foreign_step, Hu0. left. reflexivity. }
    unfold st0. rewrite G by exact Hu. reflexivity. }
  assert (V1 : view p (g_step true st0 (PAccept p)) = (true, Some [], false)).
  { rewrite (own_view true st0 (PAccept p) p) by (cbn; apply Nat.eqb_refl). rewrite V0. reflexivity. }
  set (st1 := g_step true st0 (PAccept p)) in *.
  pose proof (live_run p post st1 [] Hn V1) as V. set (st2 := fold_left (g_step true) post st1) in *.
  unfold view in V. injection V as V1' V2' _.
  split; auto. unfold frames_for. rewrite V2'. reflexivity.
Qed.

Theorem live_process_frames pre post p x :
  untouched p pre -> no_exit p post ->
  frames_of x (frames_for p (g_run true (pre ++ PAccept p :: post)))
  = zipl (ins_of x (fires_of p post)) (outs_of x (fires_of p post)).
Proof. intros Hu Hn. destruct (live_frames pre post p Hu Hn) as [E _]. rewrite E. apply frames_zip. Qed.
