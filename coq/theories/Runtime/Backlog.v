(* Reconcile with backlogs (C09): changes to the two stores, explicit Loads and the handling of pending
   events interleave in ANY order - several changes may pile up before an event is handled, and the
   two handlers (spec events, value events) take turns arbitrarily.  Whenever both streams have run
   dry, the table is exactly what the stores prescribe.

   Invariant: every id is either waiting in the spec stream, or its table entry is the binding of the
   spec now stored under it against SOME snapshot V of the value store that differs from the present
   one only in values whose events are still waiting in the value stream. *)
From Coq Require Import List Arith NArith Bool Lia.
From Uf Require Import Runtime.Load Runtime.LoadProofs Runtime.ReconcileProofs.
Import ListNotations.

(* ---- generic list facts ---- *)
Lemma find_filter_some {A} (P g : A -> bool) l x : find P l = Some x -> g x = true -> find P (filter g l) = Some x.
Proof.
  induction l as [|a l IH]; cbn; [discriminate|]. intros F G. destruct (P a) eqn:Pa.
  - injection F as ->. rewrite G. cbn. rewrite Pa. reflexivity.
  - destruct (g a); cbn; [rewrite Pa|]; auto.
Qed.

Lemma find_filter_none {A} (P g : A -> bool) l : find P l = None -> find P (filter g l) = None.
Proof.
  induction l as [|a l IH]; cbn; auto. destruct (P a) eqn:Pa; [discriminate|]. intros F.
  destruct (g a); cbn; [rewrite Pa|]; auto.
Qed.

Lemma find_all_false {A} (P : A -> bool) l : (forall x, In x l -> P x = false) -> find P l = None.
Proof. induction l as [|a l IH]; cbn; auto. intros H. rewrite (H a) by auto. auto. Qed.

Section PutIn.
  Context {A : Type} (key : A -> nat).
  Lemma in_put_iff (u v : A) l :
    u <> v -> (forall q, In q l -> key q = key v -> q <> u) -> (In u (put key v l) <-> In u l).
  Proof.
    intros Huv Hq. unfold put. destruct (existsb _ l).
    - rewrite in_map_iff. split.
      + intros [q [E Hin]]. destruct (Nat.eqb (key q) (key v)); congruence.
      + intros Hin. exists u. split; auto. destruct (Nat.eqb (key u) (key v)) eqn:E; auto.
        apply Nat.eqb_eq in E. exfalso. apply (Hq u Hin E). reflexivity.
    - rewrite in_app_iff. cbn. intuition congruence.
  Qed.
End PutIn.

(* ---- snapshots of the value store ---- *)
Definition names_unique (cfg : rcfg) (vals : list rval) : Prop :=
  forall a b, In a vals -> In b vals -> v_ns a = c_ns cfg -> v_ns b = c_ns cfg ->
              v_name a <> 0 -> v_name a = v_name b -> a = b.

(* V and W hold the same values of the runtime's namespace, except under the ids in D *)
Definition agree (cfg : rcfg) (D : list nat) (V W : list rval) : Prop :=
  forall u, v_ns u = c_ns cfg -> ~ In (v_id u) D -> (In u V <-> In u W).

Lemma agree_refl cfg D W : agree cfg D W W.
Proof. intros u _ _. tauto. Qed.

Lemma val_match_parts ns e v : val_match ns e v = true ->
  v_ns v = ns /\ (e_id e = 0 \/ v_id v = e_id e) /\ (e_name e = 0 \/ v_name v = e_name e).
Proof.
  unfold val_match. intros H. apply andb_true_iff in H as [H H3]. apply andb_true_iff in H as [H1 H2].
  apply Nat.eqb_eq in H1. apply orb_true_iff in H2, H3. rewrite !Nat.eqb_eq in H2, H3. auto.
Qed.

Lemma identified_parts e : identified e = true -> e_id e <> 0 \/ e_name e <> 0.
Proof.
  unfold identified. intros H. apply orb_true_iff in H as [H|H]; apply negb_true_iff, Nat.eqb_neq in H; auto.
Qed.

(* with nothing pending, a snapshot binds like the store itself *)
Lemma agree_find cfg V W e :
  NoDup (map v_id W) -> names_unique cfg W -> agree cfg [] V W -> identified e = true ->
  find (val_match (c_ns cfg) e) V = find (val_match (c_ns cfg) e) W.
Proof.
  intros Hnd Hnu Hag Hid.
  destruct (find _ V) as [v|] eqn:FV.
  - apply find_some in FV as [Hv Mv]. pose proof (val_match_parts _ _ _ Mv) as [Nv [Iv Av]].
    assert (HvW : In v W) by (apply Hag; auto).
    destruct (find _ W) as [w|] eqn:FW.
    + apply find_some in FW as [Hw Mw]. pose proof (val_match_parts _ _ _ Mw) as [Nw [Iw Aw]].
      f_equal. destruct (identified_parts e Hid) as [Hi|Hn].
      * apply (key_unique v_id W); auto. destruct Iv, Iw; congruence.
      * apply Hnu; auto; destruct Av, Aw; congruence.
    + pose proof (find_none _ _ FW v HvW). congruence.
  - destruct (find _ W) as [w|] eqn:FW; auto.
    apply find_some in FW as [Hw Mw]. pose proof (val_match_parts _ _ _ Mw) as [Nw _].
    assert (HwV : In w V) by (apply Hag; auto).
    pose proof (find_none _ _ FV w HwV). congruence.
Qed.

Lemma agree_bind cfg V W p :
  p_ns p = c_ns cfg -> NoDup (map v_id W) -> names_unique cfg W -> agree cfg [] V W ->
  bind cfg V p = bind cfg W p.
Proof.
  intros Hns Hnd Hnu Hag. unfold bind.
  assert (E : map (resolve cfg V (p_ns p)) (p_env p) = map (resolve cfg W (p_ns p)) (p_env p)).
  { apply map_ext. intros e. unfold resolve. destruct (identified e) eqn:I; auto.
    rewrite Hns, (agree_find cfg V W e); auto. }
  rewrite E. reflexivity.
Qed.

(* ---- changes to the value store keep every snapshot in agreement ---- *)
Lemma agree_put cfg D V W v :
  (forall q, In q W -> v_id q = v_id v -> v_ns q = v_ns v) ->
  agree cfg D V W ->
  agree cfg (if Nat.eqb (v_ns v) (c_ns cfg) then D ++ [v_id v] else D) V (put_val v W).
Proof.
  intros Hst Hag u Hns Hnin. rewrite put_val_put.
  assert (HD : ~ In (v_id u) D).
  { intros H. apply Hnin. destruct (Nat.eqb _ _); auto. apply in_or_app. auto. }
  rewrite (Hag u Hns HD). symmetry. apply in_put_iff.
  - intros ->. destruct (Nat.eqb (v_ns v) (c_ns cfg)) eqn:E.
    + apply Hnin, in_or_app. right. left. reflexivity.
    + apply Nat.eqb_neq in E. congruence.
  - intros q Hq Ek ->. destruct (Nat.eqb (v_ns v) (c_ns cfg)) eqn:E.
    + apply Hnin, in_or_app. right. left. auto.
    + apply Nat.eqb_neq in E. rewrite (Hst u Hq Ek) in Hns. congruence.
Qed.

Lemma agree_del cfg D V W k :
  NoDup (map v_id W) ->
  agree cfg D V W ->
  agree cfg (match val_ns k W with
             | Some ns => if Nat.eqb ns (c_ns cfg) then D ++ [k] else D
             | None => D end) V (filter (fun q => negb (Nat.eqb (v_id q) k)) W).
Proof.
  intros Hnd Hag u Hns Hnin.
  assert (HD : ~ In (v_id u) D).
  { intros H. apply Hnin. destruct (val_ns k W); auto. destruct (Nat.eqb _ _); auto. apply in_or_app. auto. }
  rewrite (Hag u Hns HD), filter_In. split; [|tauto]. intros Hu. split; auto.
  apply negb_true_iff, Nat.eqb_neq. intros Ek.
  unfold val_ns in Hnin. destruct (find (fun q => Nat.eqb (v_id q) k) W) as [q0|] eqn:F; cbn [option_map] in Hnin.
  - apply find_some in F as [Hq0 Eq0]. apply Nat.eqb_eq in Eq0.
    assert (u = q0) by (apply (key_unique v_id W); auto; congruence). subst q0.
    rewrite Hns, Nat.eqb_refl in Hnin. apply Hnin, in_or_app. right. left. auto.
  - pose proof (find_none _ _ F u Hu) as N. cbn beta in N. rewrite Ek, Nat.eqb_refl in N. discriminate.
Qed.

(* ---- handling a value event: a symbol it leaves alone is the binding against a nearer snapshot ---- *)
Lemma existsb_false {A} (f : A -> bool) l : existsb f l = false -> forall x, In x l -> f x = false.
Proof.
  intros H x Hx. destruct (f x) eqn:E; auto.
  assert (existsb f l = true) by (apply existsb_exists; eauto). congruence.
Qed.

Lemma is_bound_false vs vid y b :
  is_bound vs vid y = false -> In b (y_env y) ->
  (b_id b = 0 \/ b_id b <> vid) /\
  (b_name b = 0 \/ forall v, In v vs -> v_ns v = y_ns y -> v_name v <> b_name b).
Proof.
  unfold is_bound. intros H Hb. pose proof (existsb_false _ _ H b Hb) as F. cbn beta in F.
  apply orb_false_iff in F as [F1 F2]. split.
  - destruct (Nat.eqb (b_id b) 0) eqn:E0; [left; apply Nat.eqb_eq, E0|]. right.
    cbn in F1. apply Nat.eqb_neq, F1.
  - destruct (Nat.eqb (b_name b) 0) eqn:E0; [left; apply Nat.eqb_eq, E0|]. right.
    cbn in F2. intros v Hv Hns Hn. pose proof (existsb_false _ _ F2 v Hv) as G. cbn beta in G.
    rewrite Hns, Hn, !Nat.eqb_refl in G. discriminate.
Qed.

Definition nearer (vid : nat) (V W : list rval) : list rval :=
  filter (fun q => negb (Nat.eqb (v_id q) vid)) V ++ filter (fun q => Nat.eqb (v_id q) vid) W.

Lemma nearer_agree cfg vid q V W : agree cfg (vid :: q) V W -> agree cfg q (nearer vid V W) W.
Proof.
  intros Hag u Hns Hnin. unfold nearer. rewrite in_app_iff, !filter_In.
  destruct (Nat.eqb (v_id u) vid) eqn:E; cbn.
  - intuition discriminate.
  - apply Nat.eqb_neq in E. rewrite (Hag u Hns).
    + intuition discriminate.
    + intros [H|H]; auto.
Qed.

Lemma nearer_resolve cfg vid V W p e :
  vid <> 0 ->
  is_bound (filter (fun q => Nat.eqb (v_id q) vid) W) vid (bind cfg V p) = false ->
  In e (p_env p) ->
  resolve cfg (nearer vid V W) (p_ns p) e = resolve cfg V (p_ns p) e.
Proof.
  intros Hnz Hb He.
  assert (Hin : In (fst (resolve cfg V (p_ns p) e)) (y_env (bind cfg V p))).
  { cbn. rewrite map_map. apply in_map_iff. exists e. auto. }
  pose proof (is_bound_false _ _ _ _ Hb Hin) as [B1 B2]. clear Hb Hin.
  unfold resolve in *. destruct (identified e) eqn:I; auto.
  unfold nearer. rewrite find_app.
  destruct (find (val_match (p_ns p) e) V) as [v0|] eqn:F; cbn [fst b_id b_name] in B1, B2.
  - rewrite (find_filter_some _ _ _ _ F); auto.
    apply negb_true_iff, Nat.eqb_neq. destruct B1 as [B1|B1]; auto.
    intros Ev. apply find_some in F as [_ _]. congruence.
  - rewrite (find_filter_none _ _ _ F).
    rewrite find_all_false; auto.
    intros x Hx. destruct (val_match (p_ns p) e x) eqn:M; auto. exfalso.
    pose proof Hx as Hx'. apply filter_In in Hx' as [_ Ex]. apply Nat.eqb_eq in Ex.
    pose proof (val_match_parts _ _ _ M) as [Nx [Ix Ax]].
    destruct (identified_parts e I) as [Hi|Hn].
    + destruct Ix as [Ix|Ix]; [congruence|]. destruct B1 as [B1|B1]; congruence.
    + destruct Ax as [Ax|Ax]; [congruence|]. destruct B2 as [B2|B2]; [congruence|].
      apply (B2 x Hx); auto.
Qed.

Lemma nearer_bind cfg vid V W p :
  vid <> 0 ->
  is_bound (filter (fun q => Nat.eqb (v_id q) vid) W) vid (bind cfg V p) = false ->
  bind cfg (nearer vid V W) p = bind cfg V p.
Proof.
  intros Hnz Hb. unfold bind.
  assert (E : map (resolve cfg (nearer vid V W) (p_ns p)) (p_env p) = map (resolve cfg V (p_ns p)) (p_env p)).
  { apply map_ext_in. intros e He. apply nearer_resolve; auto. }
  rewrite E. reflexivity.
Qed.

(* ---- the invariant ---- *)
Definition covered (cfg : rcfg) (sq vq : list nat) (S : list rspec) (W : list rval) (T : list tsym) (id : nat) : Prop :=
  In id sq \/ exists V, agree cfg vq V W /\ t_lookup id T = expected cfg S V id.

(* queues explicit: the state's own queue fields are not looked at *)
Definition BinvQ (cfg : rcfg) (sq vq : list nat) (st : rstate) : Prop :=
  wf cfg st /\ ~ In 0 vq /\ forall id, covered cfg sq vq (r_specs st) (r_vals st) (r_tab st) id.

Definition Binv (cfg : rcfg) (st : rstate) : Prop := BinvQ cfg (r_sq st) (r_vq st) st.

Lemma BinvQ_queues cfg sq vq st a b : BinvQ cfg sq vq st -> BinvQ cfg sq vq (set_queues st a b).
Proof. intros [A [B C]]. split; [apply wf_queues, A|]. split; auto. Qed.

(* a targeted Load covers what it matches and leaves the rest *)
Lemma load_cov cfg f sq sq' vq st :
  (forall id, In id sq -> In id sq' \/ fmatch f id = true) ->
  BinvQ cfg sq vq st ->
  BinvQ cfg sq' vq (mkr (r_specs st) (r_vals st) (fst (load cfg f (r_specs st) (r_vals st) (r_tab st))) (r_sq st) (r_vq st)).
Proof.
  intros Hq [[Hs Hv Ht Hn] [Hz Hc]].
  pose proof (load_targeted cfg f (r_specs st) (r_vals st) (r_tab st) Hs Ht Hn) as [A [B [C D]]].
  split; [constructor; auto|]. split; auto.
  intros id. cbn [r_specs r_vals r_tab]. destruct (fmatch f id) eqn:F.
  - right. exists (r_vals st). split; [apply agree_refl|]. apply A, F.
  - destruct (Hc id) as [H|[V [Hag HV]]].
    + destruct (Hq id H) as [H'|H']; [left; exact H'|congruence].
    + right. exists V. split; auto. rewrite (B id F). exact HV.
Qed.

Lemma proc_spec_Q cfg id0 q vq st :
  BinvQ cfg (id0 :: q) vq st -> BinvQ cfg q vq (fst (proc_spec cfg st id0)).
Proof.
  intros H. unfold proc_spec.
  pose proof (load_cov cfg (FIds [id0]) (id0 :: q) q vq st) as L.
  destruct (load cfg (FIds [id0]) (r_specs st) (r_vals st) (r_tab st)) as [tab log]. cbn [fst] in *.
  apply L; auto. intros id [<-|Hin]; auto. right. rewrite fmatch_one. apply Nat.eqb_refl.
Qed.

Lemma proc_val_Q cfg vid q sq st :
  BinvQ cfg sq (vid :: q) st -> BinvQ cfg sq q (fst (proc_val cfg st vid)).
Proof.
  intros [[Hs Hv Ht Hn] [Hz Hc]]. unfold proc_val.
  assert (Hnz : vid <> 0) by (intros ->; apply Hz; left; reflexivity).
  assert (Hz' : ~ In 0 q) by (intros H; apply Hz; right; exact H).
  set (vs := filter (fun v => Nat.eqb (v_id v) vid) (r_vals st)).
  remember (map y_id (filter (is_bound vs vid) (r_tab st))) as ids eqn:Eids.
  (* what holds for an id the handler does not reload *)
  assert (K : forall id, ~ In id ids -> covered cfg sq (vid :: q) (r_specs st) (r_vals st) (r_tab st) id ->
                         covered cfg sq q (r_specs st) (r_vals st) (r_tab st) id).
  { intros id Hnin [H|[V [Hag HV]]]; [left; exact H|]. right.
    unfold expected in *. destruct (the_spec cfg (r_specs st) id) as [p|] eqn:T; cbn [option_map] in *.
    - exists (nearer vid V (r_vals st)). split; [apply nearer_agree, Hag|].
      rewrite HV. f_equal. symmetry. apply nearer_bind; auto.
      destruct (is_bound vs vid (bind cfg V p)) eqn:B; auto. exfalso. apply Hnin.
      apply lookup_some in HV as [Hin _]. subst ids. apply in_map_iff. exists (bind cfg V p). split.
      + rewrite bind_id. apply (the_spec_id _ _ _ _ T).
      + apply filter_In. auto.
    - exists (r_vals st). split; [apply agree_refl|]. exact HV. }
  destruct ids as [|i0 ids'].
  - cbn [fst]. split; [constructor; auto|]. split; [exact Hz'|]. intros id. apply K; auto.
  - pose proof (load_targeted cfg (FIds (i0 :: ids')) (r_specs st) (r_vals st) (r_tab st) Hs Ht Hn) as L.
    destruct (load _ _ _ _ _) as [tab log]. cbn [fst] in *. destruct L as [A [B [C D]]].
    split; [constructor; auto|]. split; auto.
    intros id. cbn [r_specs r_vals r_tab]. destruct (fmatch (FIds (i0 :: ids')) id) eqn:F.
    + right. exists (r_vals st). split; [apply agree_refl|]. apply A, F.
    + assert (Hnin : ~ In id (i0 :: ids')).
      { intros Hin. apply existsb_eqb_in in Hin. cbn [fmatch] in F. congruence. }
      destruct (K id Hnin (Hc id)) as [H|[V [Hag HV]]]; [left; exact H|].
      right. exists V. split; auto. rewrite (B id F). exact HV.
Qed.

Lemma drain_specs_Q cfg vq : forall q st log,
  BinvQ cfg q vq st ->
  let st' := fst (drain_specs cfg q st log) in
  BinvQ cfg [] vq st' /\ r_sq st' = r_sq st /\ r_vq st' = r_vq st.
Proof.
  induction q as [|id0 q IH]; intros st log H; cbn [drain_specs fst]; auto.
  pose proof (proc_spec_Q cfg id0 q vq st H) as H1. pose proof (proc_spec_queues cfg st id0) as [Q1 Q2].
  destruct (proc_spec cfg st id0) as [st1 l1]. cbn [fst] in *.
  destruct (IH st1 (log ++ l1) H1) as [A [B C]]. split; auto. split; congruence.
Qed.

Lemma drain_vals_Q cfg sq : forall q st log,
  BinvQ cfg sq q st ->
  let st' := fst (drain_vals cfg q st log) in
  BinvQ cfg sq [] st' /\ r_sq st' = r_sq st /\ r_vq st' = r_vq st.
Proof.
  induction q as [|id0 q IH]; intros st log H; cbn [drain_vals fst]; auto.
  pose proof (proc_val_Q cfg id0 q sq st H) as H1. pose proof (proc_val_queues cfg st id0) as [Q1 Q2].
  destruct (proc_val cfg st id0) as [st1 l1]. cbn [fst] in *.
  destruct (IH st1 (log ++ l1) H1) as [A [B C]]. split; auto. split; congruence.
Qed.

(* ---- every operation keeps the invariant ---- *)
Definition op_ok (st : rstate) (op : rop) : Prop :=
  match op with
  | OSpecPut _ | OValPut _ => change_ok st op
  | _ => True
  end.

Theorem backlog_step cfg st op : Binv cfg st -> op_ok st op -> Binv cfg (fst (r_step cfg st op)).
Proof.
  intros H Hok. unfold Binv in *. destruct op; cbn [op_ok change_ok] in Hok.
  - (* spec put *)
    destruct H as [[Hs Hv Ht Hn] [Hz Hc]]. cbn [r_step fst r_sq r_vq].
    split; [constructor; cbn; auto; rewrite put_spec_put; apply put_keys, Hs|]. split; auto.
    intros id. cbn [r_specs r_vals r_tab]. destruct (Hc id) as [Hin|[V [Hag HV]]].
    + left. destruct (Nat.eqb _ _); auto. apply in_or_app. auto.
    + destruct (Nat.eqb (p_ns p) (c_ns cfg)) eqn:Ens.
      * destruct (Nat.eq_dec id (p_id p)) as [->|Hne].
        { left. apply in_or_app. right. left. reflexivity. }
        { right. exists V. split; auto. rewrite HV. unfold expected. rewrite the_spec_put_other; auto. }
      * right. exists V. split; auto. rewrite HV. unfold expected. rewrite the_spec_put_foreign; auto.
        apply Nat.eqb_neq, Ens.
  - (* spec delete *)
    destruct H as [[Hs Hv Ht Hn] [Hz Hc]]. cbn [r_step fst r_sq r_vq].
    split; [constructor; cbn; auto; apply (del_keys p_id), Hs|]. split; auto.
    intros x. cbn [r_specs r_vals r_tab]. destruct (Hc x) as [Hin|[V [Hag HV]]].
    + left. destruct (spec_ns id (r_specs st)); auto. destruct (Nat.eqb _ _); auto. apply in_or_app. auto.
    + assert (Hforeign : (forall q, In q (r_specs st) -> p_id q = id -> p_ns q <> c_ns cfg) ->
                         covered cfg (r_sq st) (r_vq st) (filter (fun q => negb (Nat.eqb (p_id q) id)) (r_specs st)) (r_vals st) (r_tab st) x).
      { intros Hf. right. exists V. split; auto. rewrite HV. unfold expected. rewrite the_spec_del_foreign; auto. }
      unfold spec_ns. destruct (find (fun q => Nat.eqb (p_id q) id) (r_specs st)) as [q0|] eqn:F; cbn [option_map].
      * apply find_some in F as [Hq0 Eq0]. apply Nat.eqb_eq in Eq0.
        destruct (Nat.eqb (p_ns q0) (c_ns cfg)) eqn:Ens.
        { destruct (Nat.eq_dec x id) as [->|Hne].
          - left. apply in_or_app. right. left. reflexivity.
          - right. exists V. split; auto. rewrite HV. unfold expected. rewrite the_spec_del_other; auto. }
        { apply Hforeign. intros q Hq Eq. rewrite (key_unique p_id _ q q0 Hs Hq Hq0) by congruence. apply Nat.eqb_neq, Ens. }
      * apply Hforeign. intros q Hq Eq. apply (find_none _ _ F) in Hq. rewrite Eq, Nat.eqb_refl in Hq. discriminate.
  - (* value put *)
    destruct Hok as [Hnz Hst]. destruct H as [[Hs [Hvd Hvn] Ht Hn] [Hz Hc]]. cbn [r_step fst r_sq r_vq].
    split; [constructor; cbn; auto|]; [|split].
    + split. * rewrite put_val_put. apply put_keys, Hvd.
      * intros x Hx. rewrite put_val_put in Hx. apply in_put_inv in Hx as [->|Hx]; auto.
    + destruct (Nat.eqb _ _); auto. intros Hin. apply in_app_or in Hin as [Hin|[Hin|[]]]; auto.
    + intros id. cbn [r_specs r_vals r_tab]. destruct (Hc id) as [Hin|[V [Hag HV]]]; [left; exact Hin|].
      right. exists V. split; auto. apply agree_put; auto.
  - (* value delete *)
    destruct H as [[Hs [Hvd Hvn] Ht Hn] [Hz Hc]]. cbn [r_step fst r_sq r_vq].
    split; [constructor; cbn; auto|]; [|split].
    + split. * apply (del_keys v_id), Hvd. * intros x Hx. apply filter_In in Hx as [Hx _]. auto.
    + unfold val_ns. destruct (find (fun q => Nat.eqb (v_id q) id) (r_vals st)) as [q0|] eqn:F; cbn [option_map]; auto.
      destruct (Nat.eqb _ _); auto. intros Hin. apply in_app_or in Hin as [Hin|[Hin|[]]]; auto.
      apply find_some in F as [Hq0 Eq0]. apply Nat.eqb_eq in Eq0. apply (Hvn q0 Hq0). congruence.
    + intros x. cbn [r_specs r_vals r_tab]. destruct (Hc x) as [Hin|[V [Hag HV]]]; [left; exact Hin|].
      right. exists V. split; auto. apply agree_del; auto.
  - (* Load *)
    cbn [r_step].
    pose proof (load_cov cfg f (r_sq st) (r_sq st) (r_vq st) st) as L.
    destruct (load cfg f (r_specs st) (r_vals st) (r_tab st)) as [tab log]. cbn [fst r_sq r_vq] in *.
    apply L; auto.
  - (* oldest spec event *)
    cbn [r_step]. destruct (r_sq st) as [|id0 q] eqn:Q; [cbn [fst]; rewrite Q; exact H|].
    pose proof (proc_spec_queues cfg (set_queues st q (r_vq st)) id0) as [Q1 Q2]. cbn [set_queues r_sq r_vq] in Q1, Q2.
    rewrite Q1, Q2. apply proc_spec_Q, BinvQ_queues, H.
  - (* oldest value event *)
    cbn [r_step]. destruct (r_vq st) as [|id0 q] eqn:Q; [cbn [fst]; rewrite Q; exact H|].
    pose proof (proc_val_queues cfg (set_queues st (r_sq st) q) id0) as [Q1 Q2]. cbn [set_queues r_sq r_vq] in Q1, Q2.
    rewrite Q1, Q2. apply proc_val_Q, BinvQ_queues, H.
  - (* everything pending *)
    cbn [r_step].
    pose proof (drain_specs_Q cfg (r_vq st) (r_sq st) (set_queues st [] (r_vq st)) [] (BinvQ_queues _ _ _ _ _ _ H)) as [A [B C]].
    destruct (drain_specs cfg (r_sq st) (set_queues st [] (r_vq st)) []) as [st1 l1]. cbn [fst set_queues r_sq r_vq] in *.
    rewrite C.
    pose proof (drain_vals_Q cfg [] (r_vq st) (set_queues st1 [] []) l1 (BinvQ_queues _ _ _ _ _ _ A)) as [A2 [B2 C2]].
    destruct (drain_vals cfg (r_vq st) (set_queues st1 [] []) l1) as [st2 l2]. cbn [fst set_queues r_sq r_vq] in *.
    rewrite B2, C2. exact A2.
Qed.

Fixpoint hist_ok (cfg : rcfg) (st : rstate) (ops : list rop) : Prop :=
  match ops with
  | [] => True
  | op :: ops' => op_ok st op /\ hist_ok cfg (fst (r_step cfg st op)) ops'
  end.

Definition r_after (cfg : rcfg) (st : rstate) (ops : list rop) : rstate :=
  fold_left (fun s op => fst (r_step cfg s op)) ops st.

Theorem backlog_history cfg : forall ops st, Binv cfg st -> hist_ok cfg st ops -> Binv cfg (r_after cfg st ops).
Proof.
  unfold r_after. induction ops as [|op ops IH]; intros st H Hh; cbn [fold_left]; auto.
  destruct Hh as [Hok Hh]. apply IH; auto. apply backlog_step; auto.
Qed.

(* with both streams dry the table is what the stores prescribe *)
Theorem backlog_quiet cfg st :
  Binv cfg st -> r_sq st = [] -> r_vq st = [] -> names_unique cfg (r_vals st) -> conv cfg st.
Proof.
  intros [[Hs [Hvd Hvn] Ht Hn] [Hz Hc]] Qs Qv Hnu id. rewrite Qs, Qv in Hc.
  destruct (Hc id) as [[]|[V [Hag HV]]]. rewrite HV. unfold expected.
  destruct (the_spec cfg (r_specs st) id) as [p|] eqn:T; cbn [option_map]; auto.
  f_equal. apply agree_bind; auto. apply (the_spec_id _ _ _ _ T).
Qed.

Lemma Binv_init cfg : Binv cfg r_init.
Proof.
  split; [apply good_init|]. split; [intros []|]. intros id. right. exists []. split; [apply agree_refl|reflexivity].
Qed.

Theorem reconcile_backlog cfg ops :
  hist_ok cfg r_init ops ->
  let st := r_after cfg r_init ops in
  r_sq st = [] -> r_vq st = [] -> names_unique cfg (r_vals st) ->
  forall id, t_lookup id (r_tab st) = expected cfg (r_specs st) (r_vals st) id.
Proof.
  intros Hh st Qs Qv Hnu. apply backlog_quiet; auto. apply backlog_history; auto. apply Binv_init.
Qed.
