From Coq Require Import List Arith Bool Lia.
From Uf Require Import Runtime.Breakpoint.
Import ListNotations.

Lemma nth_set_nth {A} (l : list A) t j x d :
  nth j (set_nth t x l) d = if Nat.eqb j t then (if Nat.ltb t (length l) then x else nth j l d) else nth j l d.
Proof.
  revert t j. induction l as [|a l IH]; intros t j.
  - cbn. destruct j, t; cbn; try reflexivity. destruct (Nat.eqb j t); reflexivity.
  - destruct t as [|t]; destruct j as [|j]; cbn; try reflexivity.
    rewrite IH. destruct (Nat.eqb j t); [|reflexivity].
    change (Nat.ltb (S t) (S (length l))) with (Nat.ltb t (length l)). reflexivity.
Qed.

(* once the breakpoint is closed, a packet paused in OnFrame can go on by itself, at either select *)
Theorem closed_releases st t :
  done st = true -> t < length (pcs st) ->
  (forall f, pc_of st t = F0 f -> exists st', b_step st (BSeeDone t) = Some st' /\ pc_of st' t = F1) /\
  (pc_of st t = F1 -> exists st', b_step st (BSeeDone t) = Some st' /\ pc_of st' t = FEnd).
Proof.
  intros D L. apply Nat.ltb_lt in L. split.
  - intros f H. unfold b_step. rewrite D, H. eexists. split; [reflexivity|].
    unfold pc_of, set_pc. cbn. rewrite nth_set_nth, Nat.eqb_refl, L. reflexivity.
  - intros H. unfold b_step. rewrite D, H. eexists. split; [reflexivity|].
    unfold pc_of, set_pc. cbn. rewrite nth_set_nth, Nat.eqb_refl, L. reflexivity.
Qed.

Theorem done_monotone st l : done st = true -> done (b_next st l) = true.
Proof.
  intros D. unfold b_next. destruct (b_step st l) as [st'|] eqn:E; [|exact D].
  unfold b_step in E. destruct l as [t|t u|t u|t];
    repeat match type of E with
           | context [match ?x with _ => _ end] => destruct x eqn:?; try discriminate
           end; inversion E; subst; unfold set_pc; cbn; auto.
Qed.

(* a paused packet needs at most two steps of its own to leave a closed breakpoint, and no step of
   anybody else can take it back into the breakpoint *)
Theorem closed_two_steps st t f :
  done st = true -> t < length (pcs st) -> pc_of st t = F0 f ->
  pc_of (b_next (b_next st (BSeeDone t)) (BSeeDone t)) t = FEnd.
Proof.
  intros D L H.
  destruct (proj1 (closed_releases st t D L) f H) as [st1 [S1 P1]].
  unfold b_next at 2. rewrite S1.
  assert (D1 : done st1 = true).
  { pose proof (done_monotone st (BSeeDone t) D) as X. unfold b_next in X. rewrite S1 in X. exact X. }
  assert (L1 : t < length (pcs st1)).
  { unfold b_step in S1. rewrite D, H in S1. inversion S1; subst. unfold set_pc. cbn.
    clear - L. revert t L. generalize (pcs st). induction l as [|a l IH]; intros [|t] L; cbn in *; try lia.
    apply -> Nat.succ_lt_mono. apply IH. lia. }
  destruct (proj2 (closed_releases st1 t D1 L1) P1) as [st2 [S2 P2]].
  unfold b_next. rewrite S2. exact P2.
Qed.
