(* Theorems about Runtime.Load and Reconcile (C09). *)
From Coq Require Import List Arith NArith Bool Lia.
From Uf Require Import Runtime.Load.
Import ListNotations.

(* ---- boolean equalities are equalities ---- *)
Lemma oeqb_eq a b : oeqb a b = true <-> a = b.
Proof.
  destruct a as [x|], b as [y|]; cbn; split; intros H; try discriminate; auto.
  - apply Nat.eqb_eq in H. congruence.
  - injection H as ->. apply Nat.eqb_refl.
Qed.

Lemma ooeqb_eq a b : ooeqb a b = true <-> a = b.
Proof.
  destruct a as [x|], b as [y|]; cbn; split; intros H; try discriminate; auto.
  - apply oeqb_eq in H. congruence.
  - injection H as ->. apply oeqb_eq. reflexivity.
Qed.

Lemma bent_eqb_eq a b : bent_eqb a b = true <-> a = b.
Proof.
  destruct a, b. unfold bent_eqb. cbn. rewrite !andb_true_iff, !Nat.eqb_eq, oeqb_eq. split.
  - intros [[[-> ->] ->] ->]. reflexivity.
  - intros H. injection H as -> -> -> ->. auto.
Qed.

Lemma list_eqb_eq {A} (f : A -> A -> bool) (Hf : forall a b, f a b = true <-> a = b) l1 l2 :
  list_eqb f l1 l2 = true <-> l1 = l2.
Proof.
  revert l2. induction l1 as [|a l1 IH]; intros [|b l2]; cbn; split; intros H; try discriminate; auto.
  - apply andb_true_iff in H as [H1 H2]. apply Hf in H1. apply IH in H2. congruence.
  - injection H as -> ->. apply andb_true_iff. split; [apply Hf | apply IH]; reflexivity.
Qed.

Lemma tsym_eqb_eq a b : tsym_eqb a b = true <-> a = b.
Proof.
  destruct a, b. unfold tsym_eqb. cbn.
  rewrite !andb_true_iff, !Nat.eqb_eq, (list_eqb_eq _ bent_eqb_eq), ooeqb_eq, !Bool.eqb_true_iff. split.
  - intros [[[[[[[-> ->] ->] ->] ->] ->] ->] ->]. reflexivity.
  - intros H. injection H as -> -> -> -> -> -> -> ->. repeat split.
Qed.

(* ---- the table as a finite map ---- *)
Definition ids_nodup (tab : list tsym) : Prop := NoDup (map y_id tab).
Definition table_ns (cfg : rcfg) (tab : list tsym) : Prop := forall y, In y tab -> y_ns y = c_ns cfg.

Lemma lookup_remove_other id id' tab : id <> id' -> t_lookup id (t_remove id' tab) = t_lookup id tab.
Proof.
  intros Hne. unfold t_lookup, t_remove. induction tab as [|y tab IH]; cbn; auto.
  destruct (Nat.eqb (y_id y) id') eqn:E; cbn.
  - apply Nat.eqb_eq in E. destruct (Nat.eqb (y_id y) id) eqn:E2; auto. apply Nat.eqb_eq in E2. congruence.
  - destruct (Nat.eqb (y_id y) id); auto.
Qed.

Lemma lookup_remove_same id tab : t_lookup id (t_remove id tab) = None.
Proof.
  unfold t_lookup, t_remove. induction tab as [|y tab IH]; cbn; auto.
  destruct (Nat.eqb (y_id y) id) eqn:E; cbn; auto. rewrite E. exact IH.
Qed.

Lemma find_app {A} (f : A -> bool) l1 l2 : find f (l1 ++ l2) = match find f l1 with Some x => Some x | None => find f l2 end.
Proof. induction l1 as [|a l1 IH]; cbn; auto. destruct (f a); auto. Qed.

Lemma lookup_insert id y tab : t_lookup id (t_insert y tab) = if Nat.eqb (y_id y) id then Some y else t_lookup id tab.
Proof.
  unfold t_insert, t_lookup at 1. rewrite find_app. fold (t_lookup id (t_remove (y_id y) tab)).
  destruct (Nat.eqb (y_id y) id) eqn:E.
  - apply Nat.eqb_eq in E. subst id. rewrite lookup_remove_same. cbn. rewrite Nat.eqb_refl. reflexivity.
  - apply Nat.eqb_neq in E. rewrite lookup_remove_other by congruence. cbn.
    apply Nat.eqb_neq in E. rewrite E. destruct (t_lookup id tab); reflexivity.
Qed.

Lemma lookup_some id tab y : t_lookup id tab = Some y -> In y tab /\ y_id y = id.
Proof. unfold t_lookup. intros H. apply find_some in H. rewrite Nat.eqb_eq in H. exact H. Qed.

Lemma lookup_none id tab : t_lookup id tab = None -> ~ In id (map y_id tab).
Proof.
  unfold t_lookup. intros H Hin. apply in_map_iff in Hin as [y [E Hy]].
  apply (find_none _ _ H) in Hy. rewrite E, Nat.eqb_refl in Hy. discriminate.
Qed.

Lemma remove_ids id tab : forall x, In x (map y_id (t_remove id tab)) <-> In x (map y_id tab) /\ x <> id.
Proof.
  intros x. unfold t_remove. rewrite !in_map_iff. split.
  - intros [y [E Hy]]. apply filter_In in Hy as [Hy Hb]. apply negb_true_iff, Nat.eqb_neq in Hb. split; [exists y; auto | congruence].
  - intros [[y [E Hy]] Hne]. exists y. split; auto. apply filter_In. split; auto. apply negb_true_iff, Nat.eqb_neq. congruence.
Qed.

Lemma nodup_remove id tab : ids_nodup tab -> ids_nodup (t_remove id tab).
Proof.
  unfold ids_nodup, t_remove. induction tab as [|y tab IH]; cbn; intros H; auto.
  inversion H as [|? ? Hn Hd]; subst. destruct (negb (Nat.eqb (y_id y) id)); cbn; auto.
  constructor; auto. intros Hin. apply Hn. apply (remove_ids id tab) in Hin. tauto.
Qed.

Lemma nodup_snoc {A} (l : list A) x : NoDup l -> ~ In x l -> NoDup (l ++ [x]).
Proof.
  induction l as [|a l IH]; cbn; intros H Hn.
  - constructor; [intros []|constructor].
  - inversion H as [|? ? Ha Hd]; subst. constructor.
    + intros Hin. apply in_app_or in Hin as [Hin|[<-|[]]]; auto.
    + apply IH; auto.
Qed.

Lemma nodup_insert y tab : ids_nodup tab -> ids_nodup (t_insert y tab).
Proof.
  intros H. unfold ids_nodup, t_insert. rewrite map_app. cbn.
  apply nodup_snoc; [apply nodup_remove, H|].
  intros Hx. apply remove_ids in Hx. tauto.
Qed.

Lemma lookup_filter q id tab : ids_nodup tab ->
  t_lookup id (filter q tab) = match t_lookup id tab with Some y => if q y then Some y else None | None => None end.
Proof.
  unfold ids_nodup, t_lookup. induction tab as [|y tab IH]; cbn; intros H; auto.
  inversion H as [|? ? Hn Hd]; subst. destruct (Nat.eqb (y_id y) id) eqn:E.
  - destruct (q y) eqn:Q; cbn; [rewrite E; reflexivity|].
    apply Nat.eqb_eq in E. subst id.
    destruct (find (fun y0 => Nat.eqb (y_id y0) (y_id y)) (filter q tab)) eqn:F; auto.
    apply find_some in F as [Hin Hid]. apply filter_In in Hin as [Hin _]. apply Nat.eqb_eq in Hid.
    exfalso. apply Hn. rewrite <- Hid. apply in_map, Hin.
  - destruct (q y); cbn; [rewrite E|]; apply IH, Hd.
Qed.

Lemma nodup_filter q tab : ids_nodup tab -> ids_nodup (filter q tab).
Proof.
  unfold ids_nodup. induction tab as [|y tab IH]; cbn; intros H; auto.
  inversion H as [|? ? Hn Hd]; subst. destruct (q y); cbn; auto. constructor; auto.
  intros Hin. apply Hn. apply in_map_iff in Hin as [z [E Hz]]. apply filter_In in Hz as [Hz _]. rewrite <- E. apply in_map, Hz.
Qed.

(* ---- bind ---- *)
Lemma bind_id cfg vals p : y_id (bind cfg vals p) = p_id p. Proof. reflexivity. Qed.
Lemma bind_ns cfg vals p : y_ns (bind cfg vals p) = p_ns p. Proof. reflexivity. Qed.

(* ---- what the stores prescribe ---- *)
Definition the_spec (cfg : rcfg) (specs : list rspec) (id : nat) : option rspec :=
  find (fun p => Nat.eqb (p_id p) id) (selected cfg FAll specs).
Definition expected (cfg : rcfg) (specs : list rspec) (vals : list rval) (id : nat) : option tsym :=
  option_map (bind cfg vals) (the_spec cfg specs id).

Definition spec_ids_nodup (specs : list rspec) : Prop := NoDup (map p_id specs).

Lemma selected_nodup cfg f specs : spec_ids_nodup specs -> NoDup (map p_id (selected cfg f specs)).
Proof.
  unfold spec_ids_nodup, selected. induction specs as [|p specs IH]; cbn; intros H; auto.
  inversion H as [|? ? Hn Hd]; subst. destruct (_ && _); cbn; auto. constructor; auto.
  intros Hin. apply Hn. apply in_map_iff in Hin as [z [E Hz]]. apply filter_In in Hz as [Hz _]. rewrite <- E. apply in_map, Hz.
Qed.

Lemma selected_find cfg f specs id : fmatch f id = true ->
  find (fun p => Nat.eqb (p_id p) id) (selected cfg f specs) = the_spec cfg specs id.
Proof.
  intros Hf. unfold the_spec, selected. induction specs as [|p specs IH]; cbn; auto.
  rewrite andb_true_r. destruct (Nat.eqb (p_ns p) (c_ns cfg)); cbn; auto.
  destruct (fmatch f (p_id p)) eqn:M; cbn.
  - destruct (Nat.eqb (p_id p) id); auto.
  - destruct (Nat.eqb (p_id p) id) eqn:E; auto. apply Nat.eqb_eq in E. congruence.
Qed.

Lemma selected_in cfg f specs p : In p (selected cfg f specs) -> p_ns p = c_ns cfg /\ fmatch f (p_id p) = true.
Proof.
  unfold selected. intros H. apply filter_In in H as [_ H]. apply andb_true_iff in H as [H1 H2]. apply Nat.eqb_eq in H1. auto.
Qed.

(* ---- the first loop of Load ---- *)
Lemma load_one_lookup cfg vals tab log p id :
  t_lookup id (fst (load_one cfg vals (tab, log) p)) =
  if Nat.eqb (p_id p) id then Some (bind cfg vals p) else t_lookup id tab.
Proof.
  unfold load_one. destruct (t_lookup (p_id p) tab) as [old|] eqn:L.
  - destruct (tsym_eqb old (bind cfg vals p)) eqn:E; cbn [fst].
    + apply tsym_eqb_eq in E. subst old. destruct (Nat.eqb (p_id p) id) eqn:E2; auto.
      apply Nat.eqb_eq in E2. subst id. exact L.
    + rewrite lookup_insert. reflexivity.
  - cbn [fst]. rewrite lookup_insert. reflexivity.
Qed.

Lemma load_one_nodup cfg vals tab log p : ids_nodup tab -> ids_nodup (fst (load_one cfg vals (tab, log) p)).
Proof.
  intros H. unfold load_one. destruct (t_lookup _ _); [destruct (tsym_eqb _ _)|]; cbn [fst]; auto using nodup_insert.
Qed.

Lemma in_insert y z tab : In z (t_insert y tab) -> z = y \/ In z tab.
Proof.
  unfold t_insert, t_remove. intros H. apply in_app_or in H as [H|[H|[]]]; auto. apply filter_In in H. tauto.
Qed.

Lemma load_one_ns cfg vals tab log p : p_ns p = c_ns cfg -> table_ns cfg tab -> table_ns cfg (fst (load_one cfg vals (tab, log) p)).
Proof.
  intros Hp H. unfold load_one. destruct (t_lookup _ _); [destruct (tsym_eqb _ _)|]; cbn [fst]; auto;
    intros z Hz; apply in_insert in Hz as [->|Hz]; auto.
Qed.

Lemma fold_load_one cfg vals : forall sel tab log,
  NoDup (map p_id sel) -> ids_nodup tab -> table_ns cfg tab -> (forall p, In p sel -> p_ns p = c_ns cfg) ->
  let r := fold_left (load_one cfg vals) sel (tab, log) in
  (forall id, t_lookup id (fst r) =
     match find (fun p => Nat.eqb (p_id p) id) sel with Some p => Some (bind cfg vals p) | None => t_lookup id tab end)
  /\ ids_nodup (fst r) /\ table_ns cfg (fst r).
Proof.
  induction sel as [|p sel IH]; intros tab log Hd Ht Hn Hs; cbn [fold_left].
  - cbn. auto.
  - inversion Hd as [|? ? Hnin Hd']; subst.
    destruct (load_one cfg vals (tab, log) p) as [tab1 log1] eqn:E.
    assert (E1 : tab1 = fst (load_one cfg vals (tab, log) p)) by (rewrite E; reflexivity).
    specialize (IH tab1 log1 Hd').
    destruct IH as [A [B C]].
    + subst tab1. apply load_one_nodup, Ht.
    + subst tab1. apply load_one_ns; auto. apply Hs. left. reflexivity.
    + intros q Hq. apply Hs. right. exact Hq.
    + split; [|split]; auto. intros id. rewrite A. cbn [find].
      destruct (Nat.eqb (p_id p) id) eqn:Eid.
      * apply Nat.eqb_eq in Eid. subst id.
        destruct (find (fun p0 => Nat.eqb (p_id p0) (p_id p)) sel) as [q|] eqn:F.
        { apply find_some in F as [Hq Hid]. apply Nat.eqb_eq in Hid. exfalso. apply Hnin. rewrite <- Hid. apply in_map, Hq. }
        { subst tab1. rewrite load_one_lookup, Nat.eqb_refl. reflexivity. }
      * destruct (find _ sel); auto. subst tab1. rewrite load_one_lookup, Eid. reflexivity.
Qed.

(* ---- Load: the symbols the filter covers end up as the stores prescribe, the others are untouched ---- *)
Theorem load_targeted cfg f specs vals tab :
  spec_ids_nodup specs -> ids_nodup tab -> table_ns cfg tab ->
  let tab' := fst (load cfg f specs vals tab) in
  (forall id, fmatch f id = true -> t_lookup id tab' = expected cfg specs vals id)
  /\ (forall id, fmatch f id = false -> t_lookup id tab' = t_lookup id tab)
  /\ ids_nodup tab' /\ table_ns cfg tab'.
Proof.
  intros Hs Ht Hn. unfold load.
  pose proof (fold_load_one cfg vals (selected cfg f specs) tab [] (selected_nodup cfg f specs Hs) Ht Hn
                (fun p Hp => proj1 (selected_in _ _ _ _ Hp))) as H.
  destruct (fold_left _ _ _) as [tab1 log1]. cbn [fst] in *. destruct H as [A [B C]].
  split; [|split; [|split]].
  - intros id Hf. rewrite (lookup_filter _ _ _ B), A, (selected_find _ _ _ _ Hf). unfold expected.
    destruct (the_spec cfg specs id) as [p|] eqn:T; cbn [option_map].
    + unfold is_stale. rewrite bind_id.
      assert (In p (selected cfg f specs) /\ p_id p = id) as [Hp Hid].
      { rewrite <- (selected_find _ f _ _ Hf) in T. apply find_some in T. rewrite Nat.eqb_eq in T. exact T. }
      replace (existsb _ _) with true; [rewrite andb_false_r; reflexivity|].
      symmetry. apply existsb_exists. exists p. split; auto. apply Nat.eqb_refl.
    + destruct (t_lookup id tab) as [y|] eqn:L; auto.
      apply lookup_some in L as [Hy Hid]. unfold is_stale. rewrite (Hn _ Hy), Nat.eqb_refl, Hid, Hf. cbn.
      replace (existsb _ _) with false; [reflexivity|].
      symmetry. apply not_true_iff_false. intros Hex. apply existsb_exists in Hex as [p [Hp E]].
      apply Nat.eqb_eq in E. rewrite <- (selected_find _ f _ _ Hf) in T. apply (find_none _ _ T) in Hp.
      rewrite E, Nat.eqb_refl in Hp. discriminate.
  - intros id Hf. rewrite (lookup_filter _ _ _ B), A.
    destruct (find _ (selected cfg f specs)) as [p|] eqn:F.
    + apply find_some in F as [Hp E]. apply Nat.eqb_eq in E. apply selected_in in Hp as [_ Hp]. congruence.
    + destruct (t_lookup id tab) as [y|] eqn:L; auto. apply lookup_some in L as [_ Hid].
      unfold is_stale. rewrite Hid, Hf, andb_false_r. reflexivity.
  - apply nodup_filter, B.
  - intros y Hy. apply filter_In in Hy as [Hy _]. apply C, Hy.
Qed.

(* ---- Load on a table that already agrees with the stores changes nothing and notifies nobody ---- *)
Definition agrees_on (cfg : rcfg) (f : lfilter) (specs : list rspec) (vals : list rval) (tab : list tsym) : Prop :=
  forall id, fmatch f id = true -> t_lookup id tab = expected cfg specs vals id.

Lemma fold_load_one_noop cfg vals tab : forall sel log,
  (forall p, In p sel -> t_lookup (p_id p) tab = Some (bind cfg vals p)) ->
  fold_left (load_one cfg vals) sel (tab, log) = (tab, log).
Proof.
  induction sel as [|p sel IH]; intros log H; cbn [fold_left]; auto.
  unfold load_one at 2. rewrite (H p (or_introl eq_refl)).
  replace (tsym_eqb _ _) with true by (symmetry; apply tsym_eqb_eq; reflexivity).
  apply IH. intros q Hq. apply H. right. exact Hq.
Qed.

Lemma filter_all {A} (q : A -> bool) l : (forall x, In x l -> q x = true) -> filter q l = l.
Proof.
  induction l as [|a l IH]; cbn; intros H; auto. rewrite (H a (or_introl eq_refl)). f_equal. apply IH. intros x Hx. apply H. right. exact Hx.
Qed.

Lemma filter_none {A} (q : A -> bool) l : (forall x, In x l -> q x = false) -> filter q l = [].
Proof.
  induction l as [|a l IH]; cbn; intros H; auto. rewrite (H a (or_introl eq_refl)). apply IH. intros x Hx. apply H. right. exact Hx.
Qed.

Theorem load_noop cfg f specs vals tab :
  spec_ids_nodup specs -> ids_nodup tab ->
  agrees_on cfg f specs vals tab -> load cfg f specs vals tab = (tab, []).
Proof.
  intros Hs Ht Ha. unfold load.
  assert (Hsel : forall p, In p (selected cfg f specs) -> t_lookup (p_id p) tab = Some (bind cfg vals p)).
  { intros p Hp. pose proof (selected_in _ _ _ _ Hp) as [_ Hf]. rewrite (Ha _ Hf). unfold expected.
    rewrite <- (selected_find _ f _ _ Hf).
    destruct (find _ (selected cfg f specs)) as [q|] eqn:F.
    - apply find_some in F as [Hq E]. apply Nat.eqb_eq in E. cbn. f_equal. f_equal.
      (* two selected specs with one id are the same spec *)
      pose proof (selected_nodup cfg f specs Hs) as Hd. clear - Hp Hq E Hd.
      induction (selected cfg f specs) as [|a l IH]; [destruct Hp|]. cbn in Hd. inversion Hd as [|? ? Hn Hd']; subst.
      destruct Hp as [->|Hp], Hq as [->|Hq]; auto.
      + exfalso. apply Hn. rewrite <- E. apply in_map, Hq.
      + exfalso. apply Hn. rewrite E. apply in_map, Hp.
    - apply (find_none _ _ F) in Hp. rewrite Nat.eqb_refl in Hp. discriminate. }
  rewrite (fold_load_one_noop _ _ _ _ _ Hsel).
  assert (Hst : forall y, In y tab -> is_stale cfg f (selected cfg f specs) y = false).
  { intros y Hy. unfold is_stale. destruct (Nat.eqb (y_ns y) (c_ns cfg)); cbn; auto.
    destruct (fmatch f (y_id y)) eqn:Hf; cbn; auto. apply negb_false_iff.
    assert (L : t_lookup (y_id y) tab <> None).
    { intros L. apply lookup_none in L. apply L, in_map, Hy. }
    rewrite (Ha _ Hf) in L. unfold expected in L. rewrite <- (selected_find _ f _ _ Hf) in L.
    destruct (find _ (selected cfg f specs)) as [p|] eqn:F; [|contradiction].
    apply find_some in F as [Hp E]. apply existsb_exists. exists p. auto. }
  f_equal.
  - apply filter_all. intros y Hy. rewrite (Hst y Hy). reflexivity.
  - rewrite (filter_none _ _ Hst). reflexivity.
Qed.

(* loading twice: the second Load restarts nothing *)
Theorem load_twice_quiet cfg f specs vals tab :
  spec_ids_nodup specs -> ids_nodup tab -> table_ns cfg tab ->
  let tab' := fst (load cfg f specs vals tab) in
  load cfg f specs vals tab' = (tab', []).
Proof.
  intros Hs Ht Hn tab'. pose proof (load_targeted cfg f specs vals tab Hs Ht Hn) as [A [_ [B _]]].
  apply load_noop; auto.
Qed.

(* after a full Load the table is exactly what the stores prescribe *)
Theorem load_all_exact cfg specs vals tab :
  spec_ids_nodup specs -> ids_nodup tab -> table_ns cfg tab ->
  forall id, t_lookup id (fst (load cfg FAll specs vals tab)) = expected cfg specs vals id.
Proof.
  intros Hs Ht Hn id. apply (load_targeted cfg FAll specs vals tab Hs Ht Hn). reflexivity.
Qed.
