(* Comparators with values in [comparison]: the laws of a total preorder, rooted at one
   element so that they can be proved by structural induction on that element, and the
   combinators that preserve them (lexicographic lists, products, pull-backs, option). *)
From Coq Require Import List NArith ZArith Bool Lia.
Import ListNotations.

Definition thenc (c : comparison) (k : comparison) : comparison :=
  match c with Eq => k | _ => c end.

Definition is_eq (c : comparison) : bool := match c with Eq => true | _ => false end.

Record good {A} (c : A -> A -> comparison) (a : A) : Prop := {
  g_refl : c a a = Eq;
  g_anti : forall b, c a b = CompOpp (c b a);
  g_eql : forall b d, c a b = Eq -> c b d = c a d;
  g_eqr : forall b d, c b d = Eq -> c a b = c a d;
  g_lt : forall b d, c a b = Lt -> c b d = Lt -> c a d = Lt
}.

Lemma good_ext {A} (c c' : A -> A -> comparison) a :
  (forall x y, c x y = c' x y) -> good c a -> good c' a.
Proof.
  intros E [r an el er lt]. constructor; intros; rewrite <- ?E in *; eauto.
Qed.

(* derived facts for comparators good everywhere *)
Section Derived.
  Context {A} (c : A -> A -> comparison) (G : forall a, good c a).

  Lemma le_trans a b d : c a b <> Gt -> c b d <> Gt -> c a d <> Gt.
  Proof.
    intros H1 H2. destruct (c a b) eqn:E1; try congruence.
    - rewrite <- (g_eql _ _ (G a) b d E1). exact H2.
    - destruct (c b d) eqn:E2; try congruence.
      + rewrite <- (g_eqr _ _ (G a) b d E2). congruence.
      + rewrite (g_lt _ _ (G a) b d E1 E2). congruence.
  Qed.

  Lemma eq_sym a b : c a b = Eq -> c b a = Eq.
  Proof. intros H. rewrite (g_anti _ _ (G b) a), H. reflexivity. Qed.

  Lemma eq_trans a b d : c a b = Eq -> c b d = Eq -> c a d = Eq.
  Proof. intros H1 H2. rewrite <- (g_eql _ _ (G a) b d H1). exact H2. Qed.
End Derived.

(* ---- base comparators ---- *)
Lemma good_N a : good N.compare a.
Proof.
  constructor; intros.
  - apply N.compare_refl.
  - apply N.compare_antisym.
  - apply N.compare_eq in H. subst. reflexivity.
  - apply N.compare_eq in H. subst. reflexivity.
  - rewrite N.compare_lt_iff in *. lia.
Qed.

Lemma good_Z a : good Z.compare a.
Proof.
  constructor; intros.
  - apply Z.compare_refl.
  - apply Z.compare_antisym.
  - apply Z.compare_eq in H. subst. reflexivity.
  - apply Z.compare_eq in H. subst. reflexivity.
  - rewrite Z.compare_lt_iff in *. lia.
Qed.

Lemma good_nat a : good Nat.compare a.
Proof.
  constructor; intros.
  - apply Nat.compare_refl.
  - apply Nat.compare_antisym.
  - apply Nat.compare_eq in H. subst. reflexivity.
  - apply Nat.compare_eq in H. subst. reflexivity.
  - rewrite Nat.compare_lt_iff in *. lia.
Qed.

Definition bool_cmp (a b : bool) : comparison :=
  match a, b with
  | true, false => Gt
  | false, true => Lt
  | _, _ => Eq
  end.

Lemma good_bool a : good bool_cmp a.
Proof. constructor; intros; destruct a; try destruct b; try destruct d; simpl in *; congruence. Qed.

(* ---- pull-back ---- *)
Lemma good_pull {A B} (f : A -> B) (c : B -> B -> comparison) a :
  good c (f a) -> good (fun x y => c (f x) (f y)) a.
Proof.
  intros [r an el er lt]. constructor; intros; eauto.
Qed.

(* ---- lexicographic product ---- *)
Lemma good_then {A} (c1 c2 : A -> A -> comparison) a :
  good c1 a -> good c2 a -> good (fun x y => thenc (c1 x y) (c2 x y)) a.
Proof.
  intros [r1 an1 el1 er1 lt1] [r2 an2 el2 er2 lt2]. constructor.
  - rewrite r1. simpl. exact r2.
  - intros b. rewrite an1, an2. destruct (c1 b a); reflexivity.
  - intros b d H. destruct (c1 a b) eqn:E1; simpl in H; try discriminate.
    rewrite <- (el1 b d E1). destruct (c1 b d); simpl; auto.
  - intros b d H. destruct (c1 b d) eqn:E1; simpl in H; try discriminate.
    rewrite <- (er1 b d E1). destruct (c1 a b); simpl; auto.
  - intros b d H1 H2. destruct (c1 a b) eqn:E1; simpl in H1; try discriminate.
    + rewrite <- (el1 b d E1). destruct (c1 b d) eqn:E2; simpl in *; try discriminate; eauto.
    + destruct (c1 b d) eqn:E2; simpl in H2; try discriminate.
      * rewrite <- (er1 b d E2), E1. reflexivity.
      * rewrite (lt1 b d E1 E2). reflexivity.
Qed.

(* ---- option, None lowest ---- *)
Definition optc {A} (c : A -> A -> comparison) (o o' : option A) : comparison :=
  match o, o' with
  | None, None => Eq
  | None, Some _ => Lt
  | Some _, None => Gt
  | Some u, Some u' => c u u'
  end.

Definition goodo {A} (c : A -> A -> comparison) (o : option A) : Prop :=
  match o with None => True | Some a => good c a end.

Lemma good_opt {A} (c : A -> A -> comparison) o : goodo c o -> good (optc c) o.
Proof.
  destruct o as [a|]; simpl.
  - intros [r an el er lt]. constructor.
    + exact r.
    + intros [b|]; simpl; auto.
    + intros [b|] [d|]; simpl; intros; try discriminate; auto.
    + intros [b|] [d|]; simpl; intros; try discriminate; auto.
    + intros [b|] [d|]; simpl; intros; try discriminate; eauto.
  - intros _. constructor.
    + reflexivity.
    + intros [b|]; reflexivity.
    + intros [b|] [d|]; simpl; intros; try discriminate; auto.
    + intros [b|] [d|]; simpl; intros; try discriminate; auto.
    + intros [b|] [d|]; simpl; intros; try discriminate; auto.
Qed.

(* ---- lexicographic lists (shorter prefix first) ---- *)
Fixpoint lexl {A} (c : A -> A -> comparison) (x y : list A) : comparison :=
  match x, y with
  | [], [] => Eq
  | [], _ => Lt
  | _, [] => Gt
  | a :: x', b :: y' => thenc (c a b) (lexl c x' y')
  end.

Lemma good_lexl {A} (c : A -> A -> comparison) (x : list A) :
  Forall (good c) x -> good (lexl c) x.
Proof.
  induction 1 as [|a x Ha Hx IH].
  - constructor.
    + reflexivity.
    + intros [|b y]; reflexivity.
    + intros [|b y] d; simpl; intros; try discriminate. reflexivity.
    + intros [|b y] [|d z]; simpl; intros; try discriminate; reflexivity.
    + intros [|b y] [|d z]; simpl; intros; try discriminate; reflexivity.
  - destruct Ha as [r an el er lt]. destruct IH as [R AN EL ER LT]. constructor.
    + simpl. rewrite r. exact R.
    + intros [|b y]; simpl; auto. rewrite an, AN. destruct (c b a); reflexivity.
    + intros [|b y] d; simpl; intros H; try discriminate.
      destruct (c a b) eqn:E1; simpl in H; try discriminate.
      destruct d as [|d z]; simpl; auto.
      rewrite <- (el b d E1). destruct (c b d); simpl; auto.
    + intros [|b y] [|d z]; simpl; intros H; try discriminate; auto.
      destruct (c b d) eqn:E1; simpl in H; try discriminate.
      rewrite <- (er b d E1). destruct (c a b); simpl; auto.
    + intros [|b y] [|d z]; simpl; intros H1 H2; try discriminate.
      destruct (c a b) eqn:E1; simpl in H1; try discriminate.
      * rewrite <- (el b d E1). destruct (c b d) eqn:E2; simpl in *; try discriminate; eauto.
      * destruct (c b d) eqn:E2; simpl in H2; try discriminate.
        -- rewrite <- (er b d E2), E1. reflexivity.
        -- rewrite (lt b d E1 E2). reflexivity.
Qed.

Lemma lexl_eq_length {A} (c : A -> A -> comparison) x : forall y, lexl c x y = Eq -> length x = length y.
Proof.
  induction x as [|a x IH]; intros [|b y]; simpl; intros H; try discriminate; auto.
  destruct (c a b); simpl in H; try discriminate. f_equal. auto.
Qed.

Lemma lexl_N_eq x : forall y, lexl N.compare x y = Eq -> x = y.
Proof.
  induction x as [|a x IH]; intros [|b y]; simpl; intros H; try discriminate; auto.
  destruct (N.compare a b) eqn:E; simpl in H; try discriminate.
  apply N.compare_eq in E. subst. f_equal. auto.
Qed.

(* all2: pointwise boolean test on lists of equal length *)
Fixpoint all2 {A} (f : A -> A -> bool) (l l' : list A) : bool :=
  match l, l' with
  | [], [] => true
  | a :: t, b :: t' => f a b && all2 f t t'
  | _, _ => false
  end.

Lemma all2_lexl {A} (f : A -> A -> bool) (c : A -> A -> comparison) x :
  Forall (fun a => forall b, f a b = is_eq (c a b)) x ->
  forall y, all2 f x y = is_eq (lexl c x y).
Proof.
  induction 1 as [|a x Ha Hx IH]; intros [|b y]; simpl; auto.
  rewrite Ha, IH. destruct (c a b); reflexivity.
Qed.
