(* FNV-1a, 64 bit, as computed by Go's hash/fnv New64a. *)
From Coq Require Import List NArith ZArith.
Import ListNotations.
Local Open Scope N_scope.

Definition two64 : N := 18446744073709551616.
Definition fnv_offset : N := 14695981039346656037.
Definition fnv_prime : N := 1099511628211.

Definition mask64 : N := 18446744073709551615.
(* multiplication modulo 2^64, computed by masking (fast under vm_compute) *)
Definition fnv_step (h b : N) : N := N.land (N.lxor h b * fnv_prime) mask64.

Lemma fnv_step_mod h b : fnv_step h b = (N.lxor h b * fnv_prime) mod two64.
Proof.
  unfold fnv_step. change mask64 with (N.ones 64). rewrite N.land_ones. reflexivity.
Qed.
Definition fnv (bs : list N) : N := fold_left fnv_step bs fnv_offset.

(* little-endian bytes of n, k bytes *)
Fixpoint le_bytes (k : nat) (n : N) : list N :=
  match k with
  | O => []
  | S k' => (n mod 256) :: le_bytes k' (n / 256)
  end.

(* big-endian 8 bytes (binary.BigEndian.PutUint64) *)
Definition be8 (n : N) : list N := rev (le_bytes 8 n).

(* two's complement of z in k bytes, as an N *)
Definition twos (k : nat) (z : Z) : N :=
  Z.to_N (z mod (2 ^ (8 * Z.of_nat k))).

Example fnv_int8_1 : fnv [1] = 12638152016183539244.
Proof. vm_compute. reflexivity. Qed.
