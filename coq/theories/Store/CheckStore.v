(* Correspondence checker for the store properties (C10-C13): run the store model on a
   harness-written history and compare every result with what the implementation returned. *)
From Coq Require Import List NArith ZArith Bool.
From Uf Require Import Base.Fnv Base.Order Value.Value Value.Check Value.VMap Store.Filter Store.StoreM.
Import ListNotations.

Definition bucket_eqb (a b : N * list (option value * option value)) : bool :=
  N.eqb (fst a) (fst b) && list_eqb pair_eqb (snd a) (snd b).
Definition tab_eqb (a b : list (N * list (option value * option value))) : bool := list_eqb bucket_eqb a b.

Definition event_eqb (a b : list N * option value) : bool :=
  list_N_eqb (fst a) (fst b) && oveqb (snd a) (snd b).

Definition sres_eqb (a b : sres) : bool :=
  match a, b with
  | ROk, ROk => true
  | RCount n, RCount m => Nat.eqb n m
  | RDocs l, RDocs l' => list_eqb tab_eqb l l'
  | RErr e, RErr e' => err_eqb e e'
  | REvents l, REvents l' => list_eqb event_eqb l l'
  | RCrash, RCrash => true
  | _, _ => false
  end.

Record c10case := mk10 { c10steps : list (sop * sres) }.

(* Closing a watcher: the harness closes the stream and reads it to its end.  Go's select may still
   hand over events that were pending when Close landed (the pump chooses at random between a ready
   consumer and the done channel), so what is read after Close must be a prefix of what was pending;
   the model's own result (ROk, everything pending discarded) is the empty prefix. *)
Fixpoint is_prefix {A} (f : A -> A -> bool) (l l' : list A) : bool :=
  match l, l' with
  | [], _ => true
  | a :: t, b :: t' => f a b && is_prefix f t t'
  | _ :: _, [] => false
  end.

Definition step_ok (st : sstate) (op : sop) (r ob : sres) : bool :=
  match op, ob with
  | SCloseWatch i, REvents l' =>
      match nth_error (streams st) i with
      | Some w => is_prefix event_eqb l' (wevents w)
      | None => match l' with [] => true | _ => false end
      end
  | _, _ => sres_eqb r ob
  end.

Fixpoint c10run (st : sstate) (steps : list (sop * sres)) : bool :=
  match steps with
  | [] => true
  | (op, ob) :: rest =>
      let '(st', r) := s_step st op in
      step_ok st op r ob && c10run st' rest
  end.

Definition c10ok (c : c10case) : bool := c10run st_init (c10steps c).

(* index of the first step whose result differs (for diagnosis) *)
Fixpoint c10first (st : sstate) (steps : list (sop * sres)) (i : nat) : option (nat * sres) :=
  match steps with
  | [] => None
  | (op, ob) :: rest =>
      let '(st', r) := s_step st op in
      if step_ok st op r ob then c10first st' rest (S i) else Some (i, r)
  end.
