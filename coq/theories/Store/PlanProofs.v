(* Plan soundness: the bounds computed for an index key contain the key value of every
   document the filter matches (executionplan.go, repaired tree). *)
From Coq Require Import List NArith ZArith Bool Lia.
From Uf Require Import Base.Fnv Base.Order Value.Value Value.Laws Value.VMap Value.VMapProofs
  Store.Filter Store.FilterProofs Store.StoreM.
Import ListNotations.

Definition obounds (k : list N) (sub : option value) : bound :=
  match sub with None => (None, None) | Some u => bounds k u end.

Definition and_step (k : list N) (a : bound) (sub : option value) : bound :=
  match obounds k sub with
  | (None, None) => a
  | ob => b_intersect a ob
  end.

Definition b_entry (k : list N) (acc : bound) (kv : option value * option value) : bound :=
  match fst kv, snd kv with
  | Some (VString s), Some (VSlice subs) =>
      if list_N_eqb s op_and then fold_left (and_step k) subs acc
      else if list_N_eqb s op_or then
        match subs with
        | [] => acc
        | s0 :: ss0 => b_intersect acc (fold_left (fun u sub => b_union u (obounds k sub)) ss0 (obounds k s0))
        end
      else acc
  | _, _ => acc
  end.

Lemma and_fold_eq k l : forall acc,
  (fix goa (ss : list (option value)) (acc : bound) : bound :=
     match ss with
     | [] => acc
     | sub :: ss' =>
         goa ss' (match (match sub with None => (None, None) | Some u => bounds k u end) with
                  | (None, None) => acc
                  | ob => b_intersect acc ob
                  end)
     end) l acc = fold_left (and_step k) l acc.
Proof.
  induction l as [|sub l IHl]; intros acc; cbn [fold_left]; [reflexivity|].
  rewrite IHl. unfold and_step, obounds. reflexivity.
Qed.

Lemma or_fold_eq k l : forall u,
  (fix goo (ss : list (option value)) (u : bound) : bound :=
     match ss with
     | [] => u
     | sub :: ss' => goo ss' (b_union u (match sub with None => (None, None) | Some u => bounds k u end))
     end) l u = fold_left (fun u sub => b_union u (obounds k sub)) l u.
Proof.
  induction l as [|sub l IHl]; intros u; cbn [fold_left]; [reflexivity|].
  rewrite IHl. reflexivity.
Qed.

Lemma bounds_map k t : bounds k (VMap t) = fold_left (b_entry k) (t_range t) (own_bounds (field t k)).
Proof.
  unfold t_range. cbn [bounds]. generalize (own_bounds (field t k)) as acc.
  induction t as [|[h e] tt IH]; intros acc; [reflexivity|].
  cbn [flat_map snd]. rewrite fold_left_app.
  revert acc. induction e as [|[kk v] e IHe]; intros acc; cbn [fold_left].
  - apply IH.
  - destruct kk as [[]|]; try (rewrite IHe; reflexivity).
    destruct v as [[]|]; try (rewrite IHe; reflexivity).
    destruct (list_N_eqb s op_and) eqn:Ea.
    + rewrite IHe. do 2 f_equal. unfold b_entry. cbn [fst snd]. rewrite Ea. apply and_fold_eq.
    + destruct (list_N_eqb s op_or) eqn:Eo.
      * destruct l as [|s0 ss0].
        -- rewrite IHe. do 2 f_equal. unfold b_entry. cbn [fst snd]. rewrite Ea, Eo. reflexivity.
        -- rewrite IHe. do 2 f_equal. unfold b_entry. cbn [fst snd]. rewrite Ea, Eo. f_equal; apply or_fold_eq.
      * rewrite IHe. do 2 f_equal. unfold b_entry. cbn [fst snd]. rewrite Ea, Eo. reflexivity.
Qed.

(* ---- membership in bounds ---- *)
Definition inb (b : bound) (x : option value) : Prop := in_bound b x = true.

Lemma inb_intro b x :
  (forall l, fst b = Some l -> ocmp x (Some l) <> Lt) ->
  (forall u, snd b = Some u -> ocmp x (Some u) <> Gt) -> inb b x.
Proof.
  unfold inb, in_bound. intros H1 H2. destruct b as [[l|] [u|]]; cbn [fst snd] in *;
    repeat match goal with
    | |- context [ocmp x (Some ?v)] =>
        let E := fresh "E" in destruct (ocmp x (Some v)) eqn:E
    end; try reflexivity;
    try (exfalso; eapply H1; eauto; fail); try (exfalso; eapply H2; eauto; fail).
Qed.

Lemma inb_lo b x l : inb b x -> fst b = Some l -> ocmp x (Some l) <> Lt.
Proof.
  unfold inb, in_bound. intros H E. rewrite E in H. intros C. rewrite C in H. discriminate.
Qed.

Lemma inb_hi b x u : inb b x -> snd b = Some u -> ocmp x (Some u) <> Gt.
Proof.
  unfold inb, in_bound. intros H E. rewrite E in H. intros C. rewrite C in H.
  rewrite andb_false_r in H. discriminate.
Qed.

Lemma inb_none x : inb (None, None) x.
Proof. reflexivity. Qed.

Lemma inb_intersect e o x : inb e x -> inb o x -> inb (b_intersect e o) x.
Proof.
  intros He Ho. apply inb_intro; unfold b_intersect; cbn [fst snd].
  - intros l. destruct (fst e) as [le|] eqn:Ee.
    + destruct (ocmp (fst o) (Some le)); intros E.
      * injection E as <-. exact (inb_lo e x le He Ee).
      * injection E as <-. exact (inb_lo e x le He Ee).
      * exact (inb_lo o x l Ho E).
    + intros E. exact (inb_lo o x l Ho E).
  - intros u. destruct (snd e) as [ue|] eqn:Ee.
    + destruct (ocmp (snd o) (Some ue)); intros E.
      * injection E as <-. exact (inb_hi e x ue He Ee).
      * exact (inb_hi o x u Ho E).
      * injection E as <-. exact (inb_hi e x ue He Ee).
    + intros E. exact (inb_hi o x u Ho E).
Qed.

Lemma not_lt_trans x a b : ocmp x a <> Lt -> ocmp a b <> Lt -> ocmp x b <> Lt.
Proof.
  intros H1 H2 C. pose proof (law_cmp_trans b a x) as T.
  rewrite (law_cmp_antisym b a), (law_cmp_antisym a x), (law_cmp_antisym b x) in T.
  destruct (ocmp a b), (ocmp x a), (ocmp x b); simpl in T; try congruence; apply T; congruence.
Qed.

Lemma not_gt_trans x a b : ocmp x a <> Gt -> ocmp a b <> Gt -> ocmp x b <> Gt.
Proof. apply law_cmp_trans. Qed.

Lemma inb_union e o x : inb e x \/ inb o x -> inb (b_union e o) x.
Proof.
  intros H. apply inb_intro; unfold b_union; cbn [fst snd].
  - intros l. destruct (fst e) as [le|] eqn:Ee; [|discriminate].
    destruct (fst o) as [lo|] eqn:Eo; [|discriminate].
    destruct (ocmp (Some lo) (Some le)) eqn:C; intros E; injection E as <-.
    + destruct H as [H|H]; [exact (inb_lo e x le H Ee)|].
      eapply not_lt_trans; [exact (inb_lo o x lo H Eo)|]. congruence.
    + destruct H as [H|H]; [|exact (inb_lo o x lo H Eo)].
      eapply not_lt_trans; [exact (inb_lo e x le H Ee)|].
      rewrite law_cmp_antisym, C. discriminate.
    + destruct H as [H|H]; [exact (inb_lo e x le H Ee)|].
      eapply not_lt_trans; [exact (inb_lo o x lo H Eo)|]. congruence.
  - intros u. destruct (snd e) as [ue|] eqn:Ee; [|discriminate].
    destruct (snd o) as [uo|] eqn:Eo; [|discriminate].
    destruct (ocmp (Some uo) (Some ue)) eqn:C; intros E; injection E as <-.
    + destruct H as [H|H]; [exact (inb_hi e x ue H Ee)|].
      eapply not_gt_trans; [exact (inb_hi o x uo H Eo)|]. congruence.
    + destruct H as [H|H]; [exact (inb_hi e x ue H Ee)|].
      eapply not_gt_trans; [exact (inb_hi o x uo H Eo)|]. congruence.
    + destruct H as [H|H]; [|exact (inb_hi o x uo H Eo)].
      eapply not_gt_trans; [exact (inb_hi e x ue H Ee)|].
      rewrite law_cmp_antisym, C. discriminate.
Qed.

(* ---- lookups in a filter map land on one of its pairs ---- *)
Lemma bsearch_in fuel k b : forall lo hi p, b_bsearch fuel k b lo hi = Some p -> In p b /\ ocmp (fst p) k = Eq.
Proof.
  induction fuel as [|fuel IH]; intros lo hi p; cbn [b_bsearch]; [discriminate|].
  destruct (hi <? lo)%Z; [discriminate|].
  destruct (nth_error b _) as [q|] eqn:N; [|discriminate].
  destruct (ocmp (fst q) k) eqn:C; eauto.
  intros E. injection E as <-. split; auto. eapply nth_error_In, N.
Qed.

Lemma t_find_in_range h t b p : t_find h t = Some b -> In p b -> In p (t_range t).
Proof.
  unfold t_range. induction t as [|[h' b'] t IH]; cbn [t_find flat_map snd]; [discriminate|].
  destruct (N.eqb h h').
  - intros E. injection E as <-. intros Hp. apply in_or_app. auto.
  - intros E Hp. apply in_or_app. right. eauto.
Qed.

Lemma t_get_some key t v : t_get key t = Some v ->
  exists k', In (k', Some v) (t_range t) /\ ocmp k' key = Eq.
Proof.
  unfold t_get, t_lookup. destruct (t_find (ohash key) t) as [b|] eqn:F; [|discriminate].
  unfold b_search. destruct (b_bsearch _ key b _ _) as [[k' v']|] eqn:S; [|discriminate].
  cbn [snd]. intros ->. destruct (bsearch_in _ _ _ _ _ _ S) as [Hin Hc]. cbn [fst] in Hc.
  exists k'. split; auto. eapply t_find_in_range; eauto.
Qed.

Lemma list_N_eqb_eq a : forall b, list_N_eqb a b = true -> a = b.
Proof.
  induction a as [|x a IH]; intros [|y b]; cbn; intros H; try discriminate; auto.
  apply andb_prop in H. destruct H as [H1 H2]. apply N.eqb_eq in H1. subst. f_equal. auto.
Qed.

Lemma list_N_eqb_refl a : list_N_eqb a a = true.
Proof. induction a as [|x a IH]; cbn; auto. rewrite N.eqb_refl. exact IH. Qed.

Lemma ocmp_string_eq k' s : ocmp k' (Some (VString s)) = Eq -> k' = Some (VString s).
Proof.
  destruct k' as [u|]; cbn [ocmp]; [|discriminate]. intros C.
  pose proof (cmp_kind_eq _ _ C) as K. apply kind_eq_shape in K.
  destruct u; cbn in K; destruct K as [y Hy]; try discriminate.
  cbn in C. unfold lexN in C. apply lexl_N_eq in C. subst. reflexivity.
Qed.

Lemma field_in t s v : field t s = Some v -> In (Some (VString s), Some v) (t_range t).
Proof.
  unfold field. intros H. destruct (t_get_some _ _ _ H) as [k' [Hin Hc]].
  apply ocmp_string_eq in Hc. subst. exact Hin.
Qed.

(* ---- own bounds ---- *)
Lemma b_lower_sound b l x : inb b x -> (forall w, l = Some w -> ocmp x (Some w) <> Lt) -> inb (b_lower b l) x.
Proof.
  intros Hb Hl. unfold b_lower. destruct l as [w|]; auto.
  specialize (Hl w eq_refl).
  assert (N : inb (Some w, snd b) x).
  { apply inb_intro; cbn [fst snd].
    - intros l0 E. injection E as <-. exact Hl.
    - intros u E. exact (inb_hi b x u Hb E). }
  destruct (fst b); auto. destruct (ocmp (Some w) (Some v)); auto.
Qed.

Lemma b_upper_sound b u x : inb b x -> (forall w, u = Some w -> ocmp x (Some w) <> Gt) -> inb (b_upper b u) x.
Proof.
  intros Hb Hu. unfold b_upper. destruct u as [w|]; auto.
  specialize (Hu w eq_refl).
  assert (N : inb (fst b, Some w) x).
  { apply inb_intro; cbn [fst snd].
    - intros l E. exact (inb_lo b x l Hb E).
    - intros u0 E. injection E as <-. exact Hu. }
  destruct (snd b); auto. destruct (ocmp (Some w) (Some v)); auto.
Qed.

Lemma oequal_cmp x y : oequal x y = true -> ocmp x y = Eq.
Proof. apply law_eq_cmp. Qed.

Lemma own_sound v' x : omatch v' x = Ok true -> inb (own_bounds v') x.
Proof.
  destruct v' as [v|]; cbn [omatch own_bounds]; [|intros _; apply inb_none].
  destruct v; try (cbn [mmatch own_bounds]; intros H; injection H as H; apply oequal_cmp in H;
                   apply inb_intro; cbn [fst snd]; intros ww EE; injection EE as <-; rewrite H; discriminate).
  rename bk into vt. rewrite mmatch_map. intros M. cbn [own_bounds].
  pose proof (m_pairs_true _ _ M) as T.
  assert (G : forall op w, t_get (Some (VString op)) vt = Some w ->
                m_entry (Some (VString op)) (Some w) x = Ok true).
  { intros op w Hg. apply T. apply field_in. exact Hg. }
  apply b_upper_sound; [apply b_upper_sound; [apply b_lower_sound; [apply b_lower_sound|]|]|].
  - destruct (t_get (Some (VString op_eq)) vt) as [w|] eqn:E; [|apply inb_none].
    pose proof (G _ _ E) as H. cbn in H. injection H as H. apply oequal_cmp in H.
    apply inb_intro; cbn [fst snd]; intros w' E'; injection E' as <-; rewrite H; discriminate.
  - intros w E. pose proof (G _ _ E) as H. cbn in H. destruct (ocmp x (Some w)); try discriminate.
  - intros w E. pose proof (G _ _ E) as H. cbn in H. destruct (ocmp x (Some w)); try discriminate.
  - intros w E. pose proof (G _ _ E) as H. cbn in H. destruct (ocmp x (Some w)); try discriminate.
  - intros w E. pose proof (G _ _ E) as H. cbn in H. destruct (ocmp x (Some w)); try discriminate.
Qed.

(* ---- the main theorem ---- *)
Definition PB (f : value) : Prop :=
  forall d k, is_op k = false -> mmatch f d = Ok true -> inb (bounds k f) (field' d k).
Definition OPB (o : option value) : Prop := match o with None => True | Some u => PB u end.
Definition QB (f : value) : Prop :=
  PB f /\ match f with VSlice l => Forall OPB l | _ => True end.

Lemma obounds_sound sub d k : OPB sub -> is_op k = false -> omatch sub d = Ok true -> inb (obounds k sub) (field' d k).
Proof.
  destruct sub as [u|]; cbn [OPB omatch obounds]; intros H Hk M; [apply H; auto|apply inb_none].
Qed.

Lemma and_fold_sound k subs d : is_op k = false -> Forall OPB subs ->
  (forall s, In s subs -> omatch s d = Ok true) ->
  forall acc, inb acc (field' d k) -> inb (fold_left (and_step k) subs acc) (field' d k).
Proof.
  intros Hk HF. induction HF as [|s subs Hs HF IH]; intros HM acc Ha; cbn [fold_left]; auto.
  apply IH.
  - intros s' Hin. apply HM. right. exact Hin.
  - unfold and_step. pose proof (obounds_sound s d k Hs Hk (HM s (or_introl eq_refl))) as Hb.
    destruct (obounds k s) as [[l|] [u|]]; auto using inb_intersect.
Qed.

Lemma or_fold_sound k subs d : is_op k = false -> Forall OPB subs ->
  forall u, (inb u (field' d k) \/ exists s, In s subs /\ omatch s d = Ok true) ->
  inb (fold_left (fun u sub => b_union u (obounds k sub)) subs u) (field' d k).
Proof.
  intros Hk HF. induction HF as [|s subs Hs HF IH]; intros u H; cbn [fold_left].
  - destruct H as [H|[s [[] _]]]. exact H.
  - apply IH. destruct H as [H|[s' [[<-|Hin] Hm]]].
    + left. apply inb_union. left. exact H.
    + left. apply inb_union. right. apply obounds_sound; auto.
    + right. exists s'. auto.
Qed.

Lemma op_and_is_op : is_op op_and = true. Proof. reflexivity. Qed.
Lemma op_or_is_op : is_op op_or = true. Proof. reflexivity. Qed.

Lemma m_entry_and d subs : m_entry (Some (VString op_and)) (Some (VSlice subs)) d = m_and subs d.
Proof. reflexivity. Qed.
Lemma m_entry_or d subs : m_entry (Some (VString op_or)) (Some (VSlice subs)) d = m_or subs d.
Proof. reflexivity. Qed.

Lemma b_entry_sound k d acc kv :
  is_op k = false ->
  match snd kv with Some v => QB v | None => True end ->
  m_entry (fst kv) (snd kv) d = Ok true ->
  inb acc (field' d k) -> inb (b_entry k acc kv) (field' d k).
Proof.
  intros Hk HQ M Ha. destruct kv as [kk v]. unfold b_entry. cbn [fst snd] in *.
  destruct kk as [[]|]; auto. destruct v as [[]|]; auto.
  destruct HQ as [_ HF].
  destruct (list_N_eqb s op_and) eqn:Ea.
  - apply list_N_eqb_eq in Ea. subst s. rewrite m_entry_and in M.
    apply and_fold_sound; auto. apply m_and_true. exact M.
  - destruct (list_N_eqb s op_or) eqn:Eo; auto.
    apply list_N_eqb_eq in Eo. subst s. rewrite m_entry_or in M.
    destruct l as [|s0 ss0]; auto.
    apply inb_intersect; auto. inversion HF as [|? ? H0 HF']; subst.
    apply or_fold_sound; auto.
    destruct (m_or_true _ _ M) as [s [[<-|Hin] Hm]].
    + left. apply obounds_sound; auto.
    + right. exists s. auto.
Qed.

Lemma b_fold_sound k d ps : is_op k = false ->
  Forall (fun kv : option value * option value => match snd kv with Some v => QB v | None => True end) ps ->
  (forall kk v, In (kk, v) ps -> m_entry kk v d = Ok true) ->
  forall acc, inb acc (field' d k) -> inb (fold_left (b_entry k) ps acc) (field' d k).
Proof.
  intros Hk HF. induction HF as [|kv ps Hkv HF IH]; intros HM acc Ha; cbn [fold_left]; auto.
  apply IH.
  - intros kk v Hin. apply HM. right. exact Hin.
  - apply b_entry_sound; auto. destruct kv as [kk v]. apply HM. left. reflexivity.
Qed.

Theorem bounds_sound_Q : forall f, QB f.
Proof.
  apply value_ind2; try (intros; split; [intros d k Hk M; apply inb_none|exact I]).
  - (* slice *)
    intros l Hl. split; [intros d k Hk M; apply inb_none|].
    eapply Forall_impl; [|exact Hl]. intros [u|]; cbn; auto. intros [H _]. exact H.
  - (* map *)
    intros t Ht. split; [|exact I]. intros d k Hk M.
    rewrite bounds_map. rewrite mmatch_map in M. pose proof (m_pairs_true _ _ M) as T.
    apply b_fold_sound; auto.
    + unfold t_range. apply Forall_forall. intros kv Hin. apply in_flat_map in Hin.
      destruct Hin as [[h e] [Hb Hp]]. rewrite Forall_forall in Ht. specialize (Ht _ Hb).
      unfold Pbucket in Ht. cbn [snd] in *. rewrite Forall_forall in Ht.
      destruct (Ht _ Hp) as [_ Hv]. destruct (snd kv); auto.
    + (* own bounds *)
      destruct (field t k) as [v|] eqn:F; [|apply inb_none].
      apply own_sound. pose proof (T _ _ (field_in _ _ _ F)) as E.
      unfold m_entry in E. rewrite Hk in E. cbn [negb] in E. exact E.
Qed.

Theorem bounds_sound f d k : is_op k = false -> mmatch f d = Ok true -> inb (bounds k f) (field' d k).
Proof. intros Hk M. apply (proj1 (bounds_sound_Q f)); auto. Qed.
