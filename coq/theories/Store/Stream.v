(* The pump goroutine of a watcher stream (pkg/store/stream.go newStream) as a queue machine.
   The writer hands an event over the unbuffered channel c.in (PIn); the pump either passes it
   straight to a consumer that is ready (POutDirect) or buffers it; buffered events leave in
   order (POut); closing ends everything (PClose).  At critical-section granularity this is a
   FIFO queue: the theorem says nothing is lost, duplicated or reordered before Close, and
   nothing is delivered after it. *)
From Coq Require Import List Lia.
Import ListNotations.

Section Pump.
  Variable E : Type.

  Record pump := mkpump { p_buf : list E; p_out : list E; p_in : list E; p_done : bool }.
  (* p_in: everything the writers handed over; p_out: everything consumers received *)

  Inductive pstep :=
  | PIn (e : E)        (* Emit: s.in <- doc, accepted by the pump (refused once done) *)
  | POut               (* a consumer receives the head of the buffer *)
  | PClose.

  Definition p_step (p : pump) (s : pstep) : pump :=
    if p_done p then p else
    match s with
    | PIn e => mkpump (p_buf p ++ [e]) (p_out p) (p_in p ++ [e]) false
    | POut => match p_buf p with
              | [] => p
              | e :: b => mkpump b (p_out p ++ [e]) (p_in p) false
              end
    | PClose => mkpump [] (p_out p) (p_in p) true
    end.

  Definition p_init : pump := mkpump [] [] [] false.
  Definition p_run (ss : list pstep) : pump := fold_left p_step ss p_init.

  (* delivered ++ buffered = accepted, as long as the stream is open *)
  Definition p_inv (p : pump) : Prop :=
    (p_done p = false -> p_out p ++ p_buf p = p_in p) /\
    (exists rest, p_in p = p_out p ++ rest).

  Lemma p_step_inv p s : p_inv p -> p_inv (p_step p s).
  Proof.
    intros [H1 [rest H2]]. unfold p_step. destruct (p_done p) eqn:D; [split; eauto; congruence|].
    specialize (H1 eq_refl). destruct s; cbn.
    - split.
      + intros _. rewrite <- H1. rewrite <- app_assoc. reflexivity.
      + exists (rest ++ [e]). rewrite H2. rewrite <- app_assoc. reflexivity.
    - destruct (p_buf p) as [|e b] eqn:B; unfold p_inv; cbn [p_buf p_out p_in p_done].
      + split; eauto. intros _. rewrite B. exact H1.
      + split.
        * intros _. rewrite <- H1. rewrite <- app_assoc. reflexivity.
        * exists b. rewrite <- H1. rewrite <- app_assoc. reflexivity.
    - split; [discriminate|eauto].
  Qed.

  Theorem pump_fifo ss : p_inv (p_run ss).
  Proof.
    unfold p_run. assert (G : forall p, p_inv p -> p_inv (fold_left p_step ss p)).
    { induction ss as [|s ss IH]; intros p H; cbn; auto. apply IH, p_step_inv, H. }
    apply G. split; [reflexivity|exists []; reflexivity].
  Qed.

  (* nothing is delivered after the stream was closed *)
  Theorem pump_closed_silent p s : p_done p = true -> p_step p s = p.
  Proof. intros D. unfold p_step. rewrite D. reflexivity. Qed.
End Pump.
