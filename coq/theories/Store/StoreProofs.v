(* Invariants of the store model and the theorems behind C10-C13:
   index completeness/soundness, find is independent of the indexes, rejected mutations
   change nothing, ids and unique keys stay unique, watcher event logs. *)
From Coq Require Import List NArith ZArith Bool Lia Sorting.Sorted.
From Uf Require Import Base.Fnv Base.Order Value.Value Value.Laws Value.VMap Value.VMapProofs
  Store.Filter Store.FilterProofs Store.StoreM Store.PlanProofs.
Import ListNotations.

(* ---- id / path equivalence ---- *)
Lemma id_eqb_refl a : id_eqb a a = true.
Proof. unfold id_eqb. rewrite oc_refl. reflexivity. Qed.
Lemma id_eqb_sym a b : id_eqb a b = id_eqb b a.
Proof. unfold id_eqb. rewrite (oc_anti a b). destruct (ocmp b a); reflexivity. Qed.
Lemma id_eqb_eq a b : id_eqb a b = true -> ocmp a b = Eq.
Proof. unfold id_eqb. destruct (ocmp a b); simpl; congruence. Qed.
Lemma id_eqb_trans a b c : id_eqb a b = true -> id_eqb b c = true -> id_eqb a c = true.
Proof.
  intros H1 H2. apply id_eqb_eq in H1. apply id_eqb_eq in H2. unfold id_eqb.
  rewrite <- (oc_eql a b c H1), H2. reflexivity.
Qed.
Lemma id_eqb_congr a b c : id_eqb a b = true -> id_eqb a c = id_eqb b c.
Proof. intros H. apply id_eqb_eq in H. unfold id_eqb. rewrite (oc_eql a b c H). reflexivity. Qed.

Lemma path_eqb_refl p : path_eqb p p = true.
Proof. induction p; simpl; auto. rewrite oc_refl. exact IHp. Qed.
Lemma path_eqb_sym p : forall q, path_eqb p q = path_eqb q p.
Proof.
  induction p as [|a p IH]; intros [|b q]; simpl; auto.
  rewrite IH. fold (id_eqb a b). fold (id_eqb b a). rewrite id_eqb_sym. reflexivity.
Qed.
Lemma path_eqb_trans p : forall q r, path_eqb p q = true -> path_eqb q r = true -> path_eqb p r = true.
Proof.
  induction p as [|a p IH]; intros [|b q] [|c r]; simpl; auto; try discriminate.
  intros H1 H2. apply andb_prop in H1. apply andb_prop in H2. destruct H1 as [A1 B1]. destruct H2 as [A2 B2].
  fold (id_eqb a b) in A1. fold (id_eqb b c) in A2. fold (id_eqb a c).
  rewrite (id_eqb_trans a b c A1 A2). simpl. eauto.
Qed.
Lemma path_eqb_congr p q r : path_eqb p q = true -> path_eqb p r = path_eqb q r.
Proof.
  intros H. destruct (path_eqb q r) eqn:E.
  - eapply path_eqb_trans; eauto.
  - destruct (path_eqb p r) eqn:E2; auto. rewrite path_eqb_sym in H.
    rewrite (path_eqb_trans q p r H E2) in E. discriminate.
Qed.

Definition teq (t t' : list (option value) * option value) : bool :=
  path_eqb (fst t) (fst t') && id_eqb (snd t) (snd t').
Definition tuple_of (ix : index) (d : list (N * list (option value * option value))) := (path_of (ikeys ix) d, doc_id d).

(* ---- the primary tree ---- *)
Definition idlt (d d' : list (N * list (option value * option value))) : Prop := ocmp (doc_id d) (doc_id d') = Lt.
Definition esorted (es : list (list (N * list (option value * option value)))) : Prop := StronglySorted idlt es.

Lemma e_find_some id es d : e_find id es = Some d -> In d es /\ id_eqb (doc_id d) id = true.
Proof.
  induction es as [|d0 es IH]; simpl; [discriminate|].
  destruct (id_eqb (doc_id d0) id) eqn:E.
  - intros H. injection H as <-. auto.
  - intros H. destruct (IH H). auto.
Qed.

Lemma e_find_none id es : e_find id es = None -> forall d, In d es -> id_eqb (doc_id d) id = false.
Proof.
  induction es as [|d0 es IH]; simpl; [intros _ d []|].
  destruct (id_eqb (doc_id d0) id) eqn:E; [discriminate|].
  intros H d [<-|Hin]; auto.
Qed.

Lemma e_find_complete id es d : esorted es -> In d es -> id_eqb (doc_id d) id = true -> e_find id es = Some d.
Proof.
  unfold esorted. induction 1 as [|d0 es Hs IH Hf]; simpl; [intros []|].
  intros [<-|Hin] E.
  - rewrite E. reflexivity.
  - destruct (id_eqb (doc_id d0) id) eqn:E0; auto.
    exfalso. rewrite Forall_forall in Hf. pose proof (Hf d Hin) as L. unfold idlt in L.
    rewrite id_eqb_sym in E. pose proof (id_eqb_eq _ _ (id_eqb_trans _ _ _ E0 E)) as C.
    rewrite L in C. discriminate.
Qed.

Lemma e_insert_in d es x : In x (e_insert d es) -> x = d \/ In x es.
Proof.
  induction es as [|d0 es IH]; simpl.
  - intros [<-|[]]. auto.
  - destruct (ocmp (doc_id d0) (doc_id d)).
    + intros [<-|H]; auto.
    + intros [<-|H]; auto. destruct (IH H); auto.
    + intros [<-|[<-|H]]; auto.
Qed.

Lemma e_insert_keeps d es x : In x es -> id_eqb (doc_id x) (doc_id d) = false -> In x (e_insert d es).
Proof.
  induction es as [|d0 es IH]; simpl; [intros []|].
  intros [<-|Hin] E.
  - unfold id_eqb in E. destruct (ocmp (doc_id d0) (doc_id d)); simpl in *; auto; discriminate.
  - destruct (ocmp (doc_id d0) (doc_id d)); simpl; auto.
Qed.

Lemma e_insert_has d es : In d (e_insert d es).
Proof.
  induction es as [|d0 es IH]; simpl; auto.
  destruct (ocmp (doc_id d0) (doc_id d)); simpl; auto.
Qed.

Lemma e_insert_sorted d es : esorted es -> esorted (e_insert d es).
Proof.
  unfold esorted. induction 1 as [|d0 es Hs IH Hf]; simpl.
  - repeat constructor.
  - destruct (ocmp (doc_id d0) (doc_id d)) eqn:E.
    + constructor; auto. eapply Forall_impl; [|exact Hf]. intros x Hx. unfold idlt in *.
      rewrite (oc_eql _ _ (doc_id x) E). exact Hx.
    + constructor; auto. apply Forall_forall. intros x Hx.
      destruct (e_insert_in _ _ _ Hx) as [->|Hin]; [exact E|].
      rewrite Forall_forall in Hf. auto.
    + constructor; [constructor; auto|]. constructor.
      * unfold idlt. apply oc_gt_lt, E.
      * eapply Forall_impl; [|exact Hf]. intros x Hx. unfold idlt in *.
        eapply oc_lt; [apply oc_gt_lt, E|exact Hx].
Qed.

Lemma e_remove_in id es x : In x (e_remove id es) <-> In x es /\ id_eqb (doc_id x) id = false.
Proof.
  unfold e_remove. rewrite filter_In. split; intros [A B]; split; auto.
  - destruct (id_eqb (doc_id x) id); simpl in *; congruence.
  - rewrite B. reflexivity.
Qed.

Lemma e_remove_sorted id es : esorted es -> esorted (e_remove id es).
Proof.
  unfold esorted, e_remove. induction 1 as [|d0 es Hs IH Hf]; simpl; [constructor|].
  destruct (negb (id_eqb (doc_id d0) id)); auto.
  constructor; auto. apply Forall_forall. intros x Hx. apply filter_In in Hx.
  rewrite Forall_forall in Hf. apply Hf. tauto.
Qed.

Lemma e_insert_in_strong d es x : esorted es -> In x (e_insert d es) ->
  x = d \/ (In x es /\ id_eqb (doc_id x) (doc_id d) = false).
Proof.
  unfold esorted. induction 1 as [|d0 es Hs IH Hf]; simpl.
  - intros [<-|[]]. auto.
  - rewrite Forall_forall in Hf. destruct (ocmp (doc_id d0) (doc_id d)) eqn:E.
    + intros [<-|H]; auto. right. split; auto. pose proof (Hf x H) as L. unfold idlt in L.
      unfold id_eqb. rewrite oc_anti, (oc_eql _ _ (doc_id x) E), L. reflexivity.
    + intros [<-|H].
      * right. split; auto. unfold id_eqb. rewrite E. reflexivity.
      * destruct (IH H) as [->|[A B]]; auto.
    + intros [<-|[<-|H]]; auto.
      * right. split; auto. unfold id_eqb. rewrite E. reflexivity.
      * right. split; auto. pose proof (Hf x H) as L. unfold idlt in L.
        unfold id_eqb. rewrite oc_anti.
        rewrite (oc_lt (doc_id d) (doc_id d0) (doc_id x) (oc_gt_lt _ _ E) L). reflexivity.
Qed.

(* ---- index invariants ---- *)
Notation doc_t := (list (N * list (option value * option value))) (only parsing).
Notation tup_t := (list (option value) * option value)%type (only parsing).

Definition ix_complete (es : list doc_t) (ix : index) : Prop :=
  forall d, In d es -> idx_pass ix d = true -> exists t, In t (inodes ix) /\ teq t (tuple_of ix d) = true.
Definition ix_sound (es : list doc_t) (ix : index) : Prop :=
  forall t, In t (inodes ix) -> exists d, In d es /\ idx_pass ix d = true /\ teq t (tuple_of ix d) = true.
Definition pdistinct (t t' : tup_t) : Prop := path_eqb (fst t) (fst t') = false.
Definition ix_uniq (ix : index) : Prop := iuniq ix = true -> ForallOrdPairs pdistinct (inodes ix).
Definition ix_ok (es : list doc_t) (ix : index) : Prop := ix_complete es ix /\ ix_sound es ix /\ ix_uniq ix.

Lemma teq_refl t : teq t t = true.
Proof. unfold teq. rewrite path_eqb_refl, id_eqb_refl. reflexivity. Qed.
Lemma teq_sym t t' : teq t t' = teq t' t.
Proof. unfold teq. rewrite path_eqb_sym, id_eqb_sym. reflexivity. Qed.
Lemma teq_trans a b c : teq a b = true -> teq b c = true -> teq a c = true.
Proof.
  unfold teq. intros H1 H2. apply andb_prop in H1. apply andb_prop in H2.
  destruct H1 as [A1 B1]. destruct H2 as [A2 B2].
  rewrite (path_eqb_trans _ _ _ A1 A2), (id_eqb_trans _ _ _ B1 B2). reflexivity.
Qed.

Lemma same_static_pass ix ix' d :
  ifilter ix' = ifilter ix -> idx_pass ix' d = idx_pass ix d.
Proof. unfold idx_pass. intros ->. reflexivity. Qed.

Lemma idx_del_static ix old :
  ikeys (idx_del ix old) = ikeys ix /\ iuniq (idx_del ix old) = iuniq ix /\ ifilter (idx_del ix old) = ifilter ix.
Proof. unfold idx_del. simpl. auto. Qed.

Lemma idx_del_in ix old t :
  In t (inodes (idx_del ix old)) <-> In t (inodes ix) /\ teq t (tuple_of ix old) = false.
Proof.
  unfold idx_del. cbn [inodes]. rewrite filter_In. unfold teq, tuple_of. cbn [fst snd].
  split; intros [A B]; split; auto.
  - destruct (_ && _); simpl in *; congruence.
  - rewrite B. reflexivity.
Qed.

Lemma idx_add_static ix d ix' : idx_add ix d = Ok ix' ->
  ikeys ix' = ikeys ix /\ iuniq ix' = iuniq ix /\ ifilter ix' = ifilter ix.
Proof.
  unfold idx_add. destruct (idx_pass ix d); [|intros H; injection H as <-; auto].
  destruct (iuniq ix && _); [discriminate|].
  destruct (existsb _ _); intros H; injection H as <-; simpl; auto.
Qed.

Lemma idx_add_in ix d ix' t : idx_add ix d = Ok ix' ->
  In t (inodes ix') -> In t (inodes ix) \/ (idx_pass ix d = true /\ t = tuple_of ix d).
Proof.
  unfold idx_add. destruct (idx_pass ix d) eqn:P; [|intros H; injection H as <-; auto].
  destruct (iuniq ix && _); [discriminate|].
  destruct (existsb _ _); intros H; injection H as <-; simpl; auto.
  intros Hin. apply in_app_or in Hin. destruct Hin as [Hin|[<-|[]]]; auto.
Qed.

Lemma idx_add_keeps ix d ix' t : idx_add ix d = Ok ix' -> In t (inodes ix) -> In t (inodes ix').
Proof.
  unfold idx_add. destruct (idx_pass ix d); [|intros H; injection H as <-; auto].
  destruct (iuniq ix && _); [discriminate|].
  destruct (existsb _ _); intros H; injection H as <-; simpl; auto.
  intros Hin. apply in_or_app. auto.
Qed.

Lemma idx_add_has ix d ix' : idx_add ix d = Ok ix' -> idx_pass ix d = true ->
  exists t, In t (inodes ix') /\ teq t (tuple_of ix d) = true.
Proof.
  unfold idx_add. intros H P. rewrite P in H.
  destruct (iuniq ix && _); [discriminate|].
  destruct (existsb _ (inodes ix)) eqn:Ex; injection H as <-.
  - apply existsb_exists in Ex. destruct Ex as [t [Hin Ht]]. exists t. split; auto.
  - exists (tuple_of ix d). split; [simpl; apply in_or_app; simpl; auto|apply teq_refl].
Qed.

Lemma fop_snoc {A} (R : A -> A -> Prop) l x :
  ForallOrdPairs R l -> (forall a, In a l -> R a x) -> ForallOrdPairs R (l ++ [x]).
Proof.
  intros H Hx. apply fop_app; auto.
  - repeat constructor.
  - intros a b Ha [<-|[]]. auto.
Qed.

Lemma fop_filter {A} (R : A -> A -> Prop) f l : ForallOrdPairs R l -> ForallOrdPairs R (filter f l).
Proof.
  induction 1 as [|a l Ha H IH]; simpl; [constructor|].
  destruct (f a); auto. constructor; auto.
  apply Forall_forall. intros x Hx. apply filter_In in Hx. rewrite Forall_forall in Ha. apply Ha. tauto.
Qed.

Lemma idx_add_uniq ix d ix' : idx_add ix d = Ok ix' -> ix_uniq ix -> ix_uniq ix'.
Proof.
  intros A Hu. unfold idx_add in A. destruct (idx_pass ix d); [|injection A as <-; auto].
  destruct (iuniq ix) eqn:U; cbn [andb] in A.
  - destruct (existsb (fun t => path_eqb (fst t) (path_of (ikeys ix) d)) (inodes ix)) eqn:Ex; [discriminate|].
    destruct (existsb (fun t => path_eqb (fst t) (path_of (ikeys ix) d) && id_eqb (snd t) (doc_id d)) (inodes ix));
      injection A as <-; auto.
    unfold ix_uniq. cbn [iuniq inodes]. intros _. apply fop_snoc; auto.
    intros a Ha. unfold pdistinct. cbn [fst].
    destruct (path_eqb (fst a) (path_of (ikeys ix) d)) eqn:E; auto.
    assert (existsb (fun t => path_eqb (fst t) (path_of (ikeys ix) d)) (inodes ix) = true)
      by (apply existsb_exists; exists a; auto). congruence.
  - destruct (existsb (fun t => path_eqb (fst t) (path_of (ikeys ix) d) && id_eqb (snd t) (doc_id d)) (inodes ix));
      injection A as <-; auto.
    unfold ix_uniq. cbn [iuniq]. congruence.
Qed.

Lemma idx_del_uniq ix old : ix_uniq ix -> ix_uniq (idx_del ix old).
Proof. unfold ix_uniq, idx_del. simpl. intros H U. apply fop_filter. auto. Qed.

(* adding a new document (fresh id) *)
Lemma idx_add_ok es ix d ix' :
  esorted es -> ix_ok es ix -> idx_add ix d = Ok ix' ->
  (forall x, In x es -> id_eqb (doc_id x) (doc_id d) = false) ->
  ix_ok (e_insert d es) ix'.
Proof.
  intros Hs [C [S U]] A Fresh. destruct (idx_add_static _ _ _ A) as [K [Un F]].
  assert (P : forall x, idx_pass ix' x = idx_pass ix x) by (intros; apply same_static_pass; auto).
  assert (T : forall x, tuple_of ix' x = tuple_of ix x) by (intros; unfold tuple_of; rewrite K; reflexivity).
  split; [|split].
  - intros x Hx Px. rewrite P in Px. rewrite T.
    destruct (e_insert_in _ _ _ Hx) as [->|Hin].
    + apply (idx_add_has _ _ _ A Px).
    + destruct (C x Hin Px) as [t [Ht Et]]. exists t. split; auto. eapply idx_add_keeps; eauto.
  - intros t Ht. destruct (idx_add_in _ _ _ _ A Ht) as [Hin|[Pd ->]].
    + destruct (S t Hin) as [x [Hx [Px Ex]]]. exists x. rewrite P, T. split; [|auto].
      apply e_insert_keeps; auto.
    + exists d. rewrite P, T. split; [apply e_insert_has|]. split; auto. apply teq_refl.
  - eapply idx_add_uniq; eauto.
Qed.

(* failure of idx_add is excluded by the conflict check *)
Lemma idx_add_cannot_fail es ix d e :
  esorted es -> ix_ok es ix -> idx_add ix d = Err e -> idx_conflict ix d = false ->
  exists x, In x es /\ id_eqb (doc_id x) (doc_id d) = true /\ idx_pass ix x = true /\
            path_eqb (path_of (ikeys ix) x) (path_of (ikeys ix) d) = true.
Proof.
  intros Hs [C [S U]] A NC. unfold idx_add in A. destruct (idx_pass ix d) eqn:P; [|discriminate].
  destruct (iuniq ix) eqn:Un; cbn [andb] in A.
  2:{ match type of A with (if ?c then _ else _) = _ => destruct c; discriminate A end. }
  destruct (existsb (fun t => path_eqb (fst t) (path_of (ikeys ix) d)) (inodes ix)) eqn:Ex.
  2:{ match type of A with (if ?c then _ else _) = _ => destruct c; discriminate A end. }
  apply existsb_exists in Ex. destruct Ex as [t [Ht Et]].
  unfold idx_conflict in NC. rewrite Un, P in NC. cbn [andb] in NC.
  assert (I : id_eqb (snd t) (doc_id d) = true).
  { destruct (id_eqb (snd t) (doc_id d)) eqn:I; auto.
    assert (existsb (fun t0 => path_eqb (fst t0) (path_of (ikeys ix) d) && negb (id_eqb (snd t0) (doc_id d))) (inodes ix) = true).
    { apply existsb_exists. exists t. rewrite Et, I. auto. }
    congruence. }
  destruct (S t Ht) as [x [Hx [Px Ex]]]. unfold teq, tuple_of in Ex. cbn [fst snd] in Ex.
  apply andb_prop in Ex. destruct Ex as [E1 E2].
  exists x. split; auto. split; [|split; auto].
  - rewrite id_eqb_sym in E2. eapply id_eqb_trans; eauto.
  - rewrite path_eqb_sym in E1. eapply path_eqb_trans; eauto.
Qed.

(* ix_ok depends on the entries only through membership *)
Lemma ix_ok_ext es es' ix : (forall x, In x es <-> In x es') -> ix_ok es ix -> ix_ok es' ix.
Proof.
  intros M [C [S U]]. split; [|split]; auto.
  - intros d Hd. apply C. apply M. exact Hd.
  - intros t Ht. destruct (S t Ht) as [d [Hd R]]. exists d. split; auto. apply M. exact Hd.
Qed.

Lemma e_insert_mem d es x : esorted es ->
  (In x (e_insert d es) <-> x = d \/ (In x es /\ id_eqb (doc_id x) (doc_id d) = false)).
Proof.
  intros Hs. split.
  - apply e_insert_in_strong. exact Hs.
  - intros [->|[A B]]; [apply e_insert_has|apply e_insert_keeps; auto].
Qed.

Lemma idx_del_ok es ix old :
  esorted es -> In old es -> ix_ok es ix -> ix_ok (e_remove (doc_id old) es) (idx_del ix old).
Proof.
  intros Hs Hold [C [S U]]. destruct (idx_del_static ix old) as [K [Un F]].
  assert (P : forall x, idx_pass (idx_del ix old) x = idx_pass ix x) by (intros; apply same_static_pass; auto).
  assert (T : forall x, tuple_of (idx_del ix old) x = tuple_of ix x) by (intros; unfold tuple_of; rewrite K; reflexivity).
  split; [|split].
  - intros x Hx Px. rewrite P in Px. rewrite T. apply e_remove_in in Hx. destruct Hx as [Hx Ne].
    destruct (C x Hx Px) as [t [Ht Et]]. exists t. split; auto. apply idx_del_in. split; auto.
    destruct (teq t (tuple_of ix old)) eqn:E; auto. exfalso.
    rewrite teq_sym in Et. pose proof (teq_trans _ _ _ Et E) as X. unfold teq, tuple_of in X. cbn [fst snd] in X.
    apply andb_prop in X. destruct X as [_ X]. congruence.
  - intros t Ht. apply idx_del_in in Ht. destruct Ht as [Ht Ne].
    destruct (S t Ht) as [x [Hx [Px Ex]]]. exists x. rewrite P, T. split; [|auto].
    apply e_remove_in. split; auto.
    destruct (id_eqb (doc_id x) (doc_id old)) eqn:E; auto. exfalso.
    (* x and old have the same id, hence are the same entry *)
    pose proof (e_find_complete (doc_id old) es x Hs Hx E) as F1.
    pose proof (e_find_complete (doc_id old) es old Hs Hold (id_eqb_refl _)) as F2.
    rewrite F1 in F2. injection F2 as ->. congruence.
  - apply idx_del_uniq. exact U.
Qed.

Lemma idx_conflict_del ix old d : idx_conflict ix d = false -> idx_conflict (idx_del ix old) d = false.
Proof.
  unfold idx_conflict. destruct (idx_del_static ix old) as [K [Un F]].
  rewrite Un, (same_static_pass _ _ _ F), K.
  destruct (iuniq ix && idx_pass ix d); cbn [andb]; auto.
  intros H. destruct (existsb _ (inodes (idx_del ix old))) eqn:E; auto.
  apply existsb_exists in E. destruct E as [t [Ht Et]]. apply idx_del_in in Ht.
  assert (existsb (fun t0 => path_eqb (fst t0) (path_of (ikeys ix) d) && negb (id_eqb (snd t0) (doc_id d))) (inodes ix) = true).
  { apply existsb_exists. exists t. tauto. }
  congruence.
Qed.

(* ---- segment operations preserve the invariant; failures change nothing ---- *)
Definition sinv (st : sstate) : Prop :=
  esorted (entries st) /\ Forall (fun d => doc_id d <> None) (entries st) /\ Forall (ix_ok (entries st)) (indexes st).

Lemma idx_add_all_ok es ixs d :
  esorted es -> Forall (ix_ok es) ixs ->
  (forall x, In x es -> id_eqb (doc_id x) (doc_id d) = false) ->
  forallb (fun ix => negb (idx_conflict ix d)) ixs = true ->
  exists ixs', idx_add_all ixs d = (ixs', None) /\ Forall (ix_ok (e_insert d es)) ixs'.
Proof.
  intros Hs HF Fresh. induction HF as [|ix ixs Hix HF IH]; cbn [forallb idx_add_all]; intros NC.
  - exists []. split; auto.
  - apply andb_prop in NC. destruct NC as [NC1 NC2]. apply negb_true_iff in NC1.
    destruct (idx_add ix d) as [ix'|e] eqn:A.
    + destruct (IH NC2) as [ixs' [E F]]. rewrite E. exists (ix' :: ixs'). split; auto.
      constructor; auto. eapply idx_add_ok; eauto.
    + exfalso. destruct (idx_add_cannot_fail _ _ _ _ Hs Hix A NC1) as [x [Hx [Ex _]]].
      rewrite (Fresh x Hx) in Ex. discriminate.
Qed.

Lemma existsb_false_forallb {A} (f : A -> bool) l : existsb f l = false -> forallb (fun x => negb (f x)) l = true.
Proof. induction l; simpl; auto. destruct (f a); simpl; auto. Qed.

Theorem seg_store_inv st d : sinv st ->
  sinv (fst (seg_store st d)) /\ (forall e, snd (seg_store st d) = Some e -> fst (seg_store st d) = st).
Proof.
  intros [Hs [Hid HF]]. unfold seg_store.
  destruct (doc_id d) as [i|] eqn:Did; [|split; [repeat split; auto|auto]].
  rewrite <- Did.
  destruct (e_find (doc_id d) (entries st)) as [old|] eqn:Fd; [split; [repeat split; auto|auto]|].
  destruct (existsb (fun ix => idx_conflict ix d) (indexes st)) eqn:Cf; [split; [repeat split; auto|auto]|].
  destruct (idx_add_all_ok _ _ d Hs HF (e_find_none _ _ Fd) (existsb_false_forallb _ _ Cf)) as [ixs' [E F]].
  rewrite E. cbn [fst snd]. split; [|discriminate].
  split; [apply e_insert_sorted; auto|]. split; auto. cbn [entries].
  apply Forall_forall. intros x Hx. destruct (e_insert_in _ _ _ Hx) as [->|Hin]; [congruence|].
  rewrite Forall_forall in Hid. auto.
Qed.

Lemma idx_swap_all_ok es ixs old d :
  esorted es -> Forall (ix_ok es) ixs -> In old es -> id_eqb (doc_id old) (doc_id d) = true ->
  forallb (fun ix => negb (idx_conflict ix d)) ixs = true ->
  exists ixs', idx_swap_all ixs old d = (ixs', None) /\ Forall (ix_ok (e_insert d es)) ixs'.
Proof.
  intros Hs HF Hold Eid.
  assert (Hs' : esorted (e_remove (doc_id old) es)) by (apply e_remove_sorted; auto).
  assert (Fresh : forall x, In x (e_remove (doc_id old) es) -> id_eqb (doc_id x) (doc_id d) = false).
  { intros x Hx. apply e_remove_in in Hx. destruct Hx as [_ Ne].
    destruct (id_eqb (doc_id x) (doc_id d)) eqn:E; auto.
    pose proof Eid as Eid'. rewrite id_eqb_sym in Eid'.
    rewrite (id_eqb_trans _ _ _ E Eid') in Ne. discriminate. }
  assert (Mem : forall x, In x (e_insert d (e_remove (doc_id old) es)) <-> In x (e_insert d es)).
  { intros x. rewrite (e_insert_mem d _ x Hs'), (e_insert_mem d es x Hs). split.
    - intros [->|[A B]]; auto. right. split; auto. apply e_remove_in in A. tauto.
    - intros [->|[A B]]; auto. right. split; auto. apply e_remove_in. split; auto.
      destruct (id_eqb (doc_id x) (doc_id old)) eqn:E; auto.
      rewrite (id_eqb_trans _ _ _ E Eid) in B. discriminate. }
  induction HF as [|ix ixs Hix HF IH]; cbn [forallb idx_swap_all]; intros NC.
  - exists []. split; auto.
  - apply andb_prop in NC. destruct NC as [NC1 NC2]. apply negb_true_iff in NC1.
    pose proof (idx_del_ok es ix old Hs Hold Hix) as Hdel.
    destruct (idx_add (idx_del ix old) d) as [ix'|e] eqn:A.
    + destruct (IH NC2) as [ixs' [E F]]. rewrite E. exists (ix' :: ixs'). split; auto.
      constructor; auto. eapply ix_ok_ext; [exact Mem|]. eapply idx_add_ok; eauto.
    + exfalso. destruct (idx_add_cannot_fail _ _ _ _ Hs' Hdel A (idx_conflict_del _ _ _ NC1)) as [x [Hx [Ex _]]].
      rewrite (Fresh x Hx) in Ex. discriminate.
Qed.

Theorem seg_swap_inv st d : sinv st ->
  sinv (fst (seg_swap st d)) /\ (forall e, snd (seg_swap st d) = Some e -> fst (seg_swap st d) = st).
Proof.
  intros [Hs [Hid HF]]. unfold seg_swap.
  destruct (doc_id d) as [i|] eqn:Did; [|split; [repeat split; auto|auto]].
  rewrite <- Did.
  destruct (e_find (doc_id d) (entries st)) as [old|] eqn:Fd; [|split; [repeat split; auto|auto]].
  destruct (existsb (fun ix => idx_conflict ix d) (indexes st)) eqn:Cf; [split; [repeat split; auto|auto]|].
  destruct (e_find_some _ _ _ Fd) as [Hold Eid].
  destruct (idx_swap_all_ok _ _ old d Hs HF Hold Eid (existsb_false_forallb _ _ Cf)) as [ixs' [E F]].
  rewrite E. cbn [fst snd]. split; [|discriminate].
  split; [apply e_insert_sorted; auto|]. split; auto. cbn [entries].
  apply Forall_forall. intros x Hx. destruct (e_insert_in _ _ _ Hx) as [->|Hin]; [congruence|].
  rewrite Forall_forall in Hid. auto.
Qed.

Theorem seg_delete_inv st id : sinv st ->
  sinv (fst (seg_delete st id)) /\ (forall e, snd (seg_delete st id) = Some e -> fst (seg_delete st id) = st).
Proof.
  intros [Hs [Hid HF]]. unfold seg_delete.
  destruct (e_find id (entries st)) as [old|] eqn:Fd; [|split; [repeat split; auto|auto]].
  cbn [fst snd]. split; [|discriminate]. destruct (e_find_some _ _ _ Fd) as [Hold Eid].
  assert (R : e_remove id (entries st) = e_remove (doc_id old) (entries st)).
  { unfold e_remove. apply filter_ext. intros x. f_equal.
    destruct (id_eqb (doc_id x) id) eqn:E.
    - rewrite id_eqb_sym in Eid. rewrite (id_eqb_trans _ _ _ E Eid). reflexivity.
    - destruct (id_eqb (doc_id x) (doc_id old)) eqn:E2; auto.
      rewrite (id_eqb_trans _ _ _ E2 Eid) in E. discriminate. }
  split; [apply e_remove_sorted; auto|]. split; cbn [entries indexes].
  - apply Forall_forall. intros x Hx. apply e_remove_in in Hx. rewrite Forall_forall in Hid. apply Hid. tauto.
  - rewrite R. apply Forall_forall. intros ix' Hix'. apply in_map_iff in Hix'. destruct Hix' as [ix [<- Hix]].
    rewrite Forall_forall in HF. apply idx_del_ok; auto.
Qed.

(* ---- index creation ---- *)
Lemma ix_ok_nil ix : inodes ix = [] -> ix_ok [] ix.
Proof.
  intros E. split; [|split].
  - intros d [].
  - intros t Ht. rewrite E in Ht. destruct Ht.
  - intros _. rewrite E. constructor.
Qed.

Lemma idx_add_ok_cons done ix d ix' :
  ix_ok done ix -> idx_add ix d = Ok ix' -> ix_ok (d :: done) ix'.
Proof.
  intros [C [S U]] A. destruct (idx_add_static _ _ _ A) as [K [Un F]].
  assert (P : forall x, idx_pass ix' x = idx_pass ix x) by (intros; apply same_static_pass; auto).
  assert (T : forall x, tuple_of ix' x = tuple_of ix x) by (intros; unfold tuple_of; rewrite K; reflexivity).
  split; [|split].
  - intros x [<-|Hx] Px; rewrite P in Px; rewrite T.
    + apply (idx_add_has _ _ _ A Px).
    + destruct (C x Hx Px) as [t [Ht Et]]. exists t. split; auto. eapply idx_add_keeps; eauto.
  - intros t Ht. destruct (idx_add_in _ _ _ _ A Ht) as [Hin|[Pd ->]].
    + destruct (S t Hin) as [x [Hx R]]. exists x. rewrite P, T. split; simpl; auto.
    + exists d. rewrite P, T. split; simpl; auto. split; auto. apply teq_refl.
  - eapply idx_add_uniq; eauto.
Qed.

Lemma idx_build_ok es : forall done ix ix',
  ix_ok done ix -> idx_build ix es = Ok ix' -> ix_ok (rev es ++ done) ix'.
Proof.
  induction es as [|d es IH]; intros done ix ix' H B; cbn [idx_build] in B.
  - injection B as <-. exact H.
  - destruct (idx_add ix d) as [ix1|e] eqn:A; [|discriminate].
    cbn [rev]. rewrite <- app_assoc. cbn [app]. apply (IH (d :: done) ix1); auto.
    eapply idx_add_ok_cons; eauto.
Qed.

Lemma st_unindex_inv st keys : sinv st -> sinv (st_unindex st keys).
Proof.
  intros [Hs [Hid HF]]. unfold st_unindex. split; [|split]; cbn [entries indexes]; auto.
  apply Forall_forall. intros ix Hix. apply filter_In in Hix. rewrite Forall_forall in HF. apply HF. tauto.
Qed.

Theorem st_index_inv st keys uniq flt : sinv st ->
  sinv (fst (st_index st keys uniq flt)) /\
  (forall e, snd (st_index st keys uniq flt) = Some e -> fst (st_index st keys uniq flt) = st_unindex st keys).
Proof.
  intros H. pose proof (st_unindex_inv st keys H) as [Hs [Hid HF]]. unfold st_index.
  destruct (idx_build _ _) as [ix|e] eqn:B; cbn [fst snd].
  - split; [|discriminate]. split; [|split]; cbn [entries indexes]; auto.
    apply Forall_app. split; auto. constructor; auto.
    eapply ix_ok_ext; [|eapply (idx_build_ok _ [] (mkidx keys uniq flt []) _ (ix_ok_nil (mkidx keys uniq flt []) eq_refl) B)].
    intros x. rewrite app_nil_r. symmetry. apply in_rev.
  - split; [repeat split; auto|auto].
Qed.

Lemma st_emit_inv st op d : sinv st -> sinv (st_emit st op d).
Proof. intros H. exact H. Qed.

(* ---- store operations ---- *)
Lemma do_insert_inv docs : forall st, sinv st -> sinv (fst (do_insert st docs)).
Proof.
  induction docs as [|d ds IH]; intros st H; cbn [do_insert]; auto.
  pose proof (seg_store_inv st d H) as [I _]. destruct (seg_store st d) as [st' [e|]]; cbn [fst] in *; auto.
Qed.

Lemma do_swaps_inv ds : forall st n, sinv st -> sinv (fst (do_swaps st ds n)).
Proof.
  induction ds as [|d ds IH]; intros st n H; cbn [do_swaps]; auto.
  pose proof (seg_swap_inv st d H) as [I _]. destruct (seg_swap st d) as [st' [e|]]; cbn [fst] in *; auto.
Qed.

Lemma do_deletes_inv ds : forall st n, sinv st -> sinv (fst (do_deletes st ds n)).
Proof.
  induction ds as [|d ds IH]; intros st n H; cbn [do_deletes]; auto.
  pose proof (seg_delete_inv st (doc_id d) H) as [I _].
  destruct (seg_delete st (doc_id d)) as [st' [e|]]; cbn [fst] in *; auto.
Qed.

Theorem s_step_inv st op : sinv st -> sinv (fst (s_step st op)).
Proof.
  intros H. destruct op; cbn [s_step].
  - apply do_insert_inv. exact H.
  - destruct (st_find st f) as [docs|e|]; cbn [fst]; auto.
    destruct docs as [|d0 ds]; [destruct upsert|].
    + destruct (oextract f) as [[[]|]|e]; cbn [fst]; auto.
      * destruct (patch bk upd) as [d|e]; cbn [fst]; auto.
        pose proof (seg_store_inv st d H) as [I _]. destruct (seg_store st d) as [st' [e|]]; cbn [fst] in *; auto.
      * destruct (patch [] upd) as [d|e]; cbn [fst]; auto.
        pose proof (seg_store_inv st d H) as [I _]. destruct (seg_store st d) as [st' [e|]]; cbn [fst] in *; auto.
    + destruct (patch_all [] upd) as [ds|e]; cbn [fst]; auto. apply do_swaps_inv. exact H.
    + destruct (patch_all (d0 :: ds) upd) as [ds'|e]; cbn [fst]; auto. apply do_swaps_inv. exact H.
  - destruct (st_find st f) as [docs|e|]; cbn [fst]; auto. apply do_deletes_inv. exact H.
  - destruct (st_find st f) as [docs|e|]; cbn [fst]; auto.
  - pose proof (st_index_inv st keys uniq flt H) as [I _].
    destruct (st_index st keys uniq flt) as [st' [e|]]; cbn [fst] in *; auto.
  - apply st_unindex_inv. exact H.
  - exact H.
  - exact H.
  - destruct (nth_error (streams st) i); cbn [fst]; exact H.
Qed.

Lemma sinv_init : sinv st_init.
Proof.
  split; [constructor|]. split; [constructor|]. constructor; [|constructor]. apply ix_ok_nil. reflexivity.
Qed.

Theorem s_run_inv ops : sinv (s_run ops).
Proof.
  unfold s_run. assert (G : forall st, sinv st -> sinv (fold_left (fun st op => fst (s_step st op)) ops st)).
  { induction ops as [|op ops IH]; intros st H; cbn [fold_left]; auto. apply IH, s_step_inv, H. }
  apply G, sinv_init.
Qed.

(* ---- find does not depend on the indexes ---- *)
Definition Mt (f : value) (d : doc_t) : bool := match mmatch f (vdoc d) with Ok true => true | _ => false end.

Lemma filter_docs_ok f l :
  (forall d, In d l -> exists b, mmatch f (vdoc d) = Ok b) -> filter_docs (Some f) l = Ok (filter (Mt f) l).
Proof.
  induction l as [|d l IH]; intros H; cbn [filter_docs filter]; auto.
  destruct (H d (or_introl eq_refl)) as [b Hb]. unfold Mt at 1. rewrite Hb.
  rewrite IH by (intros x Hx; apply H; right; exact Hx). destruct b; reflexivity.
Qed.

Lemma filter_docs_none l : filter_docs None l = Ok l.
Proof. induction l as [|d l IH]; cbn [filter_docs]; auto. rewrite IH. reflexivity. Qed.

Lemma filter_filter_imp {A} (M P : A -> bool) l :
  (forall x, In x l -> M x = true -> P x = true) -> filter M (filter P l) = filter M l.
Proof.
  induction l as [|x l IH]; intros H; simpl; auto.
  destruct (P x) eqn:Px; simpl.
  - rewrite IH by (intros y Hy; apply H; right; exact Hy). reflexivity.
  - destruct (M x) eqn:Mx.
    + rewrite (H x (or_introl eq_refl) Mx) in Px. discriminate.
    + apply IH. intros y Hy. apply H. right. exact Hy.
Qed.

Definition nopartial (st : sstate) : Prop := forall ix, In ix (indexes st) -> ifilter ix = None.
Definition plain_keys (st : sstate) : Prop :=
  forall ix k, In ix (indexes st) -> In k (ikeys ix) -> is_op k = false.

Lemma explain_from st f :
  explain st (Some f) = [] \/ exists ix, In ix (indexes st) /\ explain st (Some f) = new_plan (ikeys ix) f.
Proof.
  unfold explain. set (skel := match extract f with Ok (Some (VMap d)) => Some d | _ => None end).
  assert (G : forall ixs best,
    (best = [] \/ exists ix, In ix (indexes st) /\ best = new_plan (ikeys ix) f) ->
    (forall ix, In ix ixs -> In ix (indexes st)) ->
    let r := fold_left (fun (best : plan) (ix : index) =>
                   if admitted skel ix then
                     let p := new_plan (ikeys ix) f in
                     if Nat.ltb (length best) (length p) then p else best
                   else best) ixs best in
    r = [] \/ exists ix, In ix (indexes st) /\ r = new_plan (ikeys ix) f).
  { induction ixs as [|ix ixs IH]; intros best Hb Hsub; cbn [fold_left]; auto.
    apply IH; [|intros; apply Hsub; right; auto].
    destruct (admitted skel ix); auto. cbn zeta.
    destruct (Nat.ltb _ _); auto. right. exists ix. split; auto. apply Hsub. left. reflexivity. }
  apply G; auto.
Qed.

Definition scan_all (p : plan) (subs : list subidx) : list subidx :=
  fold_left (fun s (kb : list N * bound) => scan_step (fst kb) (snd kb) s) p subs.

Lemma scan_step_src key b subs s' t' : In s' (scan_step key b subs) -> In t' (snd s') ->
  exists s t, In s subs /\ In t (snd s) /\ snd t = snd t'.
Proof.
  unfold scan_step. intros Hs Ht. apply in_flat_map in Hs. destruct Hs as [s [Hs Hs']].
  destruct (fst s) as [|k ks] eqn:K; [destruct Hs'|].
  destruct (list_N_eqb k key); [|destruct Hs']. destruct Hs' as [<-|[]]. cbn [snd] in Ht.
  apply in_flat_map in Ht. destruct Ht as [t [Ht Ht']].
  destruct (fst t) as [|p0 p'] eqn:P; [destruct Ht'|]. destruct (in_bound b p0); [|destruct Ht'].
  destruct Ht' as [<-|[]]. exists s, t. auto.
Qed.

Lemma scan_all_src p : forall subs id, In id (scan_ids (scan_all p subs)) ->
  exists s t, In s subs /\ In t (snd s) /\ snd t = id.
Proof.
  induction p as [|[k b] p IH]; intros subs id H; cbn [scan_all fold_left] in H.
  - unfold scan_ids in H. apply in_flat_map in H. destruct H as [s [Hs Hid]].
    apply in_map_iff in Hid. destruct Hid as [t [<- Ht]]. exists s, t. auto.
  - destruct (IH _ _ H) as [s' [t' [Hs' [Ht' E]]]]. cbn [fst snd] in Hs'.
    destruct (scan_step_src _ _ _ _ _ Hs' Ht') as [s [t [Hs [Ht E2]]]]. exists s, t. split; auto. split; auto. congruence.
Qed.

Lemma in_bound_congr b x y : ocmp x y = Eq -> in_bound b x = in_bound b y.
Proof.
  intros E. unfold in_bound. destruct (fst b), (snd b); rewrite ?(oc_eql x y _ E); reflexivity.
Qed.

Lemma scan_hit f d : mmatch f (vdoc d) = Ok true ->
  forall ks subs tuples pp id,
  (forall k, In k ks -> is_op k = false) ->
  In (ks, tuples) subs -> In (pp, id) tuples -> path_eqb pp (path_of ks d) = true ->
  In id (scan_ids (scan_all (new_plan ks f) subs)).
Proof.
  intros M. induction ks as [|k ks IH]; intros subs tuples pp id Hk Hs Ht Hp.
  - cbn. unfold scan_ids. apply in_flat_map. exists ([], tuples). split; auto.
    apply in_map_iff. exists (pp, id). auto.
  - cbn [new_plan].
    assert (Base : In id (scan_ids subs)).
    { unfold scan_ids. apply in_flat_map. exists (k :: ks, tuples). split; auto.
      apply in_map_iff. exists (pp, id). auto. }
    destruct (bounds k f) as [mn mx] eqn:B.
    assert (Step : In id (scan_ids (scan_all (new_plan ks f) (scan_step k (mn, mx) subs)))).
    { destruct pp as [|p0 pp']; [discriminate|]. cbn [path_of map path_eqb] in Hp.
      apply andb_prop in Hp. destruct Hp as [E0 Ep].
      apply (IH _ (flat_map (fun t : list (option value) * option value =>
                     match fst t with
                     | p1 :: p' => if in_bound (mn, mx) p1 then [(p', snd t)] else []
                     | [] => []
                     end) tuples) pp' id).
      - intros k' Hk'. apply Hk. right. exact Hk'.
      - unfold scan_step. apply in_flat_map. exists (k :: ks, tuples). split; auto.
        cbn [fst snd]. rewrite list_N_eqb_refl. left. reflexivity.
      - apply in_flat_map. exists (p0 :: pp', id). split; auto. cbn [fst snd].
        assert (IB : in_bound (mn, mx) p0 = true).
        { rewrite (in_bound_congr _ p0 (field d k)) by (destruct (ocmp p0 (field d k)); simpl in E0; congruence).
          rewrite <- B. apply (bounds_sound f (vdoc d) k); auto. apply Hk. left. reflexivity. }
        rewrite IB. left. reflexivity.
      - exact Ep. }
    destruct mn, mx; auto.
Qed.

Theorem find_indep st f :
  sinv st -> nopartial st -> plain_keys st ->
  (forall d, In d (entries st) -> exists b, mmatch f (vdoc d) = Ok b) ->
  st_find st (Some f) = st_find_ref st (Some f) /\ st_find st (Some f) = FDocs (filter (Mt f) (entries st)).
Proof.
  intros [Hs [Hid HF]] NP PK NE. unfold st_find_ref. rewrite (filter_docs_ok f _ NE).
  assert (R : st_find st (Some f) = FDocs (filter (Mt f) (entries st))); [|split; exact R].
  unfold st_find. destruct (explain_from st f) as [E|[ix0 [Hix0 E]]]; rewrite E.
  - rewrite (filter_docs_ok f _ NE). reflexivity.
  - destruct (new_plan (ikeys ix0) f) as [|kb0 p0] eqn:P; [rewrite (filter_docs_ok f _ NE); reflexivity|].
    rewrite <- P. clear E.
    set (subs0 := map (fun ix => (ikeys ix, inodes ix)) (indexes st)).
    fold (scan_all (new_plan (ikeys ix0) f) subs0).
    set (ids := scan_ids (scan_all (new_plan (ikeys ix0) f) subs0)).
    assert (A : forallb (fun id => match e_find id (entries st) with Some _ => true | None => false end) ids = true).
    { apply forallb_forall. intros id Hid'. destruct (scan_all_src _ _ _ Hid') as [s [t [Hs' [Ht Et]]]].
      apply in_map_iff in Hs'. destruct Hs' as [ix [<- Hix]]. cbn [snd] in Ht.
      rewrite Forall_forall in HF. destruct (HF ix Hix) as [_ [S _]].
      destruct (S t Ht) as [d [Hd [_ Ed]]]. unfold teq, tuple_of in Ed. cbn [fst snd] in Ed.
      apply andb_prop in Ed. destruct Ed as [_ Ed]. rewrite id_eqb_sym in Ed. rewrite Et in Ed.
      rewrite (e_find_complete id _ d Hs Hd Ed). reflexivity. }
    rewrite A. rewrite filter_docs_ok.
    2:{ intros d Hd. apply NE. apply filter_In in Hd. tauto. }
    f_equal. apply filter_filter_imp. intros d Hd Md.
    unfold Mt in Md. destruct (mmatch f (vdoc d)) as [[|]|] eqn:Mm; try discriminate.
    rewrite Forall_forall in HF. destruct (HF ix0 Hix0) as [C _].
    assert (Pd : idx_pass ix0 d = true) by (unfold idx_pass; rewrite (NP ix0 Hix0); reflexivity).
    destruct (C d Hd Pd) as [[pp id] [Ht Et]]. unfold teq, tuple_of in Et. cbn [fst snd] in Et.
    apply andb_prop in Et. destruct Et as [Ep Ei].
    apply existsb_exists. exists id. split; [|rewrite id_eqb_sym; exact Ei].
    apply (scan_hit f d Mm (ikeys ix0) subs0 (inodes ix0) pp id); auto.
    + intros k Hk. apply (PK ix0 k Hix0 Hk).
    + unfold subs0. apply in_map_iff. exists ix0. auto.
Qed.

(* ---- watcher event logs (C13) ---- *)
Definition whit (flt : option value) (d : doc_t) : bool :=
  match flt with None => true | Some f => Mt f d end.
Definition ev_of (od : list N * doc_t) : list N * option value := (fst od, doc_id (snd od)).
(* what a watcher with this filter is owed for a stretch of the mutation log *)
Definition wall (flt : option value) (log : list (list N * doc_t)) : list (list N * option value) :=
  map ev_of (filter (fun od => whit flt (snd od)) log).

Definition w_ok (log : list (list N * doc_t)) (w : wstream) : Prop :=
  wclosed w = false ->
  wstart w <= length log /\
  wdrained w <= length (wall (wfilter w) (skipn (wstart w) log)) /\
  wevents w = skipn (wdrained w) (wall (wfilter w) (skipn (wstart w) log)).
Definition winv (st : sstate) : Prop := Forall (w_ok (slog st)) (streams st).

Lemma skipn_app_le {A} n (l l' : list A) : n <= length l -> skipn n (l ++ l') = skipn n l ++ l'.
Proof. intros H. rewrite skipn_app. replace (n - length l) with 0 by lia. reflexivity. Qed.

Lemma ws_emit_ok log op d w : w_ok log w -> w_ok (log ++ [(op, d)]) (ws_emit op d w).
Proof.
  intros H. unfold ws_emit. destruct (wclosed w) eqn:Cl; [intros C; congruence|].
  destruct (H Cl) as [S [D E]].
  assert (W : wall (wfilter w) (skipn (wstart w) (log ++ [(op, d)])) =
              wall (wfilter w) (skipn (wstart w) log) ++ (if whit (wfilter w) d then [(op, doc_id d)] else [])).
  { rewrite skipn_app_le by exact S. unfold wall. rewrite filter_app, map_app. cbn [filter snd].
    destruct (whit (wfilter w) d); reflexivity. }
  assert (Hit : whit (wfilter w) d =
                match wfilter w with None => true | Some f => match mmatch f (vdoc d) with Ok true => true | _ => false end end)
    by reflexivity.
  rewrite <- Hit. destruct (whit (wfilter w) d) eqn:Hw; intros _; cbn [wclosed wstart wdrained wfilter wevents].
  - rewrite W, !app_length. cbn [length]. split; [lia|]. split; [lia|].
    rewrite skipn_app_le by exact D. rewrite E. reflexivity.
  - rewrite W, app_nil_r, app_length. split; [lia|]. auto.
Qed.

Lemma st_emit_winv st op d : winv st -> winv (st_emit st op d).
Proof.
  unfold winv, st_emit. cbn [streams slog]. intros H. apply Forall_forall. intros w' Hw'.
  apply in_map_iff in Hw'. destruct Hw' as [w [<- Hw]]. rewrite Forall_forall in H. apply ws_emit_ok. auto.
Qed.

Lemma seg_store_ws st d : streams (fst (seg_store st d)) = streams st /\ slog (fst (seg_store st d)) = slog st.
Proof.
  unfold seg_store. destruct (doc_id d); auto. destruct (e_find _ _); auto. destruct (existsb _ _); auto.
  destruct (idx_add_all _ _); auto.
Qed.
Lemma seg_swap_ws st d : streams (fst (seg_swap st d)) = streams st /\ slog (fst (seg_swap st d)) = slog st.
Proof.
  unfold seg_swap. destruct (doc_id d); auto. destruct (e_find _ _); auto. destruct (existsb _ _); auto.
  destruct (idx_swap_all _ _ _); auto.
Qed.
Lemma seg_delete_ws st id : streams (fst (seg_delete st id)) = streams st /\ slog (fst (seg_delete st id)) = slog st.
Proof. unfold seg_delete. destruct (e_find _ _); auto. Qed.

Lemma winv_same st st' : streams st' = streams st -> slog st' = slog st -> winv st -> winv st'.
Proof. unfold winv. intros -> ->. auto. Qed.

Lemma do_insert_winv docs : forall st, winv st -> winv (fst (do_insert st docs)).
Proof.
  induction docs as [|d ds IH]; intros st H; cbn [do_insert]; auto.
  destruct (seg_store_ws st d) as [A B]. destruct (seg_store st d) as [st' [e|]]; cbn [fst] in *.
  - eapply winv_same; eauto.
  - apply IH. apply st_emit_winv. eapply winv_same; eauto.
Qed.
Lemma do_swaps_winv ds : forall st n, winv st -> winv (fst (do_swaps st ds n)).
Proof.
  induction ds as [|d ds IH]; intros st n H; cbn [do_swaps]; auto.
  destruct (seg_swap_ws st d) as [A B]. destruct (seg_swap st d) as [st' [e|]]; cbn [fst] in *.
  - eapply winv_same; eauto.
  - apply IH. apply st_emit_winv. eapply winv_same; eauto.
Qed.
Lemma do_deletes_winv ds : forall st n, winv st -> winv (fst (do_deletes st ds n)).
Proof.
  induction ds as [|d ds IH]; intros st n H; cbn [do_deletes]; auto.
  destruct (seg_delete_ws st (doc_id d)) as [A B]. destruct (seg_delete st (doc_id d)) as [st' [e|]]; cbn [fst] in *.
  - eapply winv_same; eauto.
  - apply IH. apply st_emit_winv. eapply winv_same; eauto.
Qed.

Lemma Forall_map_combine {A} (P : A -> Prop) (g : nat * A -> A) (l : list A) n :
  (forall i a, In a l -> P a -> P (g (i, a))) -> Forall P l -> Forall P (map g (combine (List.seq n (length l)) l)).
Proof.
  intros Hg. revert n. induction l as [|a l IH]; intros n H; cbn; [constructor|].
  inversion H; subst. constructor.
  - apply Hg; simpl; auto.
  - apply IH; auto. intros i b Hb. apply Hg. right. exact Hb.
Qed.

Theorem s_step_winv st op : winv st -> winv (fst (s_step st op)).
Proof.
  intros H. destruct op; cbn [s_step].
  - apply do_insert_winv. exact H.
  - destruct (st_find st f) as [docs|e|]; cbn [fst]; auto.
    destruct docs as [|d0 ds]; [destruct upsert|].
    + destruct (oextract f) as [[[]|]|e]; cbn [fst]; auto.
      * destruct (patch bk upd) as [d|e]; cbn [fst]; auto.
        destruct (seg_store_ws st d) as [A B]. destruct (seg_store st d) as [st' [e|]]; cbn [fst] in *.
        -- eapply winv_same; eauto.
        -- apply st_emit_winv. eapply winv_same; eauto.
      * destruct (patch [] upd) as [d|e]; cbn [fst]; auto.
        destruct (seg_store_ws st d) as [A B]. destruct (seg_store st d) as [st' [e|]]; cbn [fst] in *.
        -- eapply winv_same; eauto.
        -- apply st_emit_winv. eapply winv_same; eauto.
    + destruct (patch_all [] upd) as [ds|e]; cbn [fst]; auto. apply do_swaps_winv. exact H.
    + destruct (patch_all (d0 :: ds) upd) as [ds'|e]; cbn [fst]; auto. apply do_swaps_winv. exact H.
  - destruct (st_find st f) as [docs|e|]; cbn [fst]; auto. apply do_deletes_winv. exact H.
  - destruct (st_find st f) as [docs|e|]; cbn [fst]; auto.
  - unfold st_index. destruct (idx_build _ _); cbn [fst]; exact H.
  - exact H.
  - unfold winv in *. cbn [fst streams slog]. apply Forall_app. split; auto. constructor; [|constructor].
    intros _. cbn [wstart wdrained wfilter wevents]. rewrite skipn_all. cbn. auto.
  - unfold winv in *. cbn [fst streams slog]. apply Forall_map_combine; auto.
    intros j w Hw Pw. cbn [fst snd]. destruct (Nat.eqb j i); auto. intros C. discriminate C.
  - destruct (nth_error (streams st) i) as [wi|]; cbn [fst]; [|exact H].
    unfold winv in *. cbn [streams slog]. apply Forall_map_combine; auto.
    intros j w0 Hw Pw. cbn [fst snd]. destruct (Nat.eqb j i); auto.
    intros C. cbn [wclosed] in C. destruct (Pw C) as [S [D E]]. cbn [wstart wdrained wfilter wevents].
    set (all := wall (wfilter w0) (skipn (wstart w0) (slog st))) in *.
    assert (L : length (wevents w0) = length all - wdrained w0) by (rewrite E, skipn_length; reflexivity).
    split; auto. split; [lia|]. rewrite skipn_all2 by lia. reflexivity.
Qed.

Theorem s_run_winv ops : winv (s_run ops).
Proof.
  unfold s_run. assert (G : forall st, winv st -> winv (fold_left (fun st op => fst (s_step st op)) ops st)).
  { induction ops as [|op ops IH]; intros st H; cbn [fold_left]; auto. apply IH, s_step_winv, H. }
  apply G. constructor.
Qed.

(* the mutation log records exactly the mutations that were applied, in order *)
Lemma do_insert_log docs : forall st,
  exists k, k <= length docs /\
    slog (fst (do_insert st docs)) = slog st ++ map (fun d => (ev_insert, d)) (firstn k docs) /\
    (snd (do_insert st docs) = ROk <-> k = length docs).
Proof.
  induction docs as [|d ds IH]; intros st; cbn [do_insert].
  - exists 0. cbn. rewrite app_nil_r. split; auto. split; auto. tauto.
  - destruct (seg_store_ws st d) as [A B]. destruct (seg_store st d) as [st' [e|]]; cbn [fst snd] in *.
    + exists 0. cbn. rewrite app_nil_r. split; [lia|]. split; auto. split; [discriminate|lia].
    + destruct (IH (st_emit st' ev_insert d)) as [k [K [L R]]]. exists (S k). cbn [length firstn map].
      split; [lia|]. split.
      * rewrite L. cbn [st_emit slog]. rewrite B, <- app_assoc. reflexivity.
      * rewrite R. lia.
Qed.
