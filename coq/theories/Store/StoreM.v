(* Model of pkg/store (repaired tree): segment (entries + indexes), execution plans, scans,
   store operations and watcher event logs.  Transcribed from segment.go, executionplan.go,
   store.go, helper.go (extract), stream.go (Match/Emit; the pump is in Stream.v).

   Abstractions (documented in DESIGN.md):
   - the primary B-tree is a list of documents sorted by Compare on "id";
   - an index's nested B-trees are a flat set of tuples (key path, id); all navigation in the
     code is by Compare, and so is every lookup here;
   - a document is the table of its map value. *)
From Coq Require Import List NArith ZArith Bool.
From Uf Require Import Base.Fnv Base.Order Value.Value Value.VMap Store.Filter.
Import ListNotations.

Notation tab := (list (N * list (option value * option value))) (only parsing).

Definition doc_id (d : tab) : option value := field d key_id.
Definition vdoc (d : tab) : option value := Some (VMap d).

(* ---- extract (helper.go): the equality skeleton of a filter ---- *)
Fixpoint extract (filter : value) {struct filter} : res (option value) :=
  let eo := fun (f : option value) => match f with None => Ok None | Some u => extract u end in
  match filter with
  | VMap t =>
      (fix gob (l : tab) (acc : tab) : res (option value) :=
         match l with
         | [] => Ok (Some (VMap acc))
         | (_, e) :: l' =>
             (fix gop (p : list (option value * option value)) (acc : tab) : res (option value) :=
                match p with
                | [] => gob l' acc
                | (k, v) :: p' =>
                    match k with
                    | Some (VString s) =>
                        if negb (is_op s) then
                          match eo v with
                          | Err e => Err e
                          | Ok None => gop p' acc
                          | Ok (Some child) => gop p' (t_set k (Some child) acc)
                          end
                        else if list_N_eqb s op_eq then Ok v
                        else if list_N_eqb s op_and || list_N_eqb s op_or then
                          match v with
                          | Some (VSlice subs) =>
                              (fix gos (ss : list (option value)) (acc : tab) : res (option value) :=
                                 match ss with
                                 | [] => gop p' acc
                                 | sub :: ss' =>
                                     match eo sub with
                                     | Err e => Err e
                                     | Ok (Some (VMap ct)) =>
                                         match fold_left (fun (a : res tab) (kv : option value * option value) =>
                                                  match a with
                                                  | Err e => Err e
                                                  | Ok a' => if t_has (fst kv) a' then Err EDup else Ok (t_set (fst kv) (snd kv) a')
                                                  end) (t_range ct) (Ok acc) with
                                         | Err e => Err e
                                         | Ok acc' => gos ss' acc'
                                         end
                                     | Ok None => gos ss' acc
                                     | Ok (Some _) => Err ECast
                                     end
                                 end) subs acc
                          | _ => Err EType
                          end
                        else Ok None
                    | _ => gop p' acc
                    end
                end) e acc
         end) t []
  | _ => Ok (Some filter)
  end.

Definition oextract (f : option value) : res (option value) :=
  match f with None => Ok None | Some u => extract u end.

(* ---- indexes ---- *)
Record index := mkidx {
  ikeys : list (list N);
  iuniq : bool;
  ifilter : option value;
  inodes : list (list (option value) * option value)
}.

Definition idx_pass (ix : index) (d : tab) : bool :=
  match ifilter ix with
  | None => true
  | Some f => match mmatch f (vdoc d) with Ok true => true | _ => false end
  end.

Definition path_of (keys : list (list N)) (d : tab) : list (option value) := map (field d) keys.

Fixpoint path_eqb (p q : list (option value)) : bool :=
  match p, q with
  | [], [] => true
  | a :: p', b :: q' => is_eq (ocmp a b) && path_eqb p' q'
  | _, _ => false
  end.

Definition id_eqb (a b : option value) : bool := is_eq (ocmp a b).

(* segment.index: add the document to one index *)
Definition idx_add (ix : index) (d : tab) : res index :=
  if idx_pass ix d then
    let p := path_of (ikeys ix) d in
    if iuniq ix && existsb (fun t => path_eqb (fst t) p) (inodes ix) then Err EDup
    else if existsb (fun t => path_eqb (fst t) p && id_eqb (snd t) (doc_id d)) (inodes ix) then Ok ix
    else Ok (mkidx (ikeys ix) (iuniq ix) (ifilter ix) (inodes ix ++ [(p, doc_id d)]))
  else Ok ix.

(* segment.unindex *)
Definition idx_del (ix : index) (d : tab) : index :=
  let p := path_of (ikeys ix) d in
  mkidx (ikeys ix) (iuniq ix) (ifilter ix)
        (filter (fun t => negb (path_eqb (fst t) p && id_eqb (snd t) (doc_id d))) (inodes ix)).

(* segment.conflict: another document holds this document's key in a unique index *)
Definition idx_conflict (ix : index) (d : tab) : bool :=
  iuniq ix && idx_pass ix d &&
  existsb (fun t => path_eqb (fst t) (path_of (ikeys ix) d) && negb (id_eqb (snd t) (doc_id d))) (inodes ix).

(* ---- watcher streams (event log; the pump is modelled in Stream.v) ---- *)
(* wstart / wdrained are ghost fields (position in the mutation log when the watcher was opened,
   number of events its consumer has read); no operation's result depends on them *)
Record wstream := mkws { wfilter : option value; wevents : list (list N * option value); wclosed : bool;
                         wstart : nat; wdrained : nat }.

(* slog is a ghost field: the successful mutations in the order they were applied *)
Record sstate := mkst { entries : list tab; indexes : list index; streams : list wstream;
                        slog : list (list N * tab) }.

Definition primary : index := mkidx [key_id] true None [].
Definition st_init : sstate := mkst [] [primary] [] [].

(* ---- primary tree ---- *)
Fixpoint e_find (id : option value) (es : list tab) : option tab :=
  match es with
  | [] => None
  | d :: es' => if id_eqb (doc_id d) id then Some d else e_find id es'
  end.

Fixpoint e_insert (d : tab) (es : list tab) : list tab :=
  match es with
  | [] => [d]
  | d' :: es' =>
      match ocmp (doc_id d') (doc_id d) with
      | Lt => d' :: e_insert d es'
      | Eq => d :: es'
      | Gt => d :: es
      end
  end.

Definition e_remove (id : option value) (es : list tab) : list tab :=
  filter (fun d => negb (id_eqb (doc_id d) id)) es.

(* ---- segment operations: result state and error ---- *)
Fixpoint idx_add_all (ixs : list index) (d : tab) : list index * option err :=
  match ixs with
  | [] => ([], None)
  | ix :: rest =>
      match idx_add ix d with
      | Err e => (ix :: rest, Some e)
      | Ok ix' => let '(rest', e) := idx_add_all rest d in (ix' :: rest', e)
      end
  end.

Definition seg_store (st : sstate) (d : tab) : sstate * option err :=
  match doc_id d with
  | None => (st, Some EMissing)
  | Some _ =>
      match e_find (doc_id d) (entries st) with
      | Some _ => (st, Some EDup)
      | None =>
          if existsb (fun ix => idx_conflict ix d) (indexes st) then (st, Some EDup)
          else
            let '(ixs, e) := idx_add_all (indexes st) d in
            (mkst (e_insert d (entries st)) ixs (streams st) (slog st), e)
      end
  end.

Fixpoint idx_swap_all (ixs : list index) (old d : tab) : list index * option err :=
  match ixs with
  | [] => ([], None)
  | ix :: rest =>
      match idx_add (idx_del ix old) d with
      | Err e => (idx_del ix old :: rest, Some e)
      | Ok ix' => let '(rest', e) := idx_swap_all rest old d in (ix' :: rest', e)
      end
  end.

Definition seg_swap (st : sstate) (d : tab) : sstate * option err :=
  match doc_id d with
  | None => (st, Some EMissing)
  | Some _ =>
      match e_find (doc_id d) (entries st) with
      | None => (st, Some ENotFound)
      | Some old =>
          if existsb (fun ix => idx_conflict ix d) (indexes st) then (st, Some EDup)
          else
            let '(ixs, e) := idx_swap_all (indexes st) old d in
            (mkst (e_insert d (entries st)) ixs (streams st) (slog st), e)
      end
  end.

Definition seg_delete (st : sstate) (id : option value) : sstate * option err :=
  match e_find id (entries st) with
  | None => (st, Some ENotFound)
  | Some old =>
      (mkst (e_remove id (entries st)) (map (fun ix => idx_del ix old) (indexes st)) (streams st) (slog st), None)
  end.

(* segment.Index: build over the existing entries; a failed build drops the index *)
Fixpoint idx_build (ix : index) (es : list tab) : res index :=
  match es with
  | [] => Ok ix
  | d :: es' => match idx_add ix d with Err e => Err e | Ok ix' => idx_build ix' es' end
  end.

Definition keys_eqb (a b : list (list N)) : bool :=
  (fix go (a b : list (list N)) : bool :=
     match a, b with
     | [], [] => true
     | x :: a', y :: b' => list_N_eqb x y && go a' b'
     | _, _ => false
     end) a b.

Definition st_unindex (st : sstate) (keys : list (list N)) : sstate :=
  mkst (entries st) (filter (fun ix => negb (keys_eqb (ikeys ix) keys)) (indexes st)) (streams st) (slog st).

Definition st_index (st : sstate) (keys : list (list N)) (uniq : bool) (flt : option value) : sstate * option err :=
  let st1 := st_unindex st keys in
  match idx_build (mkidx keys uniq flt []) (entries st1) with
  | Err e => (st1, Some e)
  | Ok ix => (mkst (entries st1) (indexes st1 ++ [ix]) (streams st1) (slog st1), None)
  end.

(* ---- execution plans (executionplan.go) ---- *)
Definition bound := (option value * option value)%type.   (* (min, max); None = unbounded *)

Definition b_intersect (e o : bound) : bound :=
  (match fst e with
   | None => fst o
   | Some _ => match ocmp (fst o) (fst e) with Gt => fst o | _ => fst e end
   end,
   match snd e with
   | None => snd o
   | Some _ => match ocmp (snd o) (snd e) with Lt => snd o | _ => snd e end
   end).

Definition b_union (e o : bound) : bound :=
  (match fst e with
   | None => None
   | Some _ => match fst o with
               | None => None
               | Some _ => match ocmp (fst o) (fst e) with Lt => fst o | _ => fst e end
               end
   end,
   match snd e with
   | None => None
   | Some _ => match snd o with
               | None => None
               | Some _ => match ocmp (snd o) (snd e) with Gt => snd o | _ => snd e end
               end
   end).

(* bounds stated directly on the key: f.Get(key) *)
Definition b_lower (b : bound) (l : option value) : bound :=
  match l with
  | None => b
  | Some _ => match fst b with
              | None => (l, snd b)
              | Some _ => match ocmp l (fst b) with Gt => (l, snd b) | _ => b end
              end
  end.

Definition b_upper (b : bound) (u : option value) : bound :=
  match u with
  | None => b
  | Some _ => match snd b with
              | None => (fst b, u)
              | Some _ => match ocmp u (snd b) with Lt => (fst b, u) | _ => b end
              end
  end.

Definition own_bounds (fv : option value) : bound :=
  match fv with
  | Some (VMap vt) =>
      let g := fun op => t_get (Some (VString op)) vt in
      let b0 : bound := match g op_eq with Some v => (Some v, Some v) | None => (None, None) end in
      b_upper (b_upper (b_lower (b_lower b0 (g op_gt)) (g op_gte)) (g op_lt)) (g op_lte)
  | other => (other, other)
  end.

(* bounds of one key under a filter: own conditions, intersected with every $and child and with
   the union of the $or children.  The $and / $or operands are found by walking the filter's
   pairs (equivalent to Get on a well-formed table) so that the recursion is structural. *)
Fixpoint bounds (key : list N) (filter : value) {struct filter} : bound :=
  let bo := fun (f : option value) => match f with None => (None, None) | Some u => bounds key u end in
  match filter with
  | VMap t =>
      let own := own_bounds (field t key) in
      (fix gob (l : tab) (acc : bound) : bound :=
         match l with
         | [] => acc
         | (_, e) :: l' =>
             (fix gop (p : list (option value * option value)) (acc : bound) : bound :=
                match p with
                | [] => gob l' acc
                | (k, v) :: p' =>
                    match k, v with
                    | Some (VString s), Some (VSlice subs) =>
                        if list_N_eqb s op_and then
                          gop p' ((fix goa (ss : list (option value)) (acc : bound) : bound :=
                                     match ss with
                                     | [] => acc
                                     | sub :: ss' =>
                                         (* a child without bounds yields a nil plan, which intersect ignores *)
                                         goa ss' (match bo sub with
                                                  | (None, None) => acc
                                                  | ob => b_intersect acc ob
                                                  end)
                                     end) subs acc)
                        else if list_N_eqb s op_or then
                          match subs with
                          | [] => gop p' acc
                          | sub0 :: ss0 =>
                              gop p' (b_intersect acc
                                        ((fix goo (ss : list (option value)) (u : bound) : bound :=
                                            match ss with
                                            | [] => u
                                            | sub :: ss' => goo ss' (b_union u (bo sub))
                                            end) ss0 (bo sub0)))
                          end
                        else gop p' acc
                    | _, _ => gop p' acc
                    end
                end) e acc
         end) t own
  | _ => (None, None)
  end.

Definition plan := list (list N * bound).

Fixpoint new_plan (keys : list (list N)) (filter : value) : plan :=
  match keys with
  | [] => []
  | k :: ks =>
      match bounds k filter with
      | (None, None) => []
      | b => (k, b) :: new_plan ks filter
      end
  end.

(* store.explain: the longest plan among the admitted indexes (first wins on ties) *)
Definition admitted (skeleton : option tab) (ix : index) : bool :=
  match ifilter ix with
  | None => true
  | Some _ => match skeleton with None => false | Some d => idx_pass ix d end
  end.

Definition explain (st : sstate) (filter : option value) : plan :=
  match filter with
  | None => []
  | Some f =>
      let skel := match extract f with Ok (Some (VMap d)) => Some d | _ => None end in
      fold_left (fun (best : plan) (ix : index) =>
                   if admitted skel ix then
                     let p := new_plan (ikeys ix) f in
                     if Nat.ltb (length best) (length p) then p else best
                   else best) (indexes st) []
  end.

(* ---- scans (segment.Scan / section.Scan / section.Range) ---- *)
Definition subidx := (list (list N) * list (list (option value) * option value))%type.

Definition in_bound (b : bound) (v : option value) : bool :=
  match fst b with None => true | Some _ => match ocmp v (fst b) with Lt => false | _ => true end end &&
  match snd b with None => true | Some _ => match ocmp v (snd b) with Gt => false | _ => true end end.

Definition scan_step (key : list N) (b : bound) (subs : list subidx) : list subidx :=
  flat_map (fun s : subidx =>
    match fst s with
    | k :: ks =>
        if list_N_eqb k key then
          [(ks, flat_map (fun t : list (option value) * option value =>
                   match fst t with
                   | p0 :: p' => if in_bound b p0 then [(p', snd t)] else []
                   | [] => []
                   end) (snd s))]
        else []
    | [] => []
    end) subs.

Definition scan_ids (subs : list subidx) : list (option value) :=
  flat_map (fun s : subidx => map snd (snd s)) subs.

Inductive fres := FDocs (l : list tab) | FErr (e : err) | FCrash.

Fixpoint filter_docs (f : option value) (ds : list tab) : res (list tab) :=
  match ds with
  | [] => Ok []
  | d :: ds' =>
      match f with
      | None => match filter_docs f ds' with Ok r => Ok (d :: r) | Err e => Err e end
      | Some fv =>
          match mmatch fv (vdoc d) with
          | Err e => Err e
          | Ok b => match filter_docs f ds' with
                    | Ok r => Ok (if b then d :: r else r)
                    | Err e => Err e
                    end
          end
      end
  end.

Definition st_find (st : sstate) (f : option value) : fres :=
  let p := explain st f in
  match p with
  | [] => match filter_docs f (entries st) with Ok r => FDocs r | Err e => FErr e end
  | _ =>
      let subs0 : list subidx := map (fun ix => (ikeys ix, inodes ix)) (indexes st) in
      let subs := fold_left (fun s (kb : list N * bound) => scan_step (fst kb) (snd kb) s) p subs0 in
      let ids := scan_ids subs in
      if forallb (fun id => match e_find id (entries st) with Some _ => true | None => false end) ids then
        let cand := filter (fun d => existsb (fun id => id_eqb (doc_id d) id) ids) (entries st) in
        match filter_docs f cand with Ok r => FDocs r | Err e => FErr e end
      else FCrash
  end.

(* the same query without consulting any index: the reference for C11 *)
Definition st_find_ref (st : sstate) (f : option value) : fres :=
  match filter_docs f (entries st) with Ok r => FDocs r | Err e => FErr e end.

(* ---- emit ---- *)

Definition ws_emit (op : list N) (d : tab) (w : wstream) : wstream :=
  if wclosed w then w
  else
    let hit := match wfilter w with
               | None => true
               | Some f => match mmatch f (vdoc d) with Ok true => true | _ => false end
               end in
    if hit then mkws (wfilter w) (wevents w ++ [(op, doc_id d)]) false (wstart w) (wdrained w) else w.

Definition st_emit (st : sstate) (op : list N) (d : tab) : sstate :=
  mkst (entries st) (indexes st) (map (ws_emit op d) (streams st)) (slog st ++ [(op, d)]).

(* ---- store operations ---- *)
Inductive sop :=
| SInsert (docs : list tab)
| SUpdate (f : option value) (upd : tab) (upsert : bool)
| SDelete (f : option value)
| SFind (f : option value) (sort : list (list N * Z)) (skip limit : nat)
| SIndex (keys : list (list N)) (uniq : bool) (flt : option value)
| SUnindex (keys : list (list N))
| SWatch (f : option value)
| SCloseWatch (i : nat)
| SDrain (i : nat).                 (* the consumer of watcher i reads every event that is ready *)

Inductive sres :=
| ROk
| RCount (n : nat)
| RDocs (l : list tab)
| RErr (e : err)
| REvents (l : list (list N * option value))
| RCrash.

Fixpoint do_insert (st : sstate) (docs : list tab) : sstate * sres :=
  match docs with
  | [] => (st, ROk)
  | d :: ds =>
      match seg_store st d with
      | (st', Some e) => (st', RErr e)
      | (st', None) => do_insert (st_emit st' ev_insert d) ds
      end
  end.

Fixpoint patch_all (ds : list tab) (upd : tab) : res (list tab) :=
  match ds with
  | [] => Ok []
  | d :: ds' =>
      match patch d upd with
      | Err e => Err e
      | Ok d' => match patch_all ds' upd with Ok r => Ok (d' :: r) | Err e => Err e end
      end
  end.

Fixpoint do_swaps (st : sstate) (ds : list tab) (n : nat) : sstate * sres :=
  match ds with
  | [] => (st, RCount n)
  | d :: ds' =>
      match seg_swap st d with
      | (st', Some e) => (st', RErr e)
      | (st', None) => do_swaps (st_emit st' ev_update d) ds' (S n)
      end
  end.

Fixpoint do_deletes (st : sstate) (ds : list tab) (n : nat) : sstate * sres :=
  match ds with
  | [] => (st, RCount n)
  | d :: ds' =>
      match seg_delete st (doc_id d) with
      | (st', Some e) => (st', RErr e)
      | (st', None) => do_deletes (st_emit st' ev_delete d) ds' (S n)
      end
  end.

(* sort: slices.SortFunc with at most 12 elements is an insertion sort (stable) *)
Definition sort_cmp (sort : list (list N * Z)) (x y : tab) : Z :=
  (fix go (s : list (list N * Z)) : Z :=
     match s with
     | [] => 0%Z
     | (fld, order) :: s' =>
         match ocmp (field x fld) (field y fld) with
         | Eq => go s'
         | c => (cmp_int c * order)%Z
         end
     end) sort.

Fixpoint ins_sorted (sort : list (list N * Z)) (x : tab) (l : list tab) : list tab :=
  match l with
  | [] => [x]
  | y :: l' => if Z.ltb (sort_cmp sort x y) 0 then x :: l else y :: ins_sorted sort x l'
  end.

Definition sort_docs (sort : list (list N * Z)) (l : list tab) : list tab :=
  match sort with
  | [] => l
  | _ => fold_left (fun acc x => ins_sorted sort x acc) l []
  end.

Definition window (skip limit : nat) (l : list tab) : list tab :=
  let skip := Nat.min skip (length l) in
  let limit := if Nat.eqb limit 0 then length l else limit in
  firstn (Nat.min (skip + limit) (length l) - skip) (skipn skip l).

Definition s_step (st : sstate) (op : sop) : sstate * sres :=
  match op with
  | SInsert docs => do_insert st docs
  | SUpdate f upd upsert =>
      match st_find st f with
      | FErr e => (st, RErr e)
      | FCrash => (st, RCrash)
      | FDocs docs =>
          match docs, upsert with
          | [], true =>
              let upsert_from := fun (base : tab) =>
                  match patch base upd with
                  | Err e => (st, RErr e)
                  | Ok d =>
                      match seg_store st d with
                      | (st', Some e) => (st', RErr e)
                      | (st', None) => (st_emit st' ev_insert d, RCount 1)
                      end
                  end in
              match oextract f with
              | Ok (Some (VMap base)) => upsert_from base
              | Ok None => upsert_from []
              | Err e => (st, RErr e)
              | Ok _ => (st, RErr ECast)
              end
          | _, _ =>
              match patch_all docs upd with
              | Err e => (st, RErr e)
              | Ok ds => do_swaps st ds 0
              end
          end
      end
  | SDelete f =>
      match st_find st f with
      | FErr e => (st, RErr e)
      | FCrash => (st, RCrash)
      | FDocs docs => do_deletes st docs 0
      end
  | SFind f sort skip limit =>
      match st_find st f with
      | FErr e => (st, RErr e)
      | FCrash => (st, RCrash)
      | FDocs docs => (st, RDocs (window skip limit (sort_docs sort docs)))
      end
  | SIndex keys uniq flt =>
      match st_index st keys uniq flt with
      | (st', Some e) => (st', RErr e)
      | (st', None) => (st', ROk)
      end
  | SUnindex keys => (st_unindex st keys, ROk)
  | SWatch f => (mkst (entries st) (indexes st) (streams st ++ [mkws f [] false (length (slog st)) 0]) (slog st), ROk)
  | SCloseWatch i =>
      (* closing discards what the consumer has not read yet (the pump drops its buffer) *)
      (mkst (entries st) (indexes st)
            (map (fun iw : nat * wstream => if Nat.eqb (fst iw) i then mkws (wfilter (snd iw)) [] true (wstart (snd iw)) (wdrained (snd iw)) else snd iw)
                 (combine (List.seq 0 (length (streams st))) (streams st))) (slog st), ROk)
  | SDrain i =>
      match nth_error (streams st) i with
      | None => (st, REvents [])
      | Some w =>
          (mkst (entries st) (indexes st)
                (map (fun iw : nat * wstream => if Nat.eqb (fst iw) i
                                    then mkws (wfilter (snd iw)) [] (wclosed (snd iw)) (wstart (snd iw)) (wdrained (snd iw) + length (wevents (snd iw)))
                                    else snd iw)
                     (combine (List.seq 0 (length (streams st))) (streams st))) (slog st),
           REvents (wevents w))
      end
  end.

Definition s_run (ops : list sop) : sstate := fold_left (fun st op => fst (s_step st op)) ops st_init.
