(* Model of pkg/store/helper.go (repaired tree): match, patch, extract.
   Filters, updates and documents are engine values; iteration over a filter map follows
   Map.Range (ascending key hash, then key order), because errors and early exits make the
   order observable. *)
From Coq Require Import List NArith ZArith Bool String Ascii.
From Uf Require Import Base.Fnv Base.Order Value.Value Value.VMap.
Import ListNotations.

Fixpoint bytes_of (s : string) : list N :=
  match s with
  | EmptyString => []
  | String a r => N_of_ascii a :: bytes_of r
  end.

Definition list_N_eqb := fix go (l l' : list N) : bool :=
  match l, l' with
  | [], [] => true
  | a :: t, b :: t' => N.eqb a b && go t t'
  | _, _ => false
  end.

Definition op_exists := Eval compute in bytes_of "$exists".
Definition op_eq := Eval compute in bytes_of "$eq".
Definition op_ne := Eval compute in bytes_of "$ne".
Definition op_gt := Eval compute in bytes_of "$gt".
Definition op_lt := Eval compute in bytes_of "$lt".
Definition op_gte := Eval compute in bytes_of "$gte".
Definition op_lte := Eval compute in bytes_of "$lte".
Definition op_and := Eval compute in bytes_of "$and".
Definition op_or := Eval compute in bytes_of "$or".
Definition op_set := Eval compute in bytes_of "$set".
Definition op_unset := Eval compute in bytes_of "$unset".
Definition key_id := Eval compute in bytes_of "id".
Definition ev_insert := Eval compute in bytes_of "insert".
Definition ev_update := Eval compute in bytes_of "update".
Definition ev_delete := Eval compute in bytes_of "delete".

Definition is_op (s : list N) : bool := match s with 36%N :: _ => true | _ => false end.

Inductive err := EType | EOp | EDup | EMissing | ENotFound | ECast.
Inductive res (A : Type) := Ok (a : A) | Err (e : err).
Arguments Ok {A} a.
Arguments Err {A} e.

Definition err_eqb (a b : err) : bool :=
  match a, b with
  | EType, EType | EOp, EOp | EDup, EDup | EMissing, EMissing | ENotFound, ENotFound | ECast, ECast => true
  | _, _ => false
  end.

(* field access doc.Get(key) on a document that must be a map *)
Definition as_map (d : option value) : option (list (N * list (option value * option value))) :=
  match d with Some (VMap t) => Some t | _ => None end.

Definition field (t : list (N * list (option value * option value))) (k : list N) : option value :=
  t_get (Some (VString k)) t.

(* reflect.ValueOf(v).IsZero() for the operand of $exists *)
Definition vzero (v : value) : bool :=
  match v with
  | VBool b => negb b
  | VInt _ z => Z.eqb z 0
  | VUint _ n => N.eqb n 0
  | VF32 b => N.eqb b 0
  | VF64 b => N.eqb b 0
  | VString s => match s with [] => true | _ => false end
  | _ => false
  end.

Definition exists_wanted (o : option value) : bool :=
  match o with None => false | Some v => negb (vzero v) end.

Definition cmp_test (op : list N) (c : comparison) : option bool :=
  if list_N_eqb op op_gt then Some (match c with Gt => true | _ => false end)
  else if list_N_eqb op op_lt then Some (match c with Lt => true | _ => false end)
  else if list_N_eqb op op_gte then Some (match c with Lt => false | _ => true end)
  else if list_N_eqb op op_lte then Some (match c with Gt => false | _ => true end)
  else None.

(* match(doc, filter) *)
Fixpoint mmatch (filter : value) (doc : option value) {struct filter} : res bool :=
  let mo := fun (f : option value) (d : option value) =>
    match f with None => Ok (oequal d None) | Some u => mmatch u d end in
  match filter with
  | VMap t =>
      (fix gob (l : list (N * list (option value * option value))) : res bool :=
         match l with
         | [] => Ok true
         | (_, e) :: l' =>
             (fix gop (p : list (option value * option value)) : res bool :=
                match p with
                | [] => gob l'
                | (k, v) :: p' =>
                    match k with
                    | Some (VString s) =>
                        if negb (is_op s) then
                          match mo v (match as_map doc with Some dt => field dt s | None => None end) with
                          | Err e => Err e
                          | Ok false => Ok false
                          | Ok true => gop p'
                          end
                        else if list_N_eqb s op_exists then
                          if Bool.eqb (match doc with None => false | Some _ => true end) (exists_wanted v)
                          then gop p' else Ok false
                        else if list_N_eqb s op_eq then
                          if oequal doc v then gop p' else Ok false
                        else if list_N_eqb s op_ne then
                          if oequal doc v then Ok false else gop p'
                        else
                          match cmp_test s (ocmp doc v) with
                          | Some true => gop p'
                          | Some false => Ok false
                          | None =>
                              if list_N_eqb s op_and then
                                match v with
                                | Some (VSlice subs) =>
                                    (fix goa (ss : list (option value)) : res bool :=
                                       match ss with
                                       | [] => gop p'
                                       | sub :: ss' =>
                                           match mo sub doc with
                                           | Err e => Err e
                                           | Ok false => Ok false
                                           | Ok true => goa ss'
                                           end
                                       end) subs
                                | _ => Err EType
                                end
                              else if list_N_eqb s op_or then
                                match v with
                                | Some (VSlice subs) =>
                                    (fix goo (ss : list (option value)) : res bool :=
                                       match ss with
                                       | [] => Ok false
                                       | sub :: ss' =>
                                           match mo sub doc with
                                           | Err e => Err e
                                           | Ok true => gop p'
                                           | Ok false => goo ss'
                                           end
                                       end) subs
                                | _ => Err EType
                                end
                              else Err EOp
                          end
                    | _ => Err EType
                    end
                end) e
         end) t
  | _ => Ok (oequal doc (Some filter))
  end.

Definition omatch (filter : option value) (doc : option value) : res bool :=
  match filter with None => Ok (oequal doc None) | Some u => mmatch u doc end.

(* patch(doc, update): the document as a table *)
Definition patch (dt : list (N * list (option value * option value))) (upd : list (N * list (option value * option value)))
  : res (list (N * list (option value * option value))) :=
  fold_left (fun (acc : res _) (kv : option value * option value) =>
    match acc with
    | Err e => Err e
    | Ok d =>
        match fst kv with
        | Some (VString s) =>
            if list_N_eqb s op_set then
              match snd kv with
              | Some (VMap vt) => Ok (fold_left (fun d' (p : option value * option value) => t_set (fst p) (snd p) d') (t_range vt) d)
              | _ => Err EType
              end
            else if list_N_eqb s op_unset then
              match snd kv with
              | Some (VMap vt) => Ok (fold_left (fun d' (p : option value * option value) => t_del (fst p) d') (t_range vt) d)
              | _ => Err EType
              end
            else Err EOp
        | _ => Err EType
        end
    end) (t_range upd) (Ok dt).
