(* match over a filter map as a plain recursion over the filter's pairs; facts used by
   the plan-soundness proof (C11) and the reference semantics (C10). *)
From Coq Require Import List NArith ZArith Bool Lia.
From Uf Require Import Base.Fnv Base.Order Value.Value Value.Laws Value.VMap Value.VMapProofs Store.Filter.
Import ListNotations.

Definition field' (d : option value) (k : list N) : option value :=
  match as_map d with Some dt => field dt k | None => None end.

Fixpoint m_and (subs : list (option value)) (doc : option value) : res bool :=
  match subs with
  | [] => Ok true
  | sub :: ss =>
      match omatch sub doc with
      | Err e => Err e
      | Ok false => Ok false
      | Ok true => m_and ss doc
      end
  end.

Fixpoint m_or (subs : list (option value)) (doc : option value) : res bool :=
  match subs with
  | [] => Ok false
  | sub :: ss =>
      match omatch sub doc with
      | Err e => Err e
      | Ok true => Ok true
      | Ok false => m_or ss doc
      end
  end.

(* the condition carried by one pair of a filter map *)
Definition m_entry (k v : option value) (doc : option value) : res bool :=
  match k with
  | Some (VString s) =>
      if negb (is_op s) then omatch v (field' doc s)
      else if list_N_eqb s op_exists then
        Ok (Bool.eqb (match doc with None => false | Some _ => true end) (exists_wanted v))
      else if list_N_eqb s op_eq then Ok (oequal doc v)
      else if list_N_eqb s op_ne then Ok (negb (oequal doc v))
      else
        match cmp_test s (ocmp doc v) with
        | Some b => Ok b
        | None =>
            if list_N_eqb s op_and then
              match v with Some (VSlice subs) => m_and subs doc | _ => Err EType end
            else if list_N_eqb s op_or then
              match v with Some (VSlice subs) => m_or subs doc | _ => Err EType end
            else Err EOp
        end
  | _ => Err EType
  end.

Fixpoint m_pairs (ps : list (option value * option value)) (doc : option value) : res bool :=
  match ps with
  | [] => Ok true
  | (k, v) :: ps' =>
      match m_entry k v doc with
      | Err e => Err e
      | Ok false => Ok false
      | Ok true => m_pairs ps' doc
      end
  end.

Lemma mmatch_nonmap f d : (forall t, f <> VMap t) -> mmatch f d = Ok (oequal d (Some f)).
Proof. destruct f; intros H; try reflexivity. exfalso. apply (H bk). reflexivity. Qed.

(* unfolding of the nested fixpoint *)
Lemma mmatch_map t d : mmatch (VMap t) d = m_pairs (t_range t) d.
Proof.
  unfold t_range. cbn [mmatch].
  induction t as [|[h e] t IH]; [reflexivity|].
  cbn [flat_map snd].
  induction e as [|[k v] e IHe]; cbn [app].
  - exact IH.
  - cbn [m_pairs]. unfold m_entry.
    destruct k as [[]|]; try reflexivity.
    destruct (negb (is_op s)) eqn:Eop.
    + unfold field'. set (fd := match as_map d with Some dt => field dt s | None => None end).
      destruct v as [v|]; cbn [omatch].
      * destruct (mmatch v fd) as [[|]|]; auto.
      * destruct (oequal fd None); auto.
    + destruct (list_N_eqb s op_exists).
      { destruct (Bool.eqb _ _); auto. }
      destruct (list_N_eqb s op_eq). { destruct (oequal d v); auto. }
      destruct (list_N_eqb s op_ne). { destruct (oequal d v); auto. }
      destruct (cmp_test s (ocmp d v)) as [[|]|]; auto.
      destruct (list_N_eqb s op_and).
      { destruct v as [[]|]; try reflexivity.
        induction l as [|sub l IHl]; cbn [m_and]; [exact IHe|].
        destruct sub as [u|]; cbn [omatch].
        - destruct (mmatch u d) as [[|]|]; auto.
        - destruct (oequal d None); auto. }
      destruct (list_N_eqb s op_or).
      { destruct v as [[]|]; try reflexivity.
        induction l as [|sub l IHl]; cbn [m_or]; [reflexivity|].
        destruct sub as [u|]; cbn [omatch].
        - destruct (mmatch u d) as [[|]|]; auto.
        - destruct (oequal d None); auto. }
      reflexivity.
Qed.

(* a matching map filter satisfies each of its entries *)
Lemma m_pairs_true ps d : m_pairs ps d = Ok true ->
  forall k v, In (k, v) ps -> m_entry k v d = Ok true.
Proof.
  induction ps as [|[k0 v0] ps IH]; cbn [m_pairs]; intros H k v Hin; [destruct Hin|].
  destruct (m_entry k0 v0 d) as [[|]|] eqn:E; try discriminate.
  destruct Hin as [Heq|Hin]; [injection Heq as <- <-; exact E|auto].
Qed.

Lemma m_and_true subs d : m_and subs d = Ok true -> forall s, In s subs -> omatch s d = Ok true.
Proof.
  induction subs as [|s0 subs IH]; cbn [m_and]; intros H s Hin; [destruct Hin|].
  destruct (omatch s0 d) as [[|]|] eqn:E; try discriminate.
  destruct Hin as [<-|Hin]; auto.
Qed.

Lemma m_or_true subs d : m_or subs d = Ok true -> exists s, In s subs /\ omatch s d = Ok true.
Proof.
  induction subs as [|s0 subs IH]; cbn [m_or]; intros H; [discriminate|].
  destruct (omatch s0 d) as [[|]|] eqn:E; try discriminate.
  - exists s0. split; simpl; auto.
  - destruct (IH H) as [s [Hin Hs]]. exists s. split; simpl; auto.
Qed.

(* without errors, a map filter is the conjunction of its entries, in any order *)
Lemma m_pairs_conj ps d :
  (forall k v, In (k, v) ps -> exists b, m_entry k v d = Ok b) ->
  m_pairs ps d = Ok (forallb (fun kv => match m_entry (fst kv) (snd kv) d with Ok true => true | _ => false end) ps).
Proof.
  induction ps as [|[k0 v0] ps IH]; cbn [m_pairs forallb]; intros H; [reflexivity|].
  destruct (H k0 v0 (or_introl eq_refl)) as [b Hb]. cbn [fst snd]. rewrite Hb.
  destruct b; cbn [andb]; auto. apply IH. intros k v Hin. apply H. right. exact Hin.
Qed.
