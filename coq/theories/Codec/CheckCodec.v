(* Correspondence checker for the value codec (C16). *)
From Coq Require Import List NArith ZArith Bool.
From Uf Require Import Codec.Codec.
Import ListNotations.

Fixpoint mismatches_from {A} (ok : A -> bool) (i : nat) (l : list A) : list nat :=
  match l with
  | [] => []
  | c :: t => if ok c then mismatches_from ok (S i) t else i :: mismatches_from ok (S i) t
  end.
Definition mismatches {A} (ok : A -> bool) (l : list A) : list nat := mismatches_from ok 0 l.

Fixpoint list_eqb {A} (f : A -> A -> bool) (l l' : list A) : bool :=
  match l, l' with
  | [], [] => true
  | a :: t, b :: t' => f a b && list_eqb f t t'
  | _, _ => false
  end.

Definition width_eqb (a b : width) : bool :=
  match a, b with W0, W0 | W8, W8 | W16, W16 | W32, W32 | W64, W64 => true | _, _ => false end.
Definition fmode_eqb (a b : fmode) : bool :=
  match a, b with FPlain, FPlain | FOmit, FOmit | FInline, FInline => true | _, _ => false end.

Fixpoint gty_eqb (a b : gty) {struct a} : bool :=
  match a, b with
  | GBool, GBool | GF32, GF32 | GF64, GF64 | GString, GString | GBytes, GBytes | GTime, GTime | GDur, GDur
  | GAny, GAny | GUnknown, GUnknown => true
  | GInt w, GInt w' | GUint w, GUint w' => width_eqb w w'
  | GPtr t, GPtr t' | GSlice t, GSlice t' | GMap t, GMap t' => gty_eqb t t'
  | GArray n t, GArray n' t' => Nat.eqb n n' && gty_eqb t t'
  | GStruct fs, GStruct fs' =>
      (fix go (fs fs' : list (list N * gty * fmode)) {struct fs} : bool :=
         match fs, fs' with
         | [], [] => true
         | (k, t, m) :: r, (k', t', m') :: r' => key_eqb k k' && gty_eqb t t' && fmode_eqb m m' && go r r'
         | _, _ => false
         end) fs fs'
  | _, _ => false
  end.

Fixpoint cval_eqb (a b : cval) {struct a} : bool :=
  match a, b with
  | CNil, CNil | CUnknown, CUnknown => true
  | CBool x, CBool y => Bool.eqb x y
  | CInt w x, CInt w' y | CUint w x, CUint w' y => width_eqb w w' && Z.eqb x y
  | CF32 x, CF32 y | CF64 x, CF64 y => Z.eqb x y
  | CStr x, CStr y | CBin x, CBin y => key_eqb x y
  | CSlice l, CSlice l' =>
      (fix go (l l' : list cval) {struct l} : bool :=
         match l, l' with [], [] => true | x :: r, y :: r' => cval_eqb x y && go r r' | _, _ => false end) l l'
  | CMap l, CMap l' =>
      (fix go (l l' : list (list N * cval)) {struct l} : bool :=
         match l, l' with
         | [], [] => true
         | (k, x) :: r, (k', y) :: r' => key_eqb k k' && cval_eqb x y && go r r'
         | _, _ => false
         end) l l'
  | _, _ => false
  end.

Fixpoint gval_eqb (a b : gval) {struct a} : bool :=
  match a, b with
  | XBool x, XBool y => Bool.eqb x y
  | XInt x, XInt y | XUint x, XUint y | XF32 x, XF32 y | XF64 x, XF64 y | XDur x, XDur y => Z.eqb x y
  | XStr x, XStr y => key_eqb x y
  | XBytes n x, XBytes n' y => Bool.eqb n n' && key_eqb x y
  | XTime x u, XTime y u' => Z.eqb x y && Bool.eqb u u'
  | XNil, XNil | XTime0, XTime0 => true
  | XPtr x, XPtr y => gval_eqb x y
  | XSlice n l, XSlice n' l' =>
      Bool.eqb n n' &&
      (fix go (l l' : list gval) {struct l} : bool :=
         match l, l' with [], [] => true | x :: r, y :: r' => gval_eqb x y && go r r' | _, _ => false end) l l'
  | XArr l, XArr l' | XStruct l, XStruct l' =>
      (fix go (l l' : list gval) {struct l} : bool :=
         match l, l' with [], [] => true | x :: r, y :: r' => gval_eqb x y && go r r' | _, _ => false end) l l'
  | XMap n l, XMap n' l' =>
      Bool.eqb n n' &&
      (fix go (l l' : list (list N * gval)) {struct l} : bool :=
         match l, l' with
         | [], [] => true
         | (k, x) :: r, (k', y) :: r' => key_eqb k k' && gval_eqb x y && go r r'
         | _, _ => false
         end) l l'
  | XDyn t x, XDyn t' y => gty_eqb t t' && gval_eqb x y
  | _, _ => false
  end.

Definition ocval_eqb (a : option cval) (b : cval) : bool :=
  match a with Some x => cval_eqb x b | None => false end.
Definition ogval_eqb (a b : option gval) : bool :=
  match a, b with Some x, Some y => gval_eqb x y | None, None => true | _, _ => false end.

(* a case: the type, the value, the engine value the implementation produced, and what it decoded
   that back to *)
Definition c16case := (gty * gval * cval * option gval)%type.

Definition c16ok (c : c16case) : bool :=
  let '(t, v, e, back) := c in
  ocval_eqb (enc t v) e && ogval_eqb (dec t e) back.
