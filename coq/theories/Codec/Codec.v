(* Model of the reflective value codec (pkg/types/encoding.go, map.go, slice.go, binary.go,
   integer.go ..., repaired tree): Marshal of a Go value of a given type into the engine's value
   model, and Unmarshal of that value into a fresh Go value of the same type.

   Go types are a universe [gty]; Go values a tree [gval]; engine values a tree [cval] whose maps
   are association lists kept sorted by key (keys are strings: the universe has string-keyed maps
   and structs only).

   Only the decoding of values produced by the encoder of the same type is modelled (that is what
   the round trip exercises and what the correspondence check can validate); decoding anything else
   is [None]. *)
From Coq Require Import List NArith ZArith Bool Lia.
Import ListNotations.

Inductive width := W0 | W8 | W16 | W32 | W64.   (* W0 = int / uint (64 bit) *)
Inductive fmode := FPlain | FOmit | FInline.

Inductive gty :=
| GBool | GInt (w : width) | GUint (w : width) | GF32 | GF64 | GString | GBytes | GTime | GDur
| GPtr (t : gty) | GSlice (t : gty) | GArray (n : nat) (t : gty) | GMap (t : gty)
| GStruct (fs : list (list N * gty * fmode))
| GAny
| GUnknown.     (* a dynamic type outside the universe (only ever under an open value) *)

Inductive gval :=
| XBool (b : bool) | XInt (z : Z) | XUint (z : Z) | XF32 (bits : Z) | XF64 (bits : Z) | XStr (s : list N)
| XBytes (isnil : bool) (s : list N)
| XTime (ns : Z) (utc : bool) | XTime0 (* the zero time.Time *) | XDur (ns : Z)
| XNil                                   (* nil pointer / nil open value *)
| XPtr (v : gval)
| XSlice (isnil : bool) (l : list gval) | XArr (l : list gval)
| XMap (isnil : bool) (l : list (list N * gval))     (* sorted by key *)
| XStruct (l : list gval)
| XDyn (t : gty) (v : gval).            (* an open value holding a value of dynamic type t *)

Inductive cval :=
| CNil | CBool (b : bool) | CInt (w : width) (z : Z) | CUint (w : width) (z : Z)
| CF32 (bits : Z) | CF64 (bits : Z) | CStr (s : list N) | CBin (s : list N)
| CSlice (l : list cval) | CMap (l : list (list N * cval))
| CUnknown.

(* ---- keys ---- *)
Fixpoint key_cmp (a b : list N) : comparison :=
  match a, b with
  | [], [] => Eq
  | [], _ => Lt
  | _, [] => Gt
  | x :: a', y :: b' => match N.compare x y with Eq => key_cmp a' b' | c => c end
  end.
Definition key_eqb (a b : list N) : bool := match key_cmp a b with Eq => true | _ => false end.

Section Maps.
  Context {V : Type}.
  Fixpoint mset (k : list N) (v : V) (m : list (list N * V)) : list (list N * V) :=
    match m with
    | [] => [(k, v)]
    | (k', v') :: m' =>
        match key_cmp k k' with
        | Lt => (k, v) :: m
        | Eq => (k, v) :: m'
        | Gt => (k', v') :: mset k v m'
        end
    end.
  Fixpoint mget (k : list N) (m : list (list N * V)) : option V :=
    match m with
    | [] => None
    | (k', v') :: m' => if key_eqb k k' then Some v' else mget k m'
    end.
  Definition mdel (k : list N) (m : list (list N * V)) : list (list N * V) :=
    filter (fun kv => negb (key_eqb k (fst kv))) m.
End Maps.

(* ---- ranges ---- *)
Definition int_ok (w : width) (z : Z) : bool :=
  match w with
  | W8 => (-128 <=? z) && (z <=? 127)
  | W16 => (-32768 <=? z) && (z <=? 32767)
  | W32 => (-2147483648 <=? z) && (z <=? 2147483647)
  | _ => (-9223372036854775808 <=? z) && (z <=? 9223372036854775807)
  end%Z.
Definition uint_ok (w : width) (z : Z) : bool :=
  match w with
  | W8 => (0 <=? z) && (z <=? 255)
  | W16 => (0 <=? z) && (z <=? 65535)
  | W32 => (0 <=? z) && (z <=? 4294967295)
  | _ => (0 <=? z) && (z <=? 18446744073709551615)
  end%Z.

(* ---- zero values (reflect.Value.IsZero) ---- *)
Fixpoint is_zero (v : gval) : bool :=
  match v with
  | XBool b => negb b
  | XInt z | XUint z | XDur z => Z.eqb z 0
  | XF32 b => Z.eqb b 0 || Z.eqb b 2147483648                  (* v.Float() == 0: -0 counts *)
  | XF64 b => Z.eqb b 0 || Z.eqb b 9223372036854775808
  | XStr s => match s with [] => true | _ => false end
  | XBytes isnil _ => isnil
  | XTime _ _ => false
  | XTime0 => true
  | XNil => true
  | XPtr _ => false
  | XSlice isnil _ => isnil
  | XArr l => forallb is_zero l
  | XMap isnil _ => isnil
  | XStruct l => forallb is_zero l
  | XDyn _ _ => false
  end.

Fixpoint zero (t : gty) : gval :=
  match t with
  | GBool => XBool false
  | GInt _ => XInt 0 | GUint _ => XUint 0 | GF32 => XF32 0 | GF64 => XF64 0
  | GString => XStr []
  | GBytes => XBytes true []
  | GTime => XTime0
  | GDur => XDur 0
  | GPtr _ => XNil
  | GSlice _ => XSlice true []
  | GArray n t => XArr (repeat (zero t) n)
  | GMap _ => XMap true []
  | GStruct fs => XStruct (map (fun f => zero (snd (fst f))) fs)
  | GAny | GUnknown => XNil
  end.

(* ---- option plumbing ---- *)
Fixpoint oall {A} (l : list (option A)) : option (list A) :=
  match l with
  | [] => Some []
  | None :: _ => None
  | Some a :: l' => match oall l' with Some r => Some (a :: r) | None => None end
  end.

Definition zero_time_ms : Z := (-62135596800000)%Z.   (* January 1, year 1 UTC *)

(* ---- Marshal ---- *)
Definition mset_all {V} (l : list (list N * V)) (m : list (list N * V)) : list (list N * V) :=
  fold_left (fun m kv => mset (fst kv) (snd kv) m) l m.

(* the struct encoder: fields in order, each setting its key(s) in the map built so far *)
Section EncFields.
  Variable E : gty -> gval -> option cval.
  Fixpoint enc_fields (fs : list (list N * gty * fmode)) (vs : list gval)
           (m : list (list N * cval)) {struct vs} : option (list (list N * cval)) :=
    match fs, vs with
    | [], [] => Some m
    | (k, ft, md) :: fs', fv :: vs' =>
        match md with
        | FPlain => match E ft fv with Some c => enc_fields fs' vs' (mset k c m) | None => None end
        | FOmit => if is_zero fv then enc_fields fs' vs' m
                   else match E ft fv with Some c => enc_fields fs' vs' (mset k c m) | None => None end
        | FInline => match E ft fv with
                     | Some (CMap l) => enc_fields fs' vs' (mset_all l m)
                     | _ => None
                     end
        end
    | _, _ => None
    end.
End EncFields.

Fixpoint enc (t : gty) (v : gval) {struct v} : option cval :=
  match t, v with
  | GBool, XBool b => Some (CBool b)
  | GInt w, XInt z => Some (CInt w z)
  | GUint w, XUint z => Some (CUint w z)
  | GF32, XF32 b => Some (CF32 b)
  | GF64, XF64 b => Some (CF64 b)
  | GString, XStr s => Some (CStr s)
  | GBytes, XBytes _ s => Some (CBin s)
  | GTime, XTime ns _ => Some (CInt W64 (ns / 1000000))                 (* Time.UnixMilli: floor *)
  | GTime, XTime0 => Some (CInt W64 zero_time_ms)
  | GDur, XDur ns => Some (CInt W64 (Z.quot ns 1000000))                (* Duration.Milliseconds: truncation *)
  | GPtr _, XNil => Some CNil
  | GPtr t', XPtr v' => enc t' v'
  | GSlice t', XSlice _ l => option_map CSlice (oall (map (enc t') l))
  | GArray _ t', XArr l => option_map CSlice (oall (map (enc t') l))
  | GMap t', XMap _ l =>
      option_map (fun l' => CMap (mset_all l' []))
                 (oall (map (fun kv => option_map (fun c => (fst kv, c)) (enc t' (snd kv))) l))
  | GStruct fs, XStruct vs => option_map CMap (enc_fields (fun t0 v0 => enc t0 v0) fs vs [])
  | GAny, XNil => Some CNil
  | GAny, XDyn t' v' => match t' with GAny => None | _ => enc t' v' end    (* by the dynamic type *)
  | _, _ => None
  end.

(* ---- the generic view of an engine value (Value.Interface), as an open Go value ---- *)
Definition dyn_ty (c : cval) : gty :=
  match c with
  | CNil => GAny
  | CBool _ => GBool | CInt w _ => GInt w | CUint w _ => GUint w | CF32 _ => GF32 | CF64 _ => GF64
  | CStr _ => GString | CBin _ => GBytes
  | CSlice _ | CMap _ => GAny        (* containers count as `any` when a container is typed by its elements *)
  | CUnknown => GUnknown
  end.

Definition gty_eqb_flat (a b : gty) : bool :=
  match a, b with
  | GBool, GBool | GF32, GF32 | GF64, GF64 | GString, GString | GBytes, GBytes => true
  | GInt w, GInt w' | GUint w, GUint w' =>
      match w, w' with W0, W0 | W8, W8 | W16, W16 | W32, W32 | W64, W64 => true | _, _ => false end
  | _, _ => false
  end.

(* unionType over the elements: one common scalar type, or any *)
Definition union_ty (ts : list gty) : gty :=
  match ts with
  | [] => GAny
  | t :: ts' => if forallb (gty_eqb_flat t) ts' then t else GAny
  end.

(* an element of a container typed by a scalar type loses its own wrapper *)
Definition strip (et : gty) (d : gval) : gval :=
  match et, d with
  | GAny, d => d
  | _, XDyn _ x => x
  | _, d => d
  end.

(* Slices and maps come back typed by the union of their element types: []int64, map[string]string,
   ... and []any / map[string]any when the elements differ (or are containers or null). *)
Fixpoint dyn_of (c : cval) : gval :=
  match c with
  | CNil => XNil
  | CBool b => XDyn GBool (XBool b)
  | CInt w z => XDyn (GInt w) (XInt z)
  | CUint w z => XDyn (GUint w) (XUint z)
  | CF32 b => XDyn GF32 (XF32 b)
  | CF64 b => XDyn GF64 (XF64 b)
  | CStr s => XDyn GString (XStr s)
  | CBin s => XDyn GBytes (XBytes false s)
  | CSlice l =>
      (* a list of uint8 values stays a list (typed []any), so that it is not a byte string *)
      let et := match union_ty (map dyn_ty l) with GUint W8 => GAny | t => t end in
      XDyn (GSlice et) (XSlice false (map (fun e => strip et (dyn_of e)) l))
  | CMap l =>
      let et := union_ty (map (fun kv => dyn_ty (snd kv)) l) in
      XDyn (GMap et) (XMap false (map (fun kv => (fst kv, strip et (dyn_of (snd kv)))) l))
  | CUnknown => XNil
  end.

(* ---- Unmarshal into a fresh value ---- *)
Definition ms_ns : Z := 1000000.

(* A struct is decoded against the map of what is left: named fields and inline structs take their
   keys in field order; an inline map takes the rest afterwards (wherever it stands).  [decm]
   returns the decoded value and, for a struct, what it left of the map. *)
Definition has_inline_map (fs : list (list N * gty * fmode)) : bool :=
  existsb (fun f => match f with (_, GMap _, FInline) => true | _ => false end) fs.

(* first pass over the fields: named fields and inline structs take their keys; inline maps wait *)
Section DecFields.
  Variable D : gty -> cval -> option (gval * list (list N * cval)).
  Fixpoint dec_fields (fs : list (list N * gty * fmode))
           (m : list (list N * cval)) {struct fs} : option (list (option gval) * list (list N * cval)) :=
    match fs with
    | [] => Some ([], m)
    | (k, ft, md) :: fs' =>
        match md, ft with
        | FInline, GMap _ =>
            match dec_fields fs' m with Some (vs, m') => Some (None :: vs, m') | None => None end
        | FInline, _ =>
            match D ft (CMap m) with
            | Some (v, m1) => match dec_fields fs' m1 with Some (vs, m') => Some (Some v :: vs, m') | None => None end
            | None => None
            end
        | _, _ =>
            match mget k m with
            | None => match dec_fields fs' m with Some (vs, m') => Some (Some (zero ft) :: vs, m') | None => None end
            | Some CNil => match dec_fields fs' (mdel k m) with Some (vs, m') => Some (Some (zero ft) :: vs, m') | None => None end
            | Some c' =>
                match D ft c' with
                | Some (v, _) => match dec_fields fs' (mdel k m) with Some (vs, m') => Some (Some v :: vs, m') | None => None end
                | None => None
                end
            end
        end
    end.

  (* second pass: the inline maps take what is left *)
  Fixpoint dec_fill (fs : list (list N * gty * fmode))
           (ovs : list (option gval)) (rest : list (list N * cval)) {struct fs} : option (list gval) :=
    match fs, ovs with
    | [], [] => Some []
    | (_, ft, _) :: fs', ov :: ovs' =>
        match (match ov with Some v => Some v | None => option_map fst (D ft (CMap rest)) end), dec_fill fs' ovs' rest with
        | Some v, Some vs => Some (v :: vs)
        | _, _ => None
        end
    | _, _ => None
    end.
End DecFields.

Fixpoint decm (t : gty) (c : cval) {struct t} : option (gval * list (list N * cval)) :=
  let ret := fun (o : option gval) => option_map (fun v => (v, @nil (list N * cval))) o in
  match t, c with
  | GBool, CBool b => ret (Some (XBool b))
  | GInt w, CInt _ z => ret (if int_ok w z then Some (XInt z) else None)
  | GUint w, CUint _ z => ret (if uint_ok w z then Some (XUint z) else None)
  | GF32, CF32 b => ret (Some (XF32 b))
  | GF64, CF64 b => ret (Some (XF64 b))
  | GString, CStr s => ret (Some (XStr s))
  | GBytes, CBin s => ret (Some (XBytes false s))
  | GTime, CInt _ ms => ret (Some (if Z.eqb ms zero_time_ms then XTime0 else XTime (ms * ms_ns) true))
  | GDur, CInt _ ms => ret (Some (XDur (ms * ms_ns)))
  | GPtr _, CNil => ret (Some XNil)
  | GPtr t', _ => ret (option_map (fun r => XPtr (fst r)) (decm t' c))
  | GSlice t', CSlice l => ret (option_map (XSlice false) (oall (map (fun e => option_map fst (decm t' e)) l)))
  | GArray n t', CSlice l =>
      if Nat.leb (length l) n
      then ret (option_map (fun r => XArr (r ++ repeat (zero t') (n - length l))) (oall (map (fun e => option_map fst (decm t' e)) l)))
      else None
  | GMap t', CMap l =>
      ret (option_map (XMap false)
             (oall (map (fun kv => option_map (fun r => (fst kv, fst r)) (decm t' (snd kv))) l)))
  | GStruct fs, CMap m =>
      match dec_fields (fun t0 c0 => decm t0 c0) fs m with
      | Some (ovs, m1) =>
          match dec_fill (fun t0 c0 => decm t0 c0) fs ovs m1 with
          | Some vs => Some (XStruct vs, if has_inline_map fs then [] else m1)
          | None => None
          end
      | None => None
      end
  | GAny, _ => ret (Some (dyn_of c))
  | GMap _, CNil => ret (Some (XMap true []))
  | GStruct fs, CNil => ret (Some (zero (GStruct fs)))
  | _, _ => None
  end.

Definition dec (t : gty) (c : cval) : option gval := option_map fst (decm t c).
