(* Correspondence checker for C17: the members' behaviour is tabulated by probing each member of the
   real group alone; the model's group algorithm is then run over the table along an observed history
   of decodes on a cold decoder and must reproduce every observed result. *)
From Coq Require Import List NArith ZArith Bool.
From Uf Require Import Codec.Group.
Import ListNotations.

(* Synthetic members: member j on value v answers [fst] and, when [snd] = w <> 0, overwrites the target
   with (7 * t + w) mod 1000 before answering (members may write before they fail, as the real ones do).
   The harness builds a real encoding.DecoderGroup from the same table. *)
Record c17case := mk17 {
  c17table : list (list (answer * nat));    (* per member, per value index *)
  c17kinds : list nat;                      (* per value index: the source's type id *)
  c17history : list (nat * (nat * answer))  (* value index decoded into a target holding 1; observed (target, answer) *)
}.

Definition table_member (row : list (answer * nat)) : member nat nat :=
  fun v t =>
    let '(a, w) := nth v row (AUnsupported, 0) in
    ((if Nat.eqb w 0 then t else (7 * t + w) mod 1000), a).

Fixpoint c17run (ms : list (member nat nat)) (kinds : list nat) (c : cache nat)
                (h : list (nat * (nat * answer))) : bool :=
  match h with
  | [] => true
  | (v, (rid, a)) :: rest =>
      let '(t', a', c') := g_decode nat nat nat (fun v => nth v kinds 0) Nat.eqb ms c v 1 in
      Nat.eqb t' rid && answer_eqb a' a && c17run ms kinds c' rest
  end.

Definition c17ok (c : c17case) : bool :=
  c17run (map table_member (c17table c)) (c17kinds c) [] (c17history c).

Fixpoint mismatches_from {A} (ok : A -> bool) (i : nat) (l : list A) : list nat :=
  match l with
  | [] => []
  | c :: t => if ok c then mismatches_from ok (S i) t else i :: mismatches_from ok (S i) t
  end.
Definition mismatches {A} (ok : A -> bool) (l : list A) : list nat := mismatches_from ok 0 l.
