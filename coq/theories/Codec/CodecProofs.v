(* Round trip of the value codec (C16): for every type without inline fields and every well-formed
   value of it, Marshal succeeds, Unmarshal of the result into a fresh value succeeds, the decoded
   value encodes to the same engine value, and - for types without open fields - it is the
   canonical form of the original. *)
From Coq Require Import List Arith NArith ZArith Bool Lia.
From Uf Require Import Codec.Codec Codec.CodecMaps Codec.CodecDyn.
Import ListNotations.

(* ---- induction principle for Go values ---- *)
Section GvalInd.
  Variable P : gval -> Prop.
  Hypothesis Hbool : forall b, P (XBool b).
  Hypothesis Hint : forall z, P (XInt z).
  Hypothesis Huint : forall z, P (XUint z).
  Hypothesis Hf32 : forall b, P (XF32 b).
  Hypothesis Hf64 : forall b, P (XF64 b).
  Hypothesis Hstr : forall s, P (XStr s).
  Hypothesis Hbytes : forall n s, P (XBytes n s).
  Hypothesis Htime : forall ns u, P (XTime ns u).
  Hypothesis Htime0 : P XTime0.
  Hypothesis Hdur : forall ns, P (XDur ns).
  Hypothesis Hnil : P XNil.
  Hypothesis Hptr : forall v, P v -> P (XPtr v).
  Hypothesis Hslice : forall n l, Forall P l -> P (XSlice n l).
  Hypothesis Harr : forall l, Forall P l -> P (XArr l).
  Hypothesis Hmap : forall n l, Forall (fun kv => P (snd kv)) l -> P (XMap n l).
  Hypothesis Hstruct : forall l, Forall P l -> P (XStruct l).
  Hypothesis Hdyn : forall t v, P v -> P (XDyn t v).

  Fixpoint gval_ind2 (v : gval) : P v :=
    let go := fix go (l : list gval) : Forall P l :=
                match l with [] => Forall_nil _ | x :: r => Forall_cons x (gval_ind2 x) (go r) end in
    match v with
    | XBool b => Hbool b | XInt z => Hint z | XUint z => Huint z | XF32 b => Hf32 b | XF64 b => Hf64 b
    | XStr s => Hstr s | XBytes n s => Hbytes n s | XTime ns u => Htime ns u | XTime0 => Htime0 | XDur ns => Hdur ns
    | XNil => Hnil
    | XPtr v' => Hptr v' (gval_ind2 v')
    | XSlice n l => Hslice n l (go l)
    | XArr l => Harr l (go l)
    | XMap n l => Hmap n l ((fix gom (l : list (list N * gval)) : Forall (fun kv => P (snd kv)) l :=
                              match l with [] => Forall_nil _ | kv :: r => Forall_cons kv (gval_ind2 (snd kv)) (gom r) end) l)
    | XStruct l => Hstruct l (go l)
    | XDyn t v' => Hdyn t v' (gval_ind2 v')
    end.
End GvalInd.

(* ---- the fragment and the well-formed values ---- *)
Fixpoint noinline (t : gty) : bool :=
  match t with
  | GPtr t' | GSlice t' | GArray _ t' | GMap t' => noinline t'
  | GStruct fs =>
      (fix go (fs : list (list N * gty * fmode)) : bool :=
         match fs with
         | [] => true
         | (_, ft, md) :: r => match md with FInline => false | _ => true end && noinline ft && go r
         end) fs
  | _ => true
  end.

Fixpoint noany (t : gty) : bool :=
  match t with
  | GAny | GUnknown => false
  | GPtr t' | GSlice t' | GArray _ t' | GMap t' => noany t'
  | GStruct fs =>
      (fix go (fs : list (list N * gty * fmode)) : bool :=
         match fs with [] => true | (_, ft, _) :: r => noany ft && go r end) fs
  | _ => true
  end.

Fixpoint nullish (v : gval) : bool := match v with XNil => true | XPtr v' => nullish v' | _ => false end.

Fixpoint keys_sorted (ks : list (list N)) : bool :=
  match ks with
  | [] => true
  | k :: r => match r with [] => true | k' :: _ => match key_cmp k k' with Lt => true | _ => false end end && keys_sorted r
  end.

Fixpoint keys_nodup (ks : list (list N)) : bool :=
  match ks with [] => true | k :: r => negb (existsb (key_eqb k) r) && keys_nodup r end.

(* the types an open value may hold: not a pointer, not open itself *)
Definition dyn_ok (t : gty) : bool := match t with GAny | GUnknown | GPtr _ => false | _ => true end.

Section WfFields.
  Variable W : gty -> gval -> bool.
  Fixpoint wf_fields (fs : list (list N * gty * fmode)) (vs : list gval) {struct vs} : bool :=
    match fs, vs with
    | [], [] => true
    | (_, ft, _) :: fs', fv :: vs' => W ft fv && wf_fields fs' vs'
    | _, _ => false
    end.
End WfFields.

Definition ms : Z := 1000000.

Fixpoint wf (t : gty) (v : gval) {struct v} : bool :=
  match t, v with
  | GBool, XBool _ | GF32, XF32 _ | GF64, XF64 _ | GString, XStr _ | GBytes, XBytes _ _ => true
  | GInt w, XInt z => int_ok w z
  | GUint w, XUint z => uint_ok w z
  | GTime, XTime ns _ => negb (Z.eqb (ns / ms) zero_time_ms)     (* not within a millisecond of the zero time *)
  | GTime, XTime0 => true
  | GDur, XDur ns => Z.eqb ns 0 || negb (Z.eqb (Z.quot ns ms) 0)   (* zero, or at least a millisecond *)
  | GPtr _, XNil => true
  | GPtr t', XPtr v' => wf t' v' && negb (nullish v')              (* no pointer to a null *)
  | GSlice t', XSlice _ l => forallb (wf t') l
  | GArray n t', XArr l => Nat.eqb (length l) n && forallb (wf t') l
  | GMap t', XMap _ l => keys_sorted (map fst l) && forallb (fun kv => wf t' (snd kv)) l
  | GStruct fs, XStruct vs => keys_nodup (map (fun f => fst (fst f)) fs) && wf_fields (fun t0 v0 => wf t0 v0) fs vs
  | GAny, XNil => true
  | GAny, XDyn t' v' => dyn_ok t' && noinline t' && wf t' v'
  | _, _ => false
  end.

(* ---- the canonical form a value comes back in (types without open fields) ---- *)
Section CanonFields.
  Variable C : gty -> gval -> gval.
  Fixpoint canon_fields (fs : list (list N * gty * fmode)) (vs : list gval) {struct vs} : list gval :=
    match fs, vs with
    | (_, ft, md) :: fs', fv :: vs' =>
        (match md with FOmit => if is_zero fv then zero ft else C ft fv | _ => C ft fv end) :: canon_fields fs' vs'
    | _, _ => []
    end.
End CanonFields.

Fixpoint canon (t : gty) (v : gval) {struct v} : gval :=
  match t, v with
  | GBytes, XBytes _ s => XBytes false s
  | GTime, XTime ns _ => XTime (ns / ms * ms) true
  | GDur, XDur ns => XDur (Z.quot ns ms * ms)
  | GPtr t', XPtr v' => XPtr (canon t' v')
  | GSlice t', XSlice _ l => XSlice false (map (canon t') l)
  | GArray _ t', XArr l => XArr (map (canon t') l)
  | GMap t', XMap _ l => XMap false (map (fun kv => (fst kv, canon t' (snd kv))) l)
  | GStruct fs, XStruct vs => XStruct (canon_fields (fun t0 v0 => canon t0 v0) fs vs)
  | _, _ => v
  end.

(* ---- induction principle for types ---- *)
Section GtyInd.
  Variable P : gty -> Prop.
  Hypothesis Hb : P GBool. Hypothesis Hi : forall w, P (GInt w). Hypothesis Hu : forall w, P (GUint w).
  Hypothesis H32 : P GF32. Hypothesis H64 : P GF64. Hypothesis Hs : P GString. Hypothesis Hby : P GBytes.
  Hypothesis Ht : P GTime. Hypothesis Hd : P GDur.
  Hypothesis Hp : forall t, P t -> P (GPtr t).
  Hypothesis Hsl : forall t, P t -> P (GSlice t).
  Hypothesis Har : forall n t, P t -> P (GArray n t).
  Hypothesis Hm : forall t, P t -> P (GMap t).
  Hypothesis Hst : forall fs, Forall (fun f => P (snd (fst f))) fs -> P (GStruct fs).
  Hypothesis Ha : P GAny. Hypothesis Hun : P GUnknown.
  Fixpoint gty_ind2 (t : gty) : P t :=
    match t with
    | GBool => Hb | GInt w => Hi w | GUint w => Hu w | GF32 => H32 | GF64 => H64 | GString => Hs | GBytes => Hby
    | GTime => Ht | GDur => Hd
    | GPtr t' => Hp t' (gty_ind2 t') | GSlice t' => Hsl t' (gty_ind2 t') | GArray n t' => Har n t' (gty_ind2 t')
    | GMap t' => Hm t' (gty_ind2 t')
    | GStruct fs => Hst fs ((fix go (fs : list (list N * gty * fmode)) : Forall (fun f => P (snd (fst f))) fs :=
                               match fs with [] => Forall_nil _ | f :: r => Forall_cons f (gty_ind2 (snd (fst f))) (go r) end) fs)
    | GAny => Ha | GUnknown => Hun
    end.
End GtyInd.

Lemma is_zero_zero : forall t, is_zero (zero t) = true.
Proof.
  induction t using gty_ind2; cbn; auto.
  - induction n; cbn; auto. rewrite IHt. exact IHn.
  - induction H as [|f fs Hf Hfs IH]; cbn; auto. rewrite Hf. exact IH.
Qed.

(* ---- a non-null value never encodes as null ---- *)
Lemma dyn_ok_nonnull t v : dyn_ok t = true -> wf t v = true -> nullish v = false.
Proof. destruct t, v; cbn; intros; try discriminate; auto. Qed.

Lemma enc_nonnull : forall v t c, wf t v = true -> nullish v = false -> enc t v = Some c -> c <> CNil.
Proof.
  induction v as [| | | | | | | | | | |v IHv| | | | |dt v IHv]; intros t c Hw Hn He; destruct t; cbn in Hw, He; try discriminate; try (injection He as <-; discriminate).
  - (* pointer *) apply andb_true_iff in Hw as [Hw _]. cbn in Hn. eapply IHv; eauto.
  - (* slice *) destruct (oall _); cbn in He; [injection He as <-; discriminate | discriminate].
  - (* array *) destruct (oall _); cbn in He; [injection He as <-; discriminate | discriminate].
  - (* map *) destruct (oall _); cbn in He; [injection He as <-; discriminate | discriminate].
  - (* struct *) destruct (enc_fields _ _ _ _); cbn in He; [injection He as <-; discriminate | discriminate].
  - (* open value *)
    apply andb_true_iff in Hw as [Hw Hw2]. apply andb_true_iff in Hw as [Hd Hni].
    assert (E : enc dt v = Some c) by (destruct dt; auto; discriminate).
    eapply IHv; eauto. eapply dyn_ok_nonnull; eauto.
Qed.

Lemma decm_ptr t c : c <> CNil -> decm (GPtr t) c = option_map (fun v => (v, [])) (option_map (fun r => XPtr (fst r)) (decm t c)).
Proof. destruct c; intros H; try reflexivity. contradiction. Qed.

(* ---- what the theorem says of one value ---- *)
Definition RT (t : gty) (v : gval) : Prop :=
  exists c v' r, enc t v = Some c /\ cok c /\ decm t c = Some (v', r) /\ enc t v' = Some c
    /\ (c = CNil -> v' = zero t) /\ (is_zero v = false -> is_zero v' = false)
    /\ (noany t = true -> v' = canon t v).

Lemma list_rt t l : Forall (RT t) l ->
  exists cs vs', oall (map (enc t) l) = Some cs /\ Forall cok cs
    /\ oall (map (fun e => option_map fst (decm t e)) cs) = Some vs'
    /\ oall (map (enc t) vs') = Some cs
    /\ Forall2 (fun v v' => is_zero v = false -> is_zero v' = false) l vs'
    /\ (noany t = true -> vs' = map (canon t) l)
    /\ length cs = length l.
Proof.
  induction 1 as [|x l Hx Hl IH].
  - exists [], []. cbn. repeat split; auto.
  - destruct Hx as [c [v' [r [E1 [Hc [D1 [E2 [_ [Z1 C1]]]]]]]]].
    destruct IH as [cs [vs' [A [B [C [D [F [G L]]]]]]]].
    exists (c :: cs), (v' :: vs'). cbn. rewrite E1, A, D1, C, E2, D. cbn.
    repeat split; auto. intros Hna. rewrite C1, G; auto.
Qed.

Definition cval_is_nil (c : cval) : bool := match c with CNil => true | _ => false end.
Lemma cval_is_nil_true c : cval_is_nil c = true -> c = CNil. Proof. destruct c; cbn; auto; discriminate. Qed.
Lemma cval_is_nil_false c : cval_is_nil c = false -> c <> CNil. Proof. destruct c; cbn; try discriminate; intros _ H; discriminate. Qed.

(* ---- structs (named fields, with and without omitempty) ---- *)
Definition keys (fs : list (list N * gty * fmode)) : list (list N) := map (fun f => fst (fst f)) fs.

Lemma keys_nodup_head k r : keys_nodup (k :: r) = true -> ~ In k r /\ keys_nodup r = true.
Proof.
  cbn. intros H. apply andb_true_iff in H as [H1 H2]. split; auto. intros Hin.
  apply negb_true_iff in H1. assert (existsb (key_eqb k) r = true); [|congruence].
  apply existsb_exists. exists k. split; auto. apply key_eqb_refl.
Qed.

Lemma mset_forall {V} (P : V -> Prop) k v (m : list (list N * V)) :
  P v -> Forall (fun kv => P (snd kv)) m -> Forall (fun kv => P (snd kv)) (mset k v m).
Proof.
  intros Hv. induction 1 as [|[k0 v0] m H0 Hm IH]; cbn.
  - constructor; auto.
  - destruct (key_cmp k k0); constructor; auto.
Qed.

Section Fields.
  Variable E : gty -> gval -> option cval.
  Variable D : gty -> cval -> option (gval * list (list N * cval)).

  Definition decode_ok (ft : gty) (c : cval) (v' : gval) : Prop :=
    (c = CNil -> v' = zero ft) /\ (c <> CNil -> exists r, D ft c = Some (v', r)).

  Inductive frel : list (list N * gty * fmode) -> list gval -> list gval -> Prop :=
  | frel_nil : frel [] [] []
  | frel_enc k ft md fs v vs v' vs' c :
      md <> FInline -> (md = FOmit -> is_zero v = false) ->
      E ft v = Some c -> cok c -> E ft v' = Some c -> decode_ok ft c v' ->
      (is_zero v = false -> is_zero v' = false) ->
      frel fs vs vs' -> frel ((k, ft, md) :: fs) (v :: vs) (v' :: vs')
  | frel_omit k ft fs v vs vs' :
      is_zero v = true -> frel fs vs vs' -> frel ((k, ft, FOmit) :: fs) (v :: vs) (zero ft :: vs').

  Lemma frel_nonzero fs vs vs' : frel fs vs vs' -> forallb is_zero vs = false -> forallb is_zero vs' = false.
  Proof.
    induction 1 as [|k ft md fs v vs v' vs' c _ _ _ _ _ _ Hz _ IH|k ft fs v vs vs' Hz _ IH]; cbn; auto.
    - destruct (is_zero v) eqn:Zv; cbn.
      + intros H. rewrite (IH H). apply andb_false_r.
      + intros _. rewrite (Hz eq_refl). reflexivity.
    - rewrite Hz. cbn. intros H. rewrite (IH H). apply andb_false_r.
  Qed.

  Lemma fields_main fs vs vs' : frel fs vs vs' -> keys_nodup (keys fs) = true ->
    forall m, (forall k, In k (keys fs) -> mget k m = None) -> sorted m -> Forall (fun kv => cok (snd kv)) m ->
    exists mf, enc_fields E fs vs m = Some mf /\ enc_fields E fs vs' m = Some mf
      /\ sorted mf /\ Forall (fun kv => cok (snd kv)) mf
      /\ (forall k, ~ In k (keys fs) -> mget k mf = mget k m)
      /\ (forall M, (forall k, In k (keys fs) -> mget k M = mget k mf) ->
          exists M', dec_fields D fs M = Some (map Some vs', M')).
  Proof.
    induction 1 as [|k ft md fs v vs v' vs' c Hmd Hom Ev Hc Ev' Hdec Hz _ IH|k ft fs v vs vs' Hz _ IH];
      intros Hnd m Hfresh Hs Hcok.
    - exists m. cbn. repeat split; auto. intros M _. exists M. reflexivity.
    - cbn [keys map fst] in Hnd. apply keys_nodup_head in Hnd as [Hk Hnd].
      destruct (IH Hnd (mset k c m)) as [mf [A [B [C [F [G H]]]]]].
      + intros k' Hk'. rewrite mget_mset. replace (key_eqb k' k) with false.
        * apply Hfresh. right. exact Hk'.
        * symmetry. apply key_eqb_neq. intros ->. contradiction.
      + apply mset_sorted, Hs.
      + apply mset_forall; auto.
      + assert (Hkmf : mget k mf = Some c).
        { rewrite (G k Hk), mget_mset, key_eqb_refl. reflexivity. }
        exists mf. repeat split; auto.
        * cbn [enc_fields]. destruct md; try contradiction; rewrite ?(Hom eq_refl), Ev; exact A.
        * cbn [enc_fields]. destruct md; try contradiction; rewrite ?(Hz (Hom eq_refl)), Ev'; exact B.
        * intros k' Hk'. rewrite G by (intros Hin; apply Hk'; right; exact Hin). rewrite mget_mset.
          replace (key_eqb k' k) with false; auto. symmetry. apply key_eqb_neq. intros ->. apply Hk'. left. reflexivity.
        * intros M HM. pose proof (HM k (or_introl eq_refl)) as HkM. rewrite Hkmf in HkM.
          destruct (H (mdel k M)) as [M' HM'].
          { intros k' Hk'. rewrite mget_mdel. replace (key_eqb k' k) with false.
            - apply HM. right. exact Hk'.
            - symmetry. apply key_eqb_neq. intros ->. contradiction. }
          exists M'. cbn [dec_fields map]. destruct Hdec as [Hd0 Hd1].
          assert (Hgo : match mget k M with
                        | None => match dec_fields D fs M with Some (vs0, m') => Some (Some (zero ft) :: vs0, m') | None => None end
                        | Some CNil => match dec_fields D fs (mdel k M) with Some (vs0, m') => Some (Some (zero ft) :: vs0, m') | None => None end
                        | Some c' => match D ft c' with
                                     | Some (v0, _) => match dec_fields D fs (mdel k M) with Some (vs0, m') => Some (Some v0 :: vs0, m') | None => None end
                                     | None => None end
                        end = Some (Some v' :: map Some vs', M')).
          { rewrite HkM. destruct (cval_is_nil c) eqn:Nc.
            - apply cval_is_nil_true in Nc. subst c. rewrite HM', (Hd0 eq_refl). reflexivity.
            - apply cval_is_nil_false in Nc. destruct (Hd1 Nc) as [r Hr].
              destruct c; try contradiction; rewrite Hr, HM'; reflexivity. }
          destruct md; try contradiction; exact Hgo.
    - cbn [keys map fst] in Hnd. apply keys_nodup_head in Hnd as [Hk Hnd].
      destruct (IH Hnd m) as [mf [A [B [C [F [G H]]]]]]; auto.
      { intros k' Hk'. apply Hfresh. right. exact Hk'. }
      assert (Hkmf : mget k mf = None).
      { rewrite (G k Hk). apply Hfresh. left. reflexivity. }
      exists mf. repeat split; auto.
      + cbn [enc_fields]. rewrite Hz. exact A.
      + cbn [enc_fields]. rewrite is_zero_zero. exact B.
      + intros k' Hk'. apply G. intros Hin. apply Hk'. right. exact Hin.
      + intros M HM. pose proof (HM k (or_introl eq_refl)) as HkM. rewrite Hkmf in HkM.
        destruct (H M) as [M' HM'].
        { intros k' Hk'. apply HM. right. exact Hk'. }
        exists M'. cbn [dec_fields map]. rewrite HkM, HM'. reflexivity.
  Qed.

  Lemma dec_fill_some fs : forall vs rest, length vs = length fs -> dec_fill D fs (map Some vs) rest = Some vs.
  Proof.
    induction fs as [|[[k ft] md] fs IH]; intros [|v vs] rest L; cbn in *; try discriminate; auto.
    rewrite IH by lia. reflexivity.
  Qed.

  Lemma frel_length fs vs vs' : frel fs vs vs' -> length vs' = length fs.
  Proof. induction 1; cbn; auto. Qed.
End Fields.

(* ---- the main induction ---- *)
Lemma noinline_struct k ft md r :
  noinline (GStruct ((k, ft, md) :: r)) = match md with FInline => false | _ => true end && noinline ft && noinline (GStruct r).
Proof. reflexivity. Qed.
Lemma noany_struct k ft md r : noany (GStruct ((k, ft, md) :: r)) = noany ft && noany (GStruct r).
Proof. reflexivity. Qed.

Definition enc' := fun t0 v0 => enc t0 v0.
Definition decm' := fun t0 c0 => decm t0 c0.

Lemma build_frel : forall fs vs,
  Forall (fun x => forall t, wf t x = true -> noinline t = true -> RT t x) vs ->
  wf_fields (fun t0 v0 => wf t0 v0) fs vs = true -> noinline (GStruct fs) = true ->
  exists vs', frel enc' decm' fs vs vs'
    /\ (noany (GStruct fs) = true -> vs' = canon_fields (fun t0 v0 => canon t0 v0) fs vs).
Proof.
  induction fs as [|[[k ft] md] fs IH]; intros [|v vs] HF Hw Hn; cbn in Hw; try discriminate.
  - exists []. split; [constructor | reflexivity].
  - inversion HF as [|? ? Hv HF']; subst. apply andb_true_iff in Hw as [Hwv Hw].
    rewrite noinline_struct in Hn. apply andb_true_iff in Hn as [Hn Hnr]. apply andb_true_iff in Hn as [Hmd Hnt].
    destruct (IH vs HF' Hw Hnr) as [vs' [Fr Cn]].
    destruct (Hv ft Hwv Hnt) as [c [v' [r [E1 [Hc [D1 [E2 [N1 [Z1 C1]]]]]]]]].
    assert (Hgen : (md = FOmit -> is_zero v = false) ->
                   frel enc' decm' ((k, ft, md) :: fs) (v :: vs) (v' :: vs')).
    { intros Hom. eapply frel_enc; eauto.
      - intros ->. discriminate.
      - split; auto. intros _. exists r. exact D1. }
    destruct md; try discriminate.
    + exists (v' :: vs'). split; [apply Hgen; discriminate|].
      rewrite noany_struct. intros Ha. apply andb_true_iff in Ha as [Ha1 Ha2]. cbn [canon_fields]. rewrite C1, Cn; auto.
    + destruct (is_zero v) eqn:Zv.
      * exists (zero ft :: vs'). split; [apply frel_omit; auto|].
        rewrite noany_struct. intros Ha. apply andb_true_iff in Ha as [Ha1 Ha2]. cbn [canon_fields]. rewrite Zv, Cn; auto.
      * exists (v' :: vs'). split; [apply Hgen; auto|].
        rewrite noany_struct. intros Ha. apply andb_true_iff in Ha as [Ha1 Ha2]. cbn [canon_fields]. rewrite Zv, C1, Cn; auto.
Qed.

Lemma keys_sorted_sorted {V} (l : list (list N * V)) : keys_sorted (map fst l) = true -> sorted l.
Proof.
  induction l as [|[k v] l IH]; cbn; auto. destruct l as [|[k1 v1] l]; cbn in *; auto.
  intros H. apply andb_true_iff in H as [H1 H2]. destruct (key_cmp k k1) eqn:C; try discriminate. split; auto.
Qed.

Lemma map_rt t l : Forall (fun kv : list N * gval => RT t (snd kv)) l ->
  exists cs vs', oall (map (fun kv => option_map (fun c => (fst kv, c)) (enc t (snd kv))) l) = Some cs
    /\ map fst cs = map fst l /\ Forall (fun kv => cok (snd kv)) cs
    /\ oall (map (fun kv => option_map (fun r => (fst kv, fst r)) (decm t (snd kv))) cs) = Some vs'
    /\ map fst vs' = map fst l
    /\ oall (map (fun kv => option_map (fun c => (fst kv, c)) (enc t (snd kv))) vs') = Some cs
    /\ (noany t = true -> vs' = map (fun kv => (fst kv, canon t (snd kv))) l).
Proof.
  induction 1 as [|[k x] l Hx Hl IH].
  - exists [], []. cbn. repeat split; auto.
  - destruct Hx as [c [v' [r [E1 [Hc [D1 [E2 [_ [Z1 C1]]]]]]]]]. cbn [snd] in *.
    destruct IH as [cs [vs' [A [B [C [D [F [G H]]]]]]]].
    exists ((k, c) :: cs), ((k, v') :: vs'). cbn. rewrite E1, A, D1, D, E2, G. cbn.
    repeat split; auto; try (f_equal; auto). intros Hna. rewrite C1, H; auto.
Qed.

Theorem roundtrip : forall v t, wf t v = true -> noinline t = true -> RT t v.
Proof.
  induction v as [b|z|z|b|b|s|n s|ns u| |ns| |v IHv|n l IH|l IH|n l IH|l IH|dt v IHv] using gval_ind2;
    intros t Hw Hn; destruct t; cbn in Hw; try discriminate Hw.
  - exists (CBool b), (XBool b), []. cbn. repeat split; auto; discriminate.
  - exists (CInt w z), (XInt z), []. cbn. rewrite Hw. repeat split; auto; discriminate.
  - exists (CUint w z), (XUint z), []. cbn. rewrite Hw. repeat split; auto; discriminate.
  - exists (CF32 b), (XF32 b), []. cbn. repeat split; auto; discriminate.
  - exists (CF64 b), (XF64 b), []. cbn. repeat split; auto; discriminate.
  - exists (CStr s), (XStr s), []. cbn. repeat split; auto; discriminate.
  - exists (CBin s), (XBytes false s), []. cbn. repeat split; auto; discriminate.
  - (* time *)
    apply negb_true_iff in Hw. exists (CInt W64 (ns / ms)), (XTime (ns / ms * ms) true), [].
    cbn [enc decm option_map]. change 1000000%Z with ms. change ms_ns with ms. rewrite Hw. cbn [option_map].
    rewrite Z.div_mul by (unfold ms; lia). repeat split; auto; discriminate.
  - exists (CInt W64 zero_time_ms), XTime0, []. cbn. repeat split; auto; discriminate.
  - (* duration *)
    exists (CInt W64 (Z.quot ns ms)), (XDur (Z.quot ns ms * ms)), [].
    cbn [enc decm option_map]. change 1000000%Z with ms. change ms_ns with ms.
    rewrite Z.quot_mul by (unfold ms; lia). repeat split; auto; try discriminate.
    cbn. intros Hz. apply orb_true_iff in Hw as [Hw|Hw]; [congruence|].
    apply negb_true_iff, Z.eqb_neq in Hw. apply Z.eqb_neq. unfold ms in *. lia.
  - (* nil pointer *) exists CNil, XNil, []. cbn. repeat split; auto; discriminate.
  - (* nil open value *) exists CNil, XNil, []. cbn. repeat split; auto; discriminate.
  - (* pointer *)
    apply andb_true_iff in Hw as [Hw Hnn]. apply negb_true_iff in Hnn. cbn in Hn.
    destruct (IHv t Hw Hn) as [c [v' [r [E1 [Hc [D1 [E2 [N1 [Z1 C1]]]]]]]]].
    pose proof (enc_nonnull v t c Hw Hnn E1) as Hnc.
    exists c, (XPtr v'), []. cbn [enc]. rewrite decm_ptr, D1 by exact Hnc. cbn.
    repeat split; auto; try contradiction. intros Ha. rewrite C1; auto.
  - (* slice *)
    cbn in Hn. rewrite forallb_forall in Hw.
    assert (HF : Forall (RT t) l).
    { rewrite Forall_forall in IH |- *. intros x Hx. apply IH; auto. }
    destruct (list_rt t l HF) as [cs [vs' [A [B [C [D [F [G L]]]]]]]].
    exists (CSlice cs), (XSlice false vs'), []. cbn [enc decm option_map]. rewrite A, C. cbn [option_map]. rewrite D. cbn.
    repeat split; auto; try discriminate.
    + apply cok_slice, B.
    + intros Ha. rewrite G; auto.
  - (* array *)
    cbn in Hn. apply andb_true_iff in Hw as [Hlen Hw]. apply Nat.eqb_eq in Hlen. rewrite forallb_forall in Hw.
    assert (HF : Forall (RT t) l).
    { rewrite Forall_forall in IH |- *. intros x Hx. apply IH; auto. }
    destruct (list_rt t l HF) as [cs [vs' [A [B [C [D [F [G L]]]]]]]].
    exists (CSlice cs), (XArr vs'), []. cbn [enc decm option_map]. rewrite A. cbn [option_map].
    rewrite L, Hlen, Nat.leb_refl, C. cbn [option_map]. rewrite Nat.sub_diag. cbn [repeat]. rewrite app_nil_r, D. cbn.
    repeat split; auto; try discriminate.
    + apply cok_slice, B.
    + clear - F. induction F as [|a b l l' Hab _ IHF]; cbn; auto.
      destruct (is_zero a) eqn:Za; cbn.
      * intros H. rewrite (IHF H). apply andb_false_r.
      * intros _. rewrite (Hab eq_refl). reflexivity.
    + intros Ha. rewrite G; auto.
  - (* map *)
    cbn in Hn. apply andb_true_iff in Hw as [Hks Hw]. rewrite forallb_forall in Hw.
    assert (HF : Forall (fun kv : list N * gval => RT t (snd kv)) l).
    { rewrite Forall_forall in IH |- *. intros x Hx. apply IH; auto. }
    destruct (map_rt t l HF) as [cs [vs' [A [B [C [D [F [G H]]]]]]]].
    assert (Hsc : sorted cs) by (apply keys_sorted_sorted; rewrite B; exact Hks).
    exists (CMap cs), (XMap false vs'), []. cbn [enc decm option_map]. rewrite A. cbn [option_map].
    rewrite mset_all_id by exact Hsc. rewrite D. cbn [option_map]. rewrite G. cbn [option_map]. rewrite mset_all_id by exact Hsc.
    repeat split; auto; try discriminate.
    + apply cok_map. auto.
    + intros Ha. rewrite H; auto.
  - (* struct *)
    apply andb_true_iff in Hw as [Hnd Hw].
    destruct (build_frel fs l IH Hw Hn) as [vs' [Fr Cn]].
    destruct (fields_main enc' decm' fs l vs' Fr Hnd [] (fun _ _ => eq_refl) I (Forall_nil _)) as [mf [A [B [C [F [G H]]]]]].
    destruct (H mf (fun _ _ => eq_refl)) as [M' HM'].
    exists (CMap mf), (XStruct vs'), (if has_inline_map fs then [] else M').
    cbn [enc decm]. fold enc'. fold decm'. rewrite A, B, HM'. cbn [option_map].
    rewrite (dec_fill_some decm' fs vs' M' (frel_length _ _ _ _ _ Fr)).
    repeat split; auto; try discriminate.
    + apply cok_map. auto.
    + cbn. apply (frel_nonzero _ _ _ _ _ Fr).
    + intros Ha. cbn [canon]. rewrite (Cn Ha). reflexivity.
  - (* open value *)
    apply andb_true_iff in Hw as [Hw Hwv]. apply andb_true_iff in Hw as [Hd Hni].
    destruct (IHv dt Hwv Hni) as [c [v' [r [E1 [Hc [D1 [E2 [N1 [Z1 C1]]]]]]]]].
    assert (E : enc GAny (XDyn dt v) = Some c) by (destruct dt; auto; discriminate).
    pose proof (enc_nonnull v dt c Hwv (dyn_ok_nonnull dt v Hd Hwv) E1) as Hnc.
    exists c, (dyn_of c), []. rewrite E.
    assert (Hdec : decm GAny c = Some (dyn_of c, [])) by (destruct c; reflexivity).
    rewrite Hdec. repeat split; auto; try contradiction; try discriminate.
    + apply dyn_roundtrip, Hc.
    + intros _. destruct c; try reflexivity; try contradiction.
Qed.
