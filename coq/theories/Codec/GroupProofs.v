(* C17: with members whose rejection is determined by the source type, DecoderGroup.Decode is a
   function of the value and the target alone - the success cache never changes a result. *)
From Coq Require Import List NArith ZArith Bool Lia.
From Uf Require Import Codec.Group.
Import ListNotations.

Section Pure.
  Variables (V T K : Type).
  Variable kind : V -> K.
  Variable K_eqb : K -> K -> bool.
  Hypothesis K_eqb_spec : forall a b, K_eqb a b = true <-> a = b.
  Variable members : list (member V T).

  (* kind-determined rejection: whether member i answers ErrUnsupportedType depends on the source
     type only, and a member that does so leaves the target untouched *)
  Variable sup : nat -> K -> bool.
  Hypothesis Hsup : forall i d, nth_error members i = Some d -> forall v t,
    (snd (d v t) = AUnsupported <-> sup i (kind v) = false) /\ (sup i (kind v) = false -> fst (d v t) = t).

  Fixpoint first_sup_from (n : nat) (i : nat) (k : K) : option nat :=
    match n with
    | O => None
    | S n' => if sup i k then Some i else first_sup_from n' (S i) k
    end.
  Definition first_sup (k : K) : option nat := first_sup_from (length members) 0 k.

  (* the outcome of a cold group: the first member that handles the source type decides *)
  Definition cold (v : V) (t : T) : T * answer :=
    match first_sup (kind v) with
    | None => (t, AUnsupported)
    | Some j => match nth_error members j with Some d => d v t | None => (t, AUnsupported) end
    end.

  Lemma first_sup_from_range n : forall i k j, first_sup_from n i k = Some j -> i <= j < i + n /\ sup j k = true.
  Proof.
    induction n as [|n IH]; intros i k j H; cbn in H; [discriminate|].
    destruct (sup i k) eqn:S.
    - injection H as <-. split; [lia|exact S].
    - destruct (IH _ _ _ H). split; [lia|auto].
  Qed.

  Lemma first_sup_from_min n : forall i k j, first_sup_from n i k = Some j -> forall x, i <= x < j -> sup x k = false.
  Proof.
    induction n as [|n IH]; intros i k j H x Hx; cbn in H; [discriminate|].
    destruct (sup i k) eqn:S.
    - injection H as <-. lia.
    - destruct (Nat.eq_dec x i) as [->|Ne]; auto. apply (IH _ _ _ H). lia.
  Qed.

  (* the member loop without a cached member to skip *)
  Lemma try_cold ms : forall i v t,
    (forall j d, nth_error ms j = Some d -> nth_error members (i + j) = Some d) ->
    try_members V T ms i None v t AUnsupported =
    match first_sup_from (length ms) i (kind v) with
    | None => (t, AUnsupported, None)
    | Some j => match nth_error members j with
                | Some d => let '(t', a) := d v t in (t', a, match a with AOk => Some j | _ => None end)
                | None => (t, AUnsupported, None)
                end
    end.
  Proof.
    induction ms as [|d ms IH]; intros i v t Hm; cbn [try_members length first_sup_from]; auto.
    pose proof (Hm 0 d eq_refl) as Hd. rewrite Nat.add_0_r in Hd.
    destruct (Hsup i d Hd v t) as [A B].
    destruct (sup i (kind v)) eqn:Es.
    - rewrite Hd. destruct (d v t) as [t' a] eqn:E. cbn [snd] in A.
      destruct a; auto. exfalso. assert (true = false) by (apply A; reflexivity). discriminate.
    - destruct (d v t) as [t' a] eqn:E. cbn [fst snd] in *.
      assert (a = AUnsupported) by (apply A; reflexivity). subst a. rewrite (B eq_refl).
      apply IH. intros j d' Hj. replace (Datatypes.S i + j) with (i + Datatypes.S j) by lia. apply Hm. exact Hj.
  Qed.

  Definition cache_ok (c : cache K) : Prop :=
    forall k i, cache_get K K_eqb c k = Some i -> first_sup k = Some i.

  Lemma cache_ok_nil : cache_ok [].
  Proof. intros k i H. discriminate. Qed.

  Lemma K_eqb_refl a : K_eqb a a = true.
  Proof. apply K_eqb_spec. reflexivity. Qed.

  Theorem decode_pure c v t : cache_ok c ->
    let '(t', a, c') := g_decode V T K kind K_eqb members c v t in
    (t', a) = cold v t /\ cache_ok c'.
  Proof.
    intros Hc. unfold g_decode, cold.
    destruct (cache_get K K_eqb c (kind v)) as [i|] eqn:Cg.
    - pose proof (Hc _ _ Cg) as F. rewrite F.
      destruct (first_sup_from_range _ _ _ _ F) as [R S].
      destruct (nth_error members i) as [d|] eqn:N.
      2:{ apply nth_error_None in N. lia. }
      destruct (Hsup i d N v t) as [A _]. destruct (d v t) as [t' a] eqn:E. cbn [snd] in A.
      destruct a; auto. exfalso. assert (true = false) by (rewrite <- S; apply A; reflexivity). discriminate.
    - rewrite (try_cold members 0 v t) by (intros j d Hj; exact Hj).
      fold (first_sup (kind v)). destruct (first_sup (kind v)) as [j|] eqn:F; [|auto].
      destruct (nth_error members j) as [d|] eqn:N; [|auto].
      destruct (d v t) as [t' a] eqn:E. split; auto.
      destruct a; auto. intros k i H. cbn [cache_get] in H.
      destruct (K_eqb k (kind v)) eqn:Ek.
      + injection H as <-. apply K_eqb_spec in Ek. subst. exact F.
      + apply Hc. exact H.
  Qed.

  (* whatever was decoded before, in whatever order: the caches reached are all harmless *)
  Theorem run_cache_ok t0 vs : forall c, cache_ok c -> cache_ok (g_run V T K kind K_eqb members c t0 vs).
  Proof.
    induction vs as [|v vs IH]; intros c H; cbn [g_run]; auto.
    apply IH. pose proof (decode_pure c v t0 H) as P.
    destruct (g_decode V T K kind K_eqb members c v t0) as [[t' a] c']. cbn [snd]. apply P.
  Qed.

  Theorem decode_history_independent warmup1 warmup2 t0 v t :
    let c1 := g_run V T K kind K_eqb members [] t0 warmup1 in
    let c2 := g_run V T K kind K_eqb members [] t0 warmup2 in
    fst (g_decode V T K kind K_eqb members c1 v t) = fst (g_decode V T K kind K_eqb members c2 v t).
  Proof.
    intros c1 c2.
    pose proof (decode_pure c1 v t (run_cache_ok t0 warmup1 [] cache_ok_nil)) as P1.
    pose proof (decode_pure c2 v t (run_cache_ok t0 warmup2 [] cache_ok_nil)) as P2.
    destruct (g_decode V T K kind K_eqb members c1 v t) as [[t1 a1] c1'].
    destruct (g_decode V T K kind K_eqb members c2 v t) as [[t2 a2] c2'].
    cbn [fst]. destruct P1 as [-> _]. destruct P2 as [-> _]. reflexivity.
  Qed.
End Pure.

(* The pinned algorithm was not pure: a two-member group (the first accepts the source type but
   fails on odd values, the second accepts everything) answers differently cold and warm. *)
Definition m_first : member nat nat := fun v t => if Nat.even v then (v, AOk) else (t + 100, AHard 1).
Definition m_second : member nat nat := fun v t => (t + v + 1000, AOk).

Example old_decode_depends_on_cache :
  let ms := [m_first; m_second] in
  let k := fun _ : nat => tt in
  let keq := fun _ _ : unit => true in
  let cold := g_decode_old nat nat unit k keq ms [] 3 0 in
  let warm := g_decode_old nat nat unit k keq ms (snd (g_decode_old nat nat unit k keq ms [] 2 0)) 3 0 in
  fst cold = (100, AHard 1) /\ fst warm = (1103, AOk) /\
  fst (g_decode nat nat unit k keq ms [] 3 0) = fst (g_decode nat nat unit k keq ms (snd (g_decode nat nat unit k keq ms [] 2 0)) 3 0).
Proof. vm_compute. repeat split; reflexivity. Qed.
