(* The generic view of an engine value encodes back to that value (the open-field half of C16). *)
From Coq Require Import List Arith NArith ZArith Bool Lia.
From Uf Require Import Codec.Codec Codec.CodecMaps.
Import ListNotations.

(* ---- induction principles for the nested trees ---- *)
Section CvalInd.
  Variable P : cval -> Prop.
  Hypothesis Hnil : P CNil.
  Hypothesis Hbool : forall b, P (CBool b).
  Hypothesis Hint : forall w z, P (CInt w z).
  Hypothesis Huint : forall w z, P (CUint w z).
  Hypothesis Hf32 : forall b, P (CF32 b).
  Hypothesis Hf64 : forall b, P (CF64 b).
  Hypothesis Hstr : forall s, P (CStr s).
  Hypothesis Hbin : forall s, P (CBin s).
  Hypothesis Hslice : forall l, Forall P l -> P (CSlice l).
  Hypothesis Hmap : forall l, Forall (fun kv => P (snd kv)) l -> P (CMap l).
  Hypothesis Hunk : P CUnknown.

  Fixpoint cval_ind2 (c : cval) : P c :=
    match c with
    | CNil => Hnil | CBool b => Hbool b | CInt w z => Hint w z | CUint w z => Huint w z
    | CF32 b => Hf32 b | CF64 b => Hf64 b | CStr s => Hstr s | CBin s => Hbin s
    | CSlice l => Hslice l ((fix go (l : list cval) : Forall P l :=
                               match l with [] => Forall_nil _ | x :: r => Forall_cons x (cval_ind2 x) (go r) end) l)
    | CMap l => Hmap l ((fix go (l : list (list N * cval)) : Forall (fun kv => P (snd kv)) l :=
                           match l with [] => Forall_nil _ | kv :: r => Forall_cons kv (cval_ind2 (snd kv)) (go r) end) l)
    | CUnknown => Hunk
    end.
End CvalInd.

(* ---- well-formed engine values: no foreign kinds, maps strictly sorted by key ---- *)
Fixpoint cok (c : cval) : Prop :=
  match c with
  | CUnknown => False
  | CSlice l => (fix go (l : list cval) : Prop := match l with [] => True | x :: r => cok x /\ go r end) l
  | CMap l => sorted l /\
              (fix go (l : list (list N * cval)) : Prop := match l with [] => True | kv :: r => cok (snd kv) /\ go r end) l
  | _ => True
  end.

Lemma cok_slice l : cok (CSlice l) <-> Forall cok l.
Proof.
  cbn. induction l as [|x r IH]; split; intros H; auto.
  - destruct H as [H1 H2]. constructor; auto. apply IH, H2.
  - inversion H; subst. split; auto. apply IH. assumption.
Qed.

Lemma cok_map l : cok (CMap l) <-> sorted l /\ Forall (fun kv => cok (snd kv)) l.
Proof.
  cbn. split; intros [Hs H]; split; auto.
  - induction l as [|x r IH]; auto. destruct H as [H1 H2]. constructor; auto. apply IH; auto.
    destruct x as [k0 v0]. eapply sorted_tail. exact Hs.
  - clear Hs. induction H as [|x r Hx Hr IH]; cbn; auto.
Qed.

(* ---- oall ---- *)
Lemma oall_map_some {A B} (f : A -> option B) (g : A -> B) l :
  (forall a, In a l -> f a = Some (g a)) -> oall (map f l) = Some (map g l).
Proof.
  induction l as [|a l IH]; cbn; intros H; auto.
  rewrite (H a (or_introl eq_refl)). rewrite IH; [reflexivity|]. intros x Hx. apply H. right. exact Hx.
Qed.

(* ---- scalar element types ---- *)
Definition flat (t : gty) : bool :=
  match t with GBool | GInt _ | GUint _ | GF32 | GF64 | GString | GBytes => true | _ => false end.

Lemma gty_eqb_flat_eq a b : gty_eqb_flat a b = true -> a = b /\ flat a = true.
Proof.
  destruct a, b; cbn; try discriminate; auto; destruct w, w0; try discriminate; auto.
Qed.

Lemma enc_strip_flat et e : flat et = true -> dyn_ty e = et -> enc et (strip et (dyn_of e)) = Some e.
Proof.
  intros Hf Hd. destruct e; cbn in Hd; subst et; try discriminate Hf; cbn; reflexivity.
Qed.

Lemma union_ty_spec ts : (forall t, In t ts -> t = GAny \/ flat t = true) ->
  union_ty ts = GAny \/ (flat (union_ty ts) = true /\ forall t, In t ts -> t = union_ty ts).
Proof.
  intros Hts. destruct ts as [|t ts]; cbn; auto.
  destruct (forallb (gty_eqb_flat t) ts) eqn:F; auto.
  destruct ts as [|t1 ts].
  - destruct (Hts t (or_introl eq_refl)) as [->|Ft]; auto.
    right. split; auto. intros x [<-|[]]; reflexivity.
  - right. rewrite forallb_forall in F. pose proof (F t1 (or_introl eq_refl)) as E1. apply gty_eqb_flat_eq in E1 as [E1 Ft].
    split; auto. intros x [<-|Hx]; auto. apply F in Hx. apply gty_eqb_flat_eq in Hx. symmetry. apply Hx.
Qed.

Lemma dyn_ty_kinds c : cok c -> dyn_ty c = GAny \/ flat (dyn_ty c) = true.
Proof. destruct c; cbn; auto; try tauto. Qed.

Lemma dyn_of_slice l :
  dyn_of (CSlice l) =
  let et := match union_ty (map dyn_ty l) with GUint W8 => GAny | t => t end in
  XDyn (GSlice et) (XSlice false (map (fun e => strip et (dyn_of e)) l)).
Proof. reflexivity. Qed.

Lemma dyn_of_map l :
  dyn_of (CMap l) =
  let et := union_ty (map (fun kv => dyn_ty (snd kv)) l) in
  XDyn (GMap et) (XMap false (map (fun kv => (fst kv, strip et (dyn_of (snd kv)))) l)).
Proof. reflexivity. Qed.

(* ---- the generic view encodes back ---- *)
Theorem dyn_roundtrip : forall c, cok c -> enc GAny (dyn_of c) = Some c.
Proof.
  induction c as [| | | | | | | |l IH|l IH|] using cval_ind2; intros Hc; try reflexivity.
  - (* lists *)
    apply cok_slice in Hc. rewrite dyn_of_slice. cbv zeta.
    set (et := match union_ty (map dyn_ty l) with GUint W8 => GAny | t => t end).
    assert (Het : et = GAny \/ (flat et = true /\ forall e, In e l -> dyn_ty e = et)).
    { subst et. destruct (union_ty_spec (map dyn_ty l)) as [E|[Ff Hall]].
      - intros t Ht. apply in_map_iff in Ht as [e [<- He]]. apply dyn_ty_kinds. rewrite Forall_forall in Hc. apply Hc, He.
      - rewrite E. auto.
      - destruct (union_ty (map dyn_ty l)) eqn:U; try discriminate Ff; auto;
          try (right; split; auto; intros e He; apply Hall, in_map, He).
        destruct w; auto; right; split; auto; intros e He; apply Hall, in_map, He. }
    assert (Hel : forall e, In e l -> enc et (strip et (dyn_of e)) = Some e).
    { intros e He. destruct Het as [->|[Ff Hall]].
      - cbn [strip]. rewrite Forall_forall in IH, Hc. apply IH; auto.
      - apply enc_strip_flat; auto. }
    assert (Hne : et <> GAny -> True) by auto.
    cbn [enc]. rewrite map_map. rewrite (oall_map_some _ (fun e => e)) by exact Hel. rewrite map_id. reflexivity.
  - (* maps *)
    apply cok_map in Hc as [Hs Hc]. rewrite dyn_of_map. cbv zeta.
    set (et := union_ty (map (fun kv => dyn_ty (snd kv)) l)).
    assert (Het : et = GAny \/ (flat et = true /\ forall kv, In kv l -> dyn_ty (snd kv) = et)).
    { subst et. destruct (union_ty_spec (map (fun kv => dyn_ty (snd kv)) l)) as [E|[Ff Hall]].
      - intros t Ht. apply in_map_iff in Ht as [kv [<- He]]. apply dyn_ty_kinds. rewrite Forall_forall in Hc. apply (Hc kv He).
      - auto.
      - right. split; auto. intros kv He. apply Hall. apply (in_map (fun kv => dyn_ty (snd kv))), He. }
    assert (Hel : forall kv, In kv l -> enc et (strip et (dyn_of (snd kv))) = Some (snd kv)).
    { intros kv He. destruct Het as [->|[Ff Hall]].
      - cbn [strip]. rewrite Forall_forall in IH, Hc. apply IH; auto; apply (Hc kv He).
      - apply enc_strip_flat; auto. }
    cbn [enc]. rewrite map_map. cbn [fst snd].
    rewrite (oall_map_some _ (fun kv => kv)).
    + rewrite map_id. cbn [option_map]. rewrite mset_all_id; auto.
    + intros kv He. rewrite (Hel kv He). destruct kv; reflexivity.
  - destruct Hc.
Qed.
