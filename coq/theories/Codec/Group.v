(* Model of encoding.DecoderGroup.Decode (pkg/encoding/group.go, repaired tree): the members of a
   group are tried in order, a per-source-type cache remembers the member that succeeded last.
   Members are abstract: for a source value they return an answer and the new content of the target. *)
From Coq Require Import List NArith ZArith Bool Lia.
Import ListNotations.

Inductive answer := AOk | AUnsupported | AHard (e : nat).

Definition answer_eqb (a b : answer) : bool :=
  match a, b with
  | AOk, AOk | AUnsupported, AUnsupported => true
  | AHard x, AHard y => Nat.eqb x y
  | _, _ => false
  end.

Section Group.
  Variables (V T K : Type).                 (* source values, target contents, source types (reflect.TypeOf(source)) *)
  Variable kind : V -> K.
  Variable K_eqb : K -> K -> bool.
  Definition member := V -> T -> T * answer.
  Variable members : list member.

  Definition cache := list (K * nat).        (* source type -> index of the cached member *)

  Fixpoint cache_get (c : cache) (k : K) : option nat :=
    match c with
    | [] => None
    | (k', i) :: rest => if K_eqb k k' then Some i else cache_get rest k
    end.

  (* the loop over the members, skipping the cached one *)
  Fixpoint try_members (ms : list member) (i : nat) (skip : option nat) (v : V) (t : T) (last : answer)
    : T * answer * option nat :=
    match ms with
    | [] => (t, last, None)
    | d :: rest =>
        if match skip with Some s => Nat.eqb s i | None => false end then try_members rest (S i) skip v t last
        else
          let '(t', a) := d v t in
          match a with
          | AOk => (t', AOk, Some i)
          | AUnsupported => try_members rest (S i) skip v t' AUnsupported
          | AHard e => (t', AHard e, None)
          end
    end.

  (* Decode (repaired): the cached member's answer is final unless it is ErrUnsupportedType *)
  Definition g_decode (c : cache) (v : V) (t : T) : T * answer * cache :=
    let k := kind v in
    let cached := cache_get c k in
    let start : T * answer * bool :=
      match cached with
      | Some i =>
          match nth_error members i with
          | Some d => let '(t', a) := d v t in
                      match a with AUnsupported => (t', a, false) | _ => (t', a, true) end
          | None => (t, AUnsupported, false)
          end
      | None => (t, AUnsupported, false)
      end in
    let '(t1, a1, final) := start in
    if final then (t1, a1, c)
    else
      let '(t2, a2, hit) := try_members members 0 cached v t1 a1 in
      (t2, a2, match hit with Some i => (k, i) :: c | None => c end).

  (* Decode as it was on the pinned tree: a failing cached member was not final *)
  Definition g_decode_old (c : cache) (v : V) (t : T) : T * answer * cache :=
    let k := kind v in
    let cached := cache_get c k in
    let start : T * answer * bool :=
      match cached with
      | Some i =>
          match nth_error members i with
          | Some d => let '(t', a) := d v t in
                      match a with AOk => (t', a, true) | _ => (t', a, false) end
          | None => (t, AUnsupported, false)
          end
      | None => (t, AUnsupported, false)
      end in
    let '(t1, a1, final) := start in
    if final then (t1, a1, c)
    else
      let '(t2, a2, hit) := try_members members 0 cached v t1 a1 in
      (t2, a2, match hit with Some i => (k, i) :: c | None => c end).

  (* a history of decodes into fresh targets *)
  Fixpoint g_run (c : cache) (t0 : T) (vs : list V) : cache :=
    match vs with
    | [] => c
    | v :: rest => g_run (snd (g_decode c v t0)) t0 rest
    end.
End Group.
