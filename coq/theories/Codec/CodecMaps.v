(* Keys and sorted association lists used by the codec model. *)
From Coq Require Import List Arith NArith ZArith Bool Lia.
From Uf Require Import Codec.Codec.
Import ListNotations.

(* ---- key order ---- *)
Lemma key_cmp_refl a : key_cmp a a = Eq.
Proof. induction a as [|x a IH]; cbn; auto. rewrite N.compare_refl. exact IH. Qed.

Lemma key_cmp_eq a : forall b, key_cmp a b = Eq -> a = b.
Proof.
  induction a as [|x a IH]; intros [|y b] H; cbn in H; try discriminate; auto.
  destruct (N.compare x y) eqn:C; try discriminate. apply N.compare_eq in C. subst. f_equal. apply IH, H.
Qed.

Lemma key_cmp_opp a : forall b, key_cmp b a = CompOpp (key_cmp a b).
Proof.
  induction a as [|x a IH]; intros [|y b]; cbn; auto.
  rewrite (N.compare_antisym x y). destruct (N.compare x y); cbn; auto.
Qed.

Lemma key_cmp_lt_trans a : forall b c, key_cmp a b = Lt -> key_cmp b c = Lt -> key_cmp a c = Lt.
Proof.
  induction a as [|x a IH]; intros [|y b] [|z c] H1 H2; cbn in *; try discriminate; auto.
  destruct (N.compare x y) eqn:C1; try discriminate.
  - apply N.compare_eq in C1. subst y. destruct (N.compare x z); try discriminate; auto. eapply IH; eauto.
  - destruct (N.compare y z) eqn:C2; try discriminate.
    + apply N.compare_eq in C2. subst z. rewrite C1. reflexivity.
    + apply N.compare_lt_iff in C1, C2. replace (N.compare x z) with Lt; auto. symmetry. apply N.compare_lt_iff. eapply N.lt_trans; eauto.
Qed.

Lemma key_eqb_eq a b : key_eqb a b = true <-> a = b.
Proof.
  unfold key_eqb. split.
  - destruct (key_cmp a b) eqn:C; try discriminate. intros _. apply key_cmp_eq, C.
  - intros ->. rewrite key_cmp_refl. reflexivity.
Qed.

Lemma key_eqb_refl a : key_eqb a a = true.
Proof. apply key_eqb_eq. reflexivity. Qed.

Lemma key_eqb_neq a b : key_eqb a b = false <-> a <> b.
Proof.
  split.
  - intros H E. apply key_eqb_eq in E. congruence.
  - intros H. destruct (key_eqb a b) eqn:E; auto. apply key_eqb_eq in E. contradiction.
Qed.

Lemma key_eqb_sym a b : key_eqb a b = key_eqb b a.
Proof.
  destruct (key_eqb a b) eqn:E.
  - apply key_eqb_eq in E. subst. symmetry. apply key_eqb_refl.
  - symmetry. apply key_eqb_neq. apply key_eqb_neq in E. congruence.
Qed.

(* ---- lookups ---- *)
Section MapLemmas.
  Context {V : Type}.
  Implicit Types m : list (list N * V).

  Lemma mget_mset k k' (v : V) m : mget k (mset k' v m) = if key_eqb k k' then Some v else mget k m.
  Proof.
    induction m as [|[k0 v0] m IH]; cbn.
    - destruct (key_eqb k k'); reflexivity.
    - destruct (key_cmp k' k0) eqn:C; cbn.
      + apply key_cmp_eq in C. subst k0. destruct (key_eqb k k'); reflexivity.
      + destruct (key_eqb k k'); reflexivity.
      + rewrite IH. destruct (key_eqb k k0) eqn:E0; auto.
        apply key_eqb_eq in E0. subst k0. destruct (key_eqb k k') eqn:E; auto.
        apply key_eqb_eq in E. subst k'. rewrite key_cmp_refl in C. discriminate.
  Qed.

  Lemma mget_mdel k k' m : mget k (mdel k' m) = if key_eqb k k' then None else mget k m.
  Proof.
    unfold mdel. induction m as [|[k0 v0] m IH]; cbn.
    - destruct (key_eqb k k'); reflexivity.
    - destruct (key_eqb k' k0) eqn:E0; cbn.
      + apply key_eqb_eq in E0. subst k0. rewrite IH. destruct (key_eqb k k'); reflexivity.
      + rewrite IH. destruct (key_eqb k k0) eqn:E; auto.
        apply key_eqb_eq in E. subst k0. rewrite key_eqb_sym, E0. reflexivity.
  Qed.

  (* ---- strictly sorted lists ---- *)
  Fixpoint sorted_from (k : list N) m : Prop :=
    match m with
    | [] => True
    | (k', _) :: m' => key_cmp k k' = Lt /\ sorted_from k' m'
    end.
  Definition sorted m : Prop := match m with [] => True | (k, _) :: m' => sorted_from k m' end.

  Lemma sorted_from_lt k m k' v : sorted_from k m -> In (k', v) m -> key_cmp k k' = Lt.
  Proof.
    revert k. induction m as [|[k0 v0] m IH]; intros k H Hin; [destruct Hin|].
    destruct H as [H1 H2]. destruct Hin as [E|Hin].
    - injection E as -> ->. exact H1.
    - eapply key_cmp_lt_trans; [exact H1|]. eapply IH; eauto.
  Qed.

  Lemma mset_sorted_from k0 k v m : key_cmp k0 k = Lt -> sorted_from k0 m -> sorted_from k0 (mset k v m).
  Proof.
    revert k0. induction m as [|[k1 v1] m IH]; intros k0 Hlt Hs; cbn.
    - auto.
    - destruct Hs as [H1 H2]. destruct (key_cmp k k1) eqn:C; cbn.
      + apply key_cmp_eq in C. subst k1. auto.
      + auto.
      + split; auto. apply IH; auto. rewrite key_cmp_opp, C. reflexivity.
  Qed.

  Lemma mset_sorted k v m : sorted m -> sorted (mset k v m).
  Proof.
    destruct m as [|[k1 v1] m]; cbn; auto. intros Hs. destruct (key_cmp k k1) eqn:C; cbn.
    - apply key_cmp_eq in C. subst k1. exact Hs.
    - auto.
    - apply mset_sorted_from; auto. rewrite key_cmp_opp, C. reflexivity.
  Qed.

  Lemma mset_all_sorted l m : sorted m -> sorted (mset_all l m).
  Proof.
    unfold mset_all. revert m. induction l as [|[k v] l IH]; intros m Hs; cbn; auto. apply IH, mset_sorted, Hs.
  Qed.

  Lemma mget_mset_all_notin k l : forall m, ~ In k (map fst l) -> mget k (mset_all l m) = mget k m.
  Proof.
    unfold mset_all. induction l as [|[k1 v1] l IH]; intros m Hn; cbn; auto.
    rewrite IH by (intros H; apply Hn; right; exact H). rewrite mget_mset.
    replace (key_eqb k k1) with false; auto. symmetry. apply key_eqb_neq. intros ->. apply Hn. left. reflexivity.
  Qed.

  (* appending a greater key *)
  Lemma mset_snoc m : forall k v, (forall k' v', In (k', v') m -> key_cmp k' k = Lt) ->
    mset k v m = m ++ [(k, v)].
  Proof.
    induction m as [|[k1 v1] m IH]; intros k v Hlt; cbn [mset app]; auto.
    pose proof (Hlt k1 v1 (or_introl eq_refl)) as L.
    rewrite key_cmp_opp, L. cbn [CompOpp]. f_equal. apply IH. intros k' v' Hin. apply (Hlt k' v'). right. exact Hin.
  Qed.

  Lemma sorted_tail k0 v0 m : sorted ((k0, v0) :: m) -> sorted m.
  Proof. destruct m as [|[k1 v1] m]; cbn; auto. intros [_ H]. exact H. Qed.

  Lemma sorted_app_lt acc : forall k v l, sorted (acc ++ (k, v) :: l) ->
    forall k' v', In (k', v') acc -> key_cmp k' k = Lt.
  Proof.
    induction acc as [|[k0 v0] acc IH]; intros k v l Hs k' v' Hin; [destruct Hin|].
    destruct Hin as [E|Hin].
    - injection E as <- <-. cbn [app sorted] in Hs. apply (sorted_from_lt k0 (acc ++ (k, v) :: l) k v Hs).
      apply in_or_app. right. left. reflexivity.
    - cbn [app] in Hs. apply sorted_tail in Hs. exact (IH k v l Hs k' v' Hin).
  Qed.

  (* folding the entries of a sorted list into the empty map gives the list back *)
  Lemma mset_all_id_aux l : forall acc,
    sorted (acc ++ l) -> mset_all l acc = acc ++ l.
  Proof.
    unfold mset_all. induction l as [|[k v] l IH]; intros acc Hs; cbn [fold_left fst snd].
    - rewrite app_nil_r. reflexivity.
    - rewrite (mset_snoc acc k v) by (apply (sorted_app_lt acc k v l Hs)).
      rewrite IH; rewrite <- app_assoc; cbn [app]; auto.
  Qed.

  Lemma mset_all_id l : sorted l -> mset_all l [] = l.
  Proof. intros H. apply (mset_all_id_aux l []). exact H. Qed.
End MapLemmas.
