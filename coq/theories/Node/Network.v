(* C02 at the level of a workflow: an acyclic network of nodes, each behaving like the request/row
   specification of Node/Spec.v (a request is answered when the row of packets derived from it is
   complete, oldest request first; the answer is the join of the row, or the node's own result when
   nothing was derived), connected by links that deliver in order (what C01 gives).

   Nodes are numbered so that every link goes from a smaller to a larger number (a topological
   numbering: the workflow is acyclic).  Any number of requests may be in flight; the steps of all
   nodes interleave arbitrarily.

   Proved for every schedule:
   - per node, arrived = answered ++ pending, without repetition (each request answered at most once,
     in arrival order; exactly once when the node has nothing pending);
   - every answer is justified: it is the node's own result when nothing was derived, otherwise the
     join of the answers that the derived packets got EARLIER;
   - a network with something pending can always move (no deadlock), so a network that cannot move
     has answered everything. *)
From Coq Require Import List Arith Bool Lia.
Import ListNotations.

Definition upd {A} (f : nat -> A) (n : nat) (v : A) : nat -> A := fun m => if Nat.eqb m n then v else f m.

Lemma upd_same {A} (f : nat -> A) n v : upd f n v n = v.
Proof. unfold upd. rewrite Nat.eqb_refl. reflexivity. Qed.
Lemma upd_other {A} (f : nat -> A) n v m : m <> n -> upd f n v m = f m.
Proof. unfold upd. intros H. apply Nat.eqb_neq in H. rewrite H. reflexivity. Qed.

Lemma in_upd_app {A} (f : nat -> list A) n x t c : In c (f t) -> In c (upd f n (f n ++ x) t).
Proof.
  intros H. unfold upd. destruct (Nat.eqb t n) eqn:E; auto. apply Nat.eqb_eq in E. subst. apply in_or_app. auto.
Qed.

Lemma nodup_map_inj {A} (f : A -> nat) (l : list A) a b : NoDup (map f l) -> In a l -> In b l -> f a = f b -> a = b.
Proof.
  induction l as [|x l IH]; cbn; [tauto|]. intros Nd Ha Hb E. inversion Nd as [|? ? Hn Hd]; subst.
  destruct Ha as [->|Ha], Hb as [->|Hb]; auto.
  - exfalso. apply Hn. rewrite E. apply in_map, Hb.
  - exfalso. apply Hn. rewrite <- E. apply in_map, Ha.
Qed.

Lemma nodup_app_r {A} (l1 l2 : list A) : NoDup (l1 ++ l2) -> NoDup l2.
Proof. induction l1 as [|a l1 IH]; cbn; auto. intros H. inversion H; subst. auto. Qed.

Lemma nodup_app_both {A} (l1 l2 : list A) x : NoDup (l1 ++ l2) -> In x l1 -> In x l2 -> False.
Proof.
  induction l1 as [|a l1 IH]; cbn; [tauto|]. intros Nd [->|H1] H2; inversion Nd as [|? ? Hn Hd]; subst.
  - apply Hn. apply in_or_app. auto.
  - apply IH; auto.
Qed.

Lemma nodup_snoc_nat (l : list nat) x : NoDup l -> ~ In x l -> NoDup (l ++ [x]).
Proof.
  induction l as [|a l IH]; cbn; intros H Hn; [constructor; auto; constructor|].
  inversion H as [|? ? Ha Hl]; subst. constructor.
  - intros Hin. apply in_app_or in Hin as [Hin|[<-|[]]]; auto.
  - apply IH; auto.
Qed.

Section Net.
Variable ans : Type.
Variable join : list ans -> ans.
Variable drop : ans.                  (* the answer a closed node gives: the dropped-packet error *)
Variable N : nat.                      (* nodes are 0 .. N-1 *)

Definition row := list (nat * option ans).

Record req := mkreq {
  q_id : nat;
  q_from : option (nat * nat);         (* None: from outside; Some (m, r): derived by node m from its request r *)
  q_st : option (ans * row)            (* None: the node's action has not finished; Some (own result, derived packets) *)
}.

Record net := mknet {
  n_q : nat -> list req;               (* pending requests per node, oldest first *)
  n_next : nat;                        (* next fresh packet id *)
  n_arr : nat -> list nat;             (* history: ids that arrived at each node, in order *)
  n_done : nat -> list nat;            (* history: ids each node answered, in order *)
  n_ans : list (nat * ans);            (* history: the answer each packet got, newest first *)
  n_der : list (nat * ans * list nat); (* history: own result and derived packets of each finished action *)
  n_out : list (nat * ans);            (* answers delivered to the outside, newest first *)
  n_closed : nat -> bool               (* nodes that have been closed *)
}.

Definition net0 : net := mknet (fun _ => []) 0 (fun _ => []) (fun _ => []) [] [] [] (fun _ => false).

Inductive lab :=
| LIn (n : nat)                                   (* a request from outside reaches node n *)
| LProc (n : nat) (own : ans) (tgts : list nat)   (* the action of node n finishes on its oldest unfinished request *)
| LAns (n : nat)                                  (* node n answers its oldest request *)
| LClose (n : nat)                                (* node n is closed (teardown) *)
| LDrop (n : nat).                                (* a closed node answers its oldest request with the dropped-packet error *)

Definition fresh_row (ids : list nat) : row := map (fun i => (i, None)) ids.

Fixpoint start (own : ans) (ids : list nat) (l : list req) : option (nat * list req) :=
  match l with
  | [] => None
  | r :: l' =>
      match q_st r with
      | None => Some (q_id r, mkreq (q_id r) (q_from r) (Some (own, fresh_row ids)) :: l')
      | Some _ => match start own ids l' with Some (i, l'') => Some (i, r :: l'') | None => None end
      end
  end.

Definition send (from : nat * nat) (acc : (nat -> list req) * (nat -> list nat)) (ti : nat * nat) :=
  (upd (fst acc) (fst ti) (fst acc (fst ti) ++ [mkreq (snd ti) (Some from) None]),
   upd (snd acc) (fst ti) (snd acc (fst ti) ++ [snd ti])).

Definition fill_row (p : nat) (a : ans) (rw : row) : row :=
  map (fun s => if Nat.eqb (fst s) p then (p, Some a) else s) rw.
Definition fill (rq p : nat) (a : ans) (r : req) : req :=
  if Nat.eqb (q_id r) rq
  then match q_st r with
       | Some (own, rw) => mkreq (q_id r) (q_from r) (Some (own, fill_row p a rw))
       | None => r
       end
  else r.

Definition answers (rw : row) : list ans := flat_map (fun s => match snd s with Some x => [x] | None => [] end) rw.
Definition complete (rw : row) : bool := forallb (fun s => match snd s with Some _ => true | None => false end) rw.
Definition result (own : ans) (rw : row) : ans := match rw with [] => own | _ => join (answers rw) end.

(* node n hands the answer a to its oldest request r *)
Definition answer (st : net) (n : nat) (r : req) (rest : list req) (a : ans) : net :=
  let q1 := upd (n_q st) n rest in
  mknet (match q_from r with
         | Some (m, rq) => upd q1 m (map (fill rq (q_id r) a) (q1 m))
         | None => q1 end)
        (n_next st) (n_arr st) (upd (n_done st) n (n_done st n ++ [q_id r]))
        ((q_id r, a) :: n_ans st) (n_der st)
        (match q_from r with None => (q_id r, a) :: n_out st | Some _ => n_out st end)
        (n_closed st).

Definition step (st : net) (l : lab) : option net :=
  match l with
  | LIn n =>
      if Nat.ltb n N then
        Some (mknet (upd (n_q st) n (n_q st n ++ [mkreq (n_next st) None None])) (S (n_next st))
                    (upd (n_arr st) n (n_arr st n ++ [n_next st])) (n_done st) (n_ans st) (n_der st) (n_out st) (n_closed st))
      else None
  | LProc n own tgts =>
      if forallb (fun t => Nat.ltb n t && Nat.ltb t N) tgts then
        let ids := seq (n_next st) (length tgts) in
        match start own ids (n_q st n) with
        | Some (rid, qn) =>
            let acc := fold_left (send (n, rid)) (combine tgts ids) (upd (n_q st) n qn, n_arr st) in
            Some (mknet (fst acc) (n_next st + length tgts) (snd acc) (n_done st) (n_ans st)
                        ((rid, own, ids) :: n_der st) (n_out st) (n_closed st))
        | None => None
        end
      else None
  | LAns n =>
      match n_q st n with
      | r :: rest =>
          match q_st r with
          | Some (own, rw) => if complete rw then Some (answer st n r rest (result own rw)) else None
          | None => None
          end
      | [] => None
      end
  | LClose n =>
      Some (mknet (n_q st) (n_next st) (n_arr st) (n_done st) (n_ans st) (n_der st) (n_out st) (upd (n_closed st) n true))
  | LDrop n =>
      if n_closed st n then
        match n_q st n with
        | r :: rest => Some (answer st n r rest drop)
        | [] => None
        end
      else None
  end.

(* a run: labels that are not enabled are skipped *)
Definition step' (st : net) (l : lab) : net := match step st l with Some st' => st' | None => st end.
Definition run (ls : list lab) : net := fold_left step' ls net0.

(* ---- answers are justified ---- *)
Definition justified (der : list (nat * ans * list nat)) (earlier : list (nat * ans)) (id : nat) (a : ans) : Prop :=
  a = drop \/
  exists own kids, In (id, own, kids) der /\
    ((kids = [] /\ a = own) \/
     (kids <> [] /\ exists xs, Forall2 (fun k x => In (k, x) earlier) kids xs /\ a = join xs)).

Fixpoint ans_ok (der : list (nat * ans * list nat)) (l : list (nat * ans)) : Prop :=
  match l with
  | [] => True
  | (id, a) :: l' => justified der l' id a /\ ans_ok der l'
  end.

(* ---- the invariant ---- *)
Record Inv (st : net) : Prop := mkInv {
  i_arr : forall n, n_arr st n = n_done st n ++ map q_id (n_q st n);
  i_fresh : forall n id, In id (n_arr st n) -> id < n_next st;
  i_nodup : forall n, NoDup (n_arr st n);
  i_bound : forall n, N <= n -> n_q st n = [];
  i_kids : forall n r own rw p, In r (n_q st n) -> q_st r = Some (own, rw) -> In (p, None) rw ->
           exists t c, n < t /\ In c (n_q st t) /\ q_id c = p /\ q_from c = Some (n, q_id r);
  i_rows : forall n r own rw, In r (n_q st n) -> q_st r = Some (own, rw) ->
           In (q_id r, own, map fst rw) (n_der st) /\ forall p a, In (p, Some a) rw -> In (p, a) (n_ans st);
  i_ans : ans_ok (n_der st) (n_ans st);
  i_ansdone : forall id, In id (map fst (n_ans st)) <-> exists n, In id (n_done st n);
  i_disj : forall n m id, In id (n_arr st n) -> In id (n_arr st m) -> n = m;
  i_ansnd : NoDup (map fst (n_ans st));
  i_der : forall id own kids, In (id, own, kids) (n_der st) ->
          (exists n r, In r (n_q st n) /\ q_id r = id /\ q_st r <> None) \/ (exists n, In id (n_done st n));
  i_dernd : NoDup (map (fun d => fst (fst d)) (n_der st))
}.

Lemma inv0 : Inv net0.
Proof.
  constructor; cbn; auto; try tauto; try constructor; try (intros; tauto).
  intros [n []].
Qed.
(* inv0 proved *)

(* ---- lemmas about start ---- *)
Lemma start_spec own ids l rid l' :
  start own ids l = Some (rid, l') ->
  exists pre r post, l = pre ++ r :: post /\ q_st r = None /\ q_id r = rid /\
                     l' = pre ++ mkreq (q_id r) (q_from r) (Some (own, fresh_row ids)) :: post.
Proof.
  revert rid l'. induction l as [|r l IH]; cbn; intros rid l' H; [discriminate|].
  destruct (q_st r) eqn:E.
  - destruct (start own ids l) as [[i l'']|] eqn:S; [|discriminate]. injection H as <- <-.
    destruct (IH _ _ eq_refl) as [pre [r0 [post [A [B [C D]]]]]].
    exists (r :: pre), r0, post. subst. auto.
  - injection H as <- <-. exists [], r, l. auto.
Qed.

Lemma start_head own ids r l : q_st r = None -> start own ids (r :: l) <> None.
Proof. intros H. cbn. rewrite H. discriminate. Qed.

(* ---- lemmas about the sends of one action ---- *)
Definition sent_to (t : nat) (tis : list (nat * nat)) : list nat :=
  map snd (filter (fun ti => Nat.eqb (fst ti) t) tis).

Lemma sends_spec from : forall tis q arr t,
  fst (fold_left (send from) tis (q, arr)) t = q t ++ map (fun i => mkreq i (Some from) None) (sent_to t tis) /\
  snd (fold_left (send from) tis (q, arr)) t = arr t ++ sent_to t tis.
Proof.
  induction tis as [|[t0 i0] tis IH]; intros q arr t; cbn [fold_left].
  - cbn. rewrite !app_nil_r. auto.
  - unfold send at 2 4. cbn [fst snd]. destruct (IH (upd q t0 (q t0 ++ [mkreq i0 (Some from) None])) (upd arr t0 (arr t0 ++ [i0])) t) as [A B].
    rewrite A, B. unfold sent_to. cbn [filter fst]. destruct (Nat.eqb t0 t) eqn:E.
    + apply Nat.eqb_eq in E. subst t0. rewrite !upd_same. cbn [map snd]. rewrite <- !app_assoc. auto.
    + apply Nat.eqb_neq in E. rewrite !upd_other by congruence. auto.
Qed.

Lemma sent_to_in t tis i : In i (sent_to t tis) -> In (t, i) tis.
Proof.
  unfold sent_to. intros H. apply in_map_iff in H as [[t0 i0] [E H]]. apply filter_In in H as [H Et].
  cbn in E, Et. apply Nat.eqb_eq in Et. subst. exact H.
Qed.

Lemma in_sent_to t tis i : In (t, i) tis -> In i (sent_to t tis).
Proof.
  intros H. unfold sent_to. apply in_map_iff. exists (t, i). split; auto. apply filter_In. split; auto.
  cbn. apply Nat.eqb_refl.
Qed.

Lemma in_combine_seq (tgts : list nat) s t i : In (t, i) (combine tgts (seq s (length tgts))) -> In t tgts /\ s <= i < s + length tgts.
Proof.
  intros H. split; [eapply in_combine_l, H|]. apply in_combine_r in H. apply in_seq in H. exact H.
Qed.

Lemma sent_to_nodup t (tgts : list nat) s : NoDup (sent_to t (combine tgts (seq s (length tgts)))).
Proof.
  unfold sent_to. revert s. induction tgts as [|t0 tgts IH]; intros s; cbn; [constructor|].
  destruct (Nat.eqb t0 t); cbn; auto. constructor; auto.
  intros H. apply in_map_iff in H as [[t1 i1] [E H]]. apply filter_In in H as [H _]. cbn in E. subst i1.
  apply in_combine_r in H. apply in_seq in H. lia.
Qed.

Lemma combine_seq_fun (tgts : list nat) s x y i :
  In (x, i) (combine tgts (seq s (length tgts))) -> In (y, i) (combine tgts (seq s (length tgts))) -> x = y.
Proof.
  revert s. induction tgts as [|t0 tgts IH]; intros s; cbn; [tauto|].
  intros [Hx|Hx] [Hy|Hy].
  - congruence.
  - injection Hx as _ <-. apply in_combine_r, in_seq in Hy. lia.
  - injection Hy as _ <-. apply in_combine_r, in_seq in Hx. lia.
  - eapply IH; eauto.
Qed.

Lemma kids_sent (tgts : list nat) s i : In i (seq s (length tgts)) -> exists t, In (t, i) (combine tgts (seq s (length tgts))).
Proof.
  revert s. induction tgts as [|t0 tgts IH]; intros s; cbn; [tauto|].
  intros [<-|H]; [exists t0; auto|]. destruct (IH _ H) as [t Ht]. exists t. auto.
Qed.

(* ---- fill ---- *)
Lemma fill_id rq p a r : q_id (fill rq p a r) = q_id r.
Proof. unfold fill. destruct (Nat.eqb _ _); auto. destruct (q_st r) as [[own rw]|]; auto. Qed.
Lemma fill_from rq p a r : q_from (fill rq p a r) = q_from r.
Proof. unfold fill. destruct (Nat.eqb _ _); auto. destruct (q_st r) as [[own rw]|]; auto. Qed.
Lemma map_fill_ids rq p a l : map q_id (map (fill rq p a) l) = map q_id l.
Proof. rewrite map_map. apply map_ext. intros r. apply fill_id. Qed.

Lemma fill_row_fst p a rw : map fst (fill_row p a rw) = map fst rw.
Proof.
  unfold fill_row. rewrite map_map. apply map_ext. intros [i o]. cbn. destruct (Nat.eqb i p) eqn:E; auto.
  apply Nat.eqb_eq in E. subst. reflexivity.
Qed.

Lemma fill_row_in p a rw i o : In (i, o) (fill_row p a rw) ->
  (i = p /\ o = Some a) \/ (i <> p /\ In (i, o) rw).
Proof.
  unfold fill_row. intros H. apply in_map_iff in H as [[i0 o0] [E H]]. cbn in E.
  destruct (Nat.eqb i0 p) eqn:Ep.
  - injection E as <- <-. auto.
  - injection E as <- <-. apply Nat.eqb_neq in Ep. auto.
Qed.

Lemma fill_st rq p a r own rw :
  q_st (fill rq p a r) = Some (own, rw) ->
  exists rw0, q_st r = Some (own, rw0) /\
              ((q_id r = rq /\ rw = fill_row p a rw0) \/ (q_id r <> rq /\ rw = rw0)).
Proof.
  unfold fill. destruct (Nat.eqb (q_id r) rq) eqn:E.
  - apply Nat.eqb_eq in E. destruct (q_st r) as [[own0 rw0]|] eqn:S; cbn; [|rewrite S; discriminate].
    intros H. injection H as <- <-. exists rw0. auto.
  - apply Nat.eqb_neq in E. intros H. exists rw. auto.
Qed.

Lemma fill_st_some rq p a c : q_st c <> None -> q_st (fill rq p a c) <> None.
Proof.
  intros H. unfold fill. destruct (Nat.eqb (q_id c) rq); auto. destruct (q_st c) as [[o w]|] eqn:S; [discriminate|].
  rewrite S. exact H.
Qed.

(* ---- the invariant is kept by every step ---- *)
Lemma step_in st n st' : Inv st -> step st (LIn n) = Some st' -> Inv st'.
Proof.
  intros I H. cbn [step] in H. destruct (Nat.ltb n N) eqn:L; [|discriminate]. injection H as <-. apply Nat.ltb_lt in L.
  destruct I as [Ia If In_ Ib Ik Ir Ians Iad Idj Ind Ide Idn]. constructor; cbn.
  - intros m. unfold upd. destruct (Nat.eqb m n) eqn:E; auto. apply Nat.eqb_eq in E. subst m.
    rewrite Ia, map_app, app_assoc. reflexivity.
  - intros m id. unfold upd. destruct (Nat.eqb m n); intros Hin.
    + apply in_app_or in Hin as [Hin|[<-|[]]]; [apply If in Hin|]; lia.
    + apply If in Hin. lia.
  - intros m. unfold upd. destruct (Nat.eqb m n) eqn:E; auto. apply Nat.eqb_eq in E. subst m.
    apply nodup_snoc_nat; auto. intros Hin. apply If in Hin. lia.
  - intros m Hm. rewrite upd_other by lia. auto.
  - intros m r own rw p Hr Hs Hp.
    assert (Hr0 : In r (n_q st m)).
    { unfold upd in Hr. destruct (Nat.eqb m n) eqn:E; auto. apply Nat.eqb_eq in E. subst m.
      apply in_app_or in Hr as [Hr|[<-|[]]]; auto. cbn in Hs. discriminate Hs. }
    destruct (Ik m r own rw p Hr0 Hs Hp) as [t [c [A [B [C D]]]]]. exists t, c. split; auto. split; auto.
    apply in_upd_app, B.
  - intros m r own rw Hr Hs.
    assert (Hr0 : In r (n_q st m)).
    { unfold upd in Hr. destruct (Nat.eqb m n) eqn:E; auto. apply Nat.eqb_eq in E. subst m.
      apply in_app_or in Hr as [Hr|[<-|[]]]; auto. cbn in Hs. discriminate Hs. }
    apply (Ir m r own rw Hr0 Hs).
  - exact Ians.
  - exact Iad.
  - intros x y id Hx Hy.
    assert (P : forall z, In id (upd (n_arr st) n (n_arr st n ++ [n_next st]) z) -> (In id (n_arr st z)) \/ (z = n /\ id = n_next st)).
    { intros z Hz. unfold upd in Hz. destruct (Nat.eqb z n) eqn:E; auto. apply Nat.eqb_eq in E. subst z.
      apply in_app_or in Hz as [Hz|[<-|[]]]; auto. }
    destruct (P x Hx) as [Ox|[-> Ex]], (P y Hy) as [Oy|[-> Ey]]; auto.
    + eapply Idj; eauto.
    + apply If in Ox. lia.
    + apply If in Oy. lia.
  - exact Ind.
  - intros id own kids Hd. destruct (Ide id own kids Hd) as [[m [r [Hr [Hi Hs]]]]|[m Hm]]; [left|right; eauto].
    exists m, r. split; auto. apply in_upd_app, Hr.
  - exact Idn.
Qed.

(* ---- answering ---- *)
Lemma complete_forall2 (rw : row) l :
  complete rw = true -> (forall p a, In (p, Some a) rw -> In (p, a) l) ->
  Forall2 (fun k x => In (k, x) l) (map fst rw) (answers rw).
Proof.
  induction rw as [|[p o] rw IH]; cbn; intros C H; [constructor|].
  destruct o as [a|]; [|discriminate]. cbn. constructor; auto.
Qed.

Lemma incomplete_none (rw : row) : complete rw = false -> exists p, In (p, None) rw.
Proof.
  induction rw as [|[p o] rw IH]; cbn; [discriminate|]. destruct o as [a|]; cbn.
  - intros H. destruct (IH H) as [p' Hp]. eauto.
  - intros _. eauto.
Qed.

Lemma answer_inv st n r rest a :
  Inv st -> n_q st n = r :: rest -> justified (n_der st) (n_ans st) (q_id r) a -> Inv (answer st n r rest a).
Proof.
  intros I Q J. unfold answer.
  destruct I as [Ia If In_ Ib Ik Ir Ians Iad Idj Ind Ide Idn].
  set (q1 := upd (n_q st) n rest).
  set (q' := match q_from r with Some (m, rq) => upd q1 m (map (fill rq (q_id r) a) (q1 m)) | None => q1 end).
  assert (Q1 : forall x c, In c (n_q st x) -> (x = n /\ c = r) \/ In c (q1 x)).
  { intros x c Hc. unfold q1, upd. destruct (Nat.eqb x n) eqn:E; auto. apply Nat.eqb_eq in E. subst x.
    rewrite Q in Hc. destruct Hc as [<-|Hc]; auto. }
  assert (Q1' : forall x c, In c (q1 x) -> In c (n_q st x)).
  { intros x c. unfold q1, upd. destruct (Nat.eqb x n) eqn:E; auto. apply Nat.eqb_eq in E. subst x. rewrite Q. cbn. auto. }
  assert (F1 : forall x, map q_id (q' x) = map q_id (q1 x)).
  { intros x. unfold q'. destruct (q_from r) as [[m rq]|]; auto. unfold upd at 1.
    destruct (Nat.eqb x m) eqn:E; auto. apply Nat.eqb_eq in E. subst. apply map_fill_ids. }
  assert (F2 : forall x c, In c (q' x) ->
            ((forall rq, q_from r <> Some (x, rq)) /\ In c (q1 x)) \/
            (exists rq c0, q_from r = Some (x, rq) /\ In c0 (q1 x) /\ c = fill rq (q_id r) a c0)).
  { intros x c. unfold q'. destruct (q_from r) as [[m rq]|].
    - unfold upd at 1. destruct (Nat.eqb x m) eqn:E.
      + apply Nat.eqb_eq in E. subst m. intros Hc. right. apply in_map_iff in Hc as [c0 [E0 Hc0]]. exists rq, c0. auto.
      + apply Nat.eqb_neq in E. intros Hc. left. split; auto. intros rq' Eq. congruence.
    - intros Hc. left. split; auto. discriminate. }
  assert (F3 : forall x c0, In c0 (q1 x) -> exists c, In c (q' x) /\ q_id c = q_id c0 /\ q_from c = q_from c0).
  { intros x c0 Hc0. unfold q'. destruct (q_from r) as [[m rq]|]; [|eauto]. unfold upd at 1.
    destruct (Nat.eqb x m) eqn:E; [|eauto]. apply Nat.eqb_eq in E. subst m.
    exists (fill rq (q_id r) a c0). split; [apply in_map, Hc0|]. split; [apply fill_id|apply fill_from]. }
  assert (QND : forall x, NoDup (map q_id (n_q st x))).
  { intros x. pose proof (In_ x) as Nd. rewrite Ia in Nd. apply nodup_app_r in Nd. exact Nd. }
  assert (STK : forall x c1 c2, In c1 (q1 x) -> In c2 (q1 x) -> q_id c1 = q_id c2 -> q_st c2 <> None -> q_st c1 <> None).
  { intros x c1 c2 H1 H2 E Hs. assert (c1 = c2); [|subst; exact Hs].
    apply (nodup_map_inj q_id (n_q st x)); auto. }
  constructor; cbn [n_q n_next n_arr n_done n_ans n_der n_out]; fold q1; fold q'.
  - intros x. rewrite F1. unfold q1, upd. destruct (Nat.eqb x n) eqn:E.
    + apply Nat.eqb_eq in E. subst x. rewrite Ia, Q. cbn. rewrite <- app_assoc. reflexivity.
    + apply Ia.
  - exact If.
  - exact In_.
  - intros x Hx. assert (E : q1 x = []).
    { unfold q1, upd. destruct (Nat.eqb x n) eqn:E; [|auto]. apply Nat.eqb_eq in E. subst x. rewrite (Ib n Hx) in Q. discriminate. }
    destruct (q' x) as [|c l] eqn:Eq; auto. pose proof (F1 x) as F. rewrite Eq, E in F. discriminate.
  - intros x c own' rw' p Hc Hs Hp.
    destruct (F2 x c Hc) as [[Hnf Hc1]|[rq [c0 [Hf [Hc0 ->]]]]].
    + destruct (Ik x c own' rw' p (Q1' x c Hc1) Hs Hp) as [t [c2 [A [B [Cc D]]]]].
      destruct (Q1 t c2 B) as [[-> ->]|Hin].
      * exfalso. apply (Hnf (q_id c)). exact D.
      * destruct (F3 t c2 Hin) as [c3 [G1 [G2 G3]]]. exists t, c3. repeat split; auto; congruence.
    + apply fill_st in Hs as [rw0 [Hs0 [[Eid ->]|[Nid ->]]]].
      * apply fill_row_in in Hp as [[_ Hp]|[Np Hp]]; [discriminate|].
        destruct (Ik x c0 own' rw0 p (Q1' x c0 Hc0) Hs0 Hp) as [t [c2 [A [B [Cc D]]]]].
        destruct (Q1 t c2 B) as [[-> ->]|Hin]; [congruence|].
        destruct (F3 t c2 Hin) as [c3 [G1 [G2 G3]]]. exists t, c3. rewrite fill_id. repeat split; auto; congruence.
      * destruct (Ik x c0 own' rw0 p (Q1' x c0 Hc0) Hs0 Hp) as [t [c2 [A [B [Cc D]]]]].
        destruct (Q1 t c2 B) as [[-> ->]|Hin]; [congruence|].
        destruct (F3 t c2 Hin) as [c3 [G1 [G2 G3]]]. exists t, c3. rewrite fill_id. repeat split; auto; congruence.
  - intros x c own' rw' Hc Hs.
    destruct (F2 x c Hc) as [[Hnf Hc1]|[rq [c0 [Hf [Hc0 ->]]]]].
    + destruct (Ir x c own' rw' (Q1' x c Hc1) Hs) as [A B]. split; auto. intros p a' Hp. right. auto.
    + apply fill_st in Hs as [rw0 [Hs0 [[Eid ->]|[Nid ->]]]]; rewrite fill_id;
        destruct (Ir x c0 own' rw0 (Q1' x c0 Hc0) Hs0) as [A B].
      * rewrite fill_row_fst. split; auto. intros p a' Hp. apply fill_row_in in Hp as [[-> Ea]|[_ Hp]].
        { injection Ea as ->. left. reflexivity. }
        { right. auto. }
      * split; auto. intros p a' Hp. right. auto.
  - split; [exact J|exact Ians].
  - intros id. cbn [map fst]. split.
    + intros [<-|Hid].
      * exists n. rewrite upd_same. apply in_or_app. right. left. reflexivity.
      * apply Iad in Hid as [m Hm]. exists m. unfold upd. destruct (Nat.eqb m n) eqn:E; auto.
        apply Nat.eqb_eq in E. subst m. apply in_or_app. auto.
    + intros [m Hm]. unfold upd in Hm. destruct (Nat.eqb m n) eqn:E.
      * apply in_app_or in Hm as [Hm|[<-|[]]]; [|left; reflexivity]. right. apply Iad. eauto.
      * right. apply Iad. eauto.
  - exact Idj.
  - cbn [map fst]. constructor; auto. intros Hid. apply Iad in Hid as [m Hm].
    assert (Am : In (q_id r) (n_arr st m)) by (rewrite Ia; apply in_or_app; auto).
    assert (An : In (q_id r) (n_arr st n)) by (rewrite Ia, Q; apply in_or_app; right; left; reflexivity).
    assert (m = n) by (eapply Idj; eauto). subst m.
    pose proof (In_ n) as Nd. rewrite Ia, Q in Nd. cbn [map] in Nd.
    apply NoDup_remove_2 in Nd. apply Nd. apply in_or_app. auto.
  - intros id own kids Hd. destruct (Ide id own kids Hd) as [[m [c [Hc [Hi Hs]]]]|[m Hm]].
    + destruct (Q1 m c Hc) as [[-> ->]|Hin].
      * right. exists n. rewrite upd_same. apply in_or_app. right. left. exact Hi.
      * left. destruct (F3 m c Hin) as [c3 [G1 [G2 G3]]].
        assert (G4 : q_st c3 <> None).
        { destruct (F2 m c3 G1) as [[_ Hc1]|[rq [c0 [_ [Hc0 ->]]]]].
          - (* unchanged element with the same id: it is c, or carries a row as well *)
            exact (STK m c3 c Hc1 Hin G2 Hs).
          - rewrite fill_id in G2. pose proof (STK m c0 c Hc0 Hin G2 Hs) as K.
            apply fill_st_some, K. }
        exists m, c3. split; auto. split; auto. congruence.
    + right. exists m. unfold upd. destruct (Nat.eqb m n) eqn:E; auto. apply Nat.eqb_eq in E. subst m. apply in_or_app. auto.
  - exact Idn.
Qed.

Lemma step_ans st n st' : Inv st -> step st (LAns n) = Some st' -> Inv st'.
Proof.
  intros I H. cbn [step] in H.
  destruct (n_q st n) as [|r rest] eqn:Q; [discriminate|].
  destruct (q_st r) as [[own rw]|] eqn:S; [|discriminate].
  destruct (complete rw) eqn:C; [|discriminate]. injection H as <-.
  apply answer_inv; auto. right.
  assert (Hr : In r (n_q st n)) by (rewrite Q; left; reflexivity).
  destruct (i_rows _ I n r own rw Hr S) as [A B]. exists own, (map fst rw). split; auto.
  destruct rw as [|s rw0] eqn:Erw.
  - left. auto.
  - right. split; [discriminate|]. exists (answers (s :: rw0)). split; [|reflexivity].
    apply complete_forall2; auto.
Qed.

Lemma step_drop st n st' : Inv st -> step st (LDrop n) = Some st' -> Inv st'.
Proof.
  intros I H. cbn [step] in H. destruct (n_closed st n); [|discriminate].
  destruct (n_q st n) as [|r rest] eqn:Q; [discriminate|]. injection H as <-.
  apply answer_inv; auto. left. reflexivity.
Qed.

Lemma step_close st n st' : Inv st -> step st (LClose n) = Some st' -> Inv st'.
Proof. intros [Ia If In_ Ib Ik Ir Ians Iad Idj Ind Ide Idn] H. cbn [step] in H. injection H as <-. constructor; auto. Qed.

(* ---- finishing an action ---- *)
Lemma nodup_app_disj (l1 l2 : list nat) : NoDup l1 -> NoDup l2 -> (forall x, In x l1 -> ~ In x l2) -> NoDup (l1 ++ l2).
Proof.
  induction l1 as [|a l1 IH]; cbn; intros H1 H2 D; auto. inversion H1 as [|? ? Ha Hl]; subst. constructor.
  - intros Hin. apply in_app_or in Hin as [Hin|Hin]; auto. apply (D a); auto.
  - apply IH; auto.
Qed.

Lemma fresh_row_fst ids : map fst (fresh_row ids) = ids.
Proof. unfold fresh_row. rewrite map_map. cbn. apply map_id. Qed.

Lemma fresh_row_in ids p o : In (p, o) (fresh_row ids) -> o = None /\ In p ids.
Proof. unfold fresh_row. intros H. apply in_map_iff in H as [i [E H]]. injection E as <- <-. auto. Qed.

Lemma justified_mono der der' l id a : (forall x, In x der -> In x der') -> justified der l id a -> justified der' l id a.
Proof. intros M [D|[own [kids [A B]]]]; [left; exact D|]. right. exists own, kids. auto. Qed.

Lemma ans_ok_mono der der' l : (forall x, In x der -> In x der') -> ans_ok der l -> ans_ok der' l.
Proof.
  intros M. induction l as [|[id a] l IH]; cbn; auto. intros [A B]. split; auto. eapply justified_mono; eauto.
Qed.

Lemma step_proc st n own tgts st' : Inv st -> step st (LProc n own tgts) = Some st' -> Inv st'.
Proof.
  intros I H. cbn [step] in H.
  destruct (forallb _ tgts) eqn:TG; [|discriminate].
  set (ids := seq (n_next st) (length tgts)) in *.
  destruct (start own ids (n_q st n)) as [[rid qn]|] eqn:ST; [|discriminate]. injection H as <-.
  destruct I as [Ia If In_ Ib Ik Ir Ians Iad Idj Ind Ide Idn].
  destruct (start_spec _ _ _ _ _ ST) as [pre [r [post [Q [S [Rid Qn]]]]]].
  set (r' := mkreq (q_id r) (q_from r) (Some (own, fresh_row ids))) in *.
  set (tis := combine tgts ids).
  pose proof (sends_spec (n, rid) tis (upd (n_q st) n qn) (n_arr st)) as SS.
  set (acc := fold_left (send (n, rid)) tis (upd (n_q st) n qn, n_arr st)) in *.
  assert (TI : forall t i, In (t, i) tis -> n < t /\ t < N /\ n_next st <= i < n_next st + length tgts).
  { intros t i Hti. apply in_combine_seq in Hti as [Ht Hi]. split; [|split]; auto.
    - pose proof (proj1 (forallb_forall _ _) TG t Ht) as B. apply andb_true_iff in B as [B _]. apply Nat.ltb_lt, B.
    - pose proof (proj1 (forallb_forall _ _) TG t Ht) as B. apply andb_true_iff in B as [_ B]. apply Nat.ltb_lt, B. }
  assert (Qn_ids : map q_id qn = map q_id (n_q st n)).
  { rewrite Qn, Q, !map_app. reflexivity. }
  (* old requests survive with id and origin *)
  assert (OLD : forall t c, In c (n_q st t) -> exists c', In c' (fst acc t) /\ q_id c' = q_id c /\ q_from c' = q_from c /\ (q_st c <> None -> q_st c' <> None)).
  { intros t c Hc. destruct (SS t) as [A _]. rewrite A. unfold upd. destruct (Nat.eqb t n) eqn:E.
    - apply Nat.eqb_eq in E. subst t. rewrite Q in Hc. apply in_app_or in Hc as [Hc|[<-|Hc]].
      + exists c. split; auto. apply in_or_app. left. rewrite Qn. apply in_or_app. auto.
      + exists r'. split; [|split; [reflexivity|split; [reflexivity|intros _; discriminate]]]. apply in_or_app. left. rewrite Qn. apply in_or_app. right. left. reflexivity.
      + exists c. split; auto. apply in_or_app. left. rewrite Qn. apply in_or_app. right. right. exact Hc.
    - exists c. split; auto. apply in_or_app. auto. }
  (* a request with a row after the step is an old one, or the one just finished *)
  assert (NEW : forall x c own' rw', In c (fst acc x) -> q_st c = Some (own', rw') ->
                In c (n_q st x) \/ (x = n /\ c = r')).
  { intros x c own' rw' Hc Hs. destruct (SS x) as [A _]. rewrite A in Hc. apply in_app_or in Hc as [Hc|Hc].
    - unfold upd in Hc. destruct (Nat.eqb x n) eqn:E; auto. apply Nat.eqb_eq in E. subst x.
      rewrite Qn in Hc. rewrite Q. apply in_app_or in Hc as [Hc|[<-|Hc]]; auto.
      + left. apply in_or_app. auto.
      + left. apply in_or_app. right. right. exact Hc.
    - apply in_map_iff in Hc as [i [<- _]]. discriminate. }
  constructor; cbn [n_q n_next n_arr n_done n_ans n_der n_out].
  - intros x. destruct (SS x) as [A B]. rewrite A, B, map_app, map_map. cbn [q_id]. rewrite map_id, app_assoc. f_equal.
    unfold upd. destruct (Nat.eqb x n) eqn:E; [|apply Ia]. apply Nat.eqb_eq in E. subst x. rewrite Qn_ids. apply Ia.
  - intros x id Hid. destruct (SS x) as [_ B]. rewrite B in Hid. apply in_app_or in Hid as [Hid|Hid].
    + apply If in Hid. lia.
    + apply sent_to_in, TI in Hid. lia.
  - intros x. destruct (SS x) as [_ B]. rewrite B. apply nodup_app_disj; auto.
    + apply sent_to_nodup.
    + intros i Hi Hs. apply If in Hi. apply sent_to_in, TI in Hs. lia.
  - intros x Hx. destruct (SS x) as [A _]. rewrite A.
    assert (E1 : upd (n_q st) n qn x = []).
    { unfold upd. destruct (Nat.eqb x n) eqn:E; [|auto]. apply Nat.eqb_eq in E. subst x.
      rewrite (Ib n Hx) in ST. discriminate. }
    assert (E2 : sent_to x tis = []).
    { destruct (sent_to x tis) as [|i l] eqn:E; auto. assert (Hi : In i (sent_to x tis)) by (rewrite E; left; reflexivity).
      apply sent_to_in, TI in Hi. lia. }
    rewrite E1, E2. reflexivity.
  - intros x c own' rw' p Hc Hs Hp. destruct (NEW x c own' rw' Hc Hs) as [Hold|[-> ->]].
    + destruct (Ik x c own' rw' p Hold Hs Hp) as [t [c2 [A [B [Cc D]]]]].
      destruct (OLD t c2 B) as [c3 [G1 [G2 [G3 _]]]]. exists t, c3. repeat split; auto; congruence.
    + cbn in Hs. injection Hs as <- <-. apply fresh_row_in in Hp as [_ Hp].
      destruct (kids_sent tgts (n_next st) p Hp) as [t Ht]. fold ids in Ht. fold tis in Ht.
      exists t, (mkreq p (Some (n, rid)) None). split; [apply (TI t p Ht)|]. split; [|split; auto].
      * destruct (SS t) as [A _]. rewrite A. apply in_or_app. right. apply in_map_iff. exists p. split; auto.
        apply in_sent_to, Ht.
      * cbn. rewrite Rid. reflexivity.
  - intros x c own' rw' Hc Hs. destruct (NEW x c own' rw' Hc Hs) as [Hold|[-> ->]].
    + destruct (Ir x c own' rw' Hold Hs) as [A B]. split; auto. right. exact A.
    + cbn in Hs. injection Hs as <- <-. rewrite fresh_row_fst. split.
      * left. cbn. rewrite Rid. reflexivity.
      * intros p a Hp. apply fresh_row_in in Hp as [Hp _]. discriminate.
  - eapply ans_ok_mono; [|exact Ians]. intros x Hx. right. exact Hx.
  - exact Iad.
  - intros x y id Hx Hy. destruct (SS x) as [_ Bx]. destruct (SS y) as [_ By]. rewrite Bx in Hx. rewrite By in Hy.
    apply in_app_or in Hx as [Hx|Hx]; apply in_app_or in Hy as [Hy|Hy].
    + eapply Idj; eauto.
    + apply If in Hx. apply sent_to_in, TI in Hy. lia.
    + apply If in Hy. apply sent_to_in, TI in Hx. lia.
    + apply sent_to_in in Hx. apply sent_to_in in Hy. eapply combine_seq_fun; eauto.
  - exact Ind.
  - intros id own0 kids [E|Hd].
    + injection E as <- _ _. left. exists n, r'. split; [|split; [exact Rid|discriminate]].
      destruct (SS n) as [A _]. rewrite A, upd_same, Qn. apply in_or_app. left. apply in_or_app. right. left. reflexivity.
    + destruct (Ide id own0 kids Hd) as [[m [c [Hc [Hi Hs]]]]|[m Hm]]; [left|right; eauto].
      destruct (OLD m c Hc) as [c3 [G1 [G2 [_ G4]]]]. exists m, c3. split; auto. split; [congruence|auto].
  - cbn [map fst]. constructor; auto. intros Hin. apply in_map_iff in Hin as [[[i o] k] [E Hd]]. cbn in E. subst i.
    assert (Hr : In r (n_q st n)) by (rewrite Q; apply in_or_app; right; left; reflexivity).
    assert (An : In rid (n_arr st n)) by (rewrite Ia; apply in_or_app; right; rewrite <- Rid; apply in_map, Hr).
    destruct (Ide rid o k Hd) as [[m [c [Hc [Hi Hs]]]]|[m Hm]].
    + assert (Am : In rid (n_arr st m)) by (rewrite Ia; apply in_or_app; right; rewrite <- Hi; apply in_map, Hc).
      assert (m = n) by (eapply Idj; eauto). subst m.
      assert (c = r); [|subst c; congruence].
      pose proof (In_ n) as Nd. rewrite Ia in Nd. apply nodup_app_r in Nd.
      apply (nodup_map_inj q_id (n_q st n)); auto. congruence.
    + assert (Am : In rid (n_arr st m)) by (rewrite Ia; apply in_or_app; auto).
      assert (m = n) by (eapply Idj; eauto). subst m.
      pose proof (In_ n) as Nd. rewrite Ia in Nd. apply (nodup_app_both _ _ rid Nd Hm). rewrite <- Rid. apply in_map, Hr.
Qed.

(* ---- every reachable state ---- *)
Lemma step_inv st l st' : Inv st -> step st l = Some st' -> Inv st'.
Proof. destruct l; [apply step_in|apply step_proc|apply step_ans|apply step_close|apply step_drop]. Qed.

Lemma step'_inv st l : Inv st -> Inv (step' st l).
Proof. intros I. unfold step'. destruct (step st l) eqn:E; auto. eapply step_inv; eauto. Qed.

Theorem run_inv ls : Inv (run ls).
Proof.
  unfold run. assert (G : forall st, Inv st -> Inv (fold_left step' ls st)).
  { induction ls as [|l ls IH]; cbn; auto. intros st I. apply IH, step'_inv, I. }
  apply G, inv0.
Qed.

(* each request a node received is answered at most once, in arrival order; nothing else is answered *)
Theorem answered_once_in_order ls n :
  let st := run ls in
  n_arr st n = n_done st n ++ map q_id (n_q st n) /\ NoDup (n_arr st n).
Proof. destruct (run_inv ls) as [Ia _ In_ _ _ _ _ _ _ _ _ _]. split; auto. Qed.

(* every answer is its node's own result (nothing derived), or the join of answers given earlier to
   the packets derived from the request *)
Theorem answers_justified ls : ans_ok (n_der (run ls)) (n_ans (run ls)).
Proof. apply (i_ans _ (run_inv ls)). Qed.

(* ---- no deadlock ---- *)
Lemma max_nonempty {A} (f : nat -> list A) : forall B, (forall t, B <= t -> f t = []) -> (exists n, f n <> []) ->
  exists n, f n <> [] /\ forall t, n < t -> f t = [].
Proof.
  induction B as [|B IH]; intros Hb [n Hn].
  - exfalso. apply Hn, Hb. lia.
  - destruct (f B) as [|a l] eqn:E.
    + apply IH; eauto. intros t Ht. destruct (Nat.eq_dec t B) as [->|Hne]; auto. apply Hb. lia.
    + exists B. split; [rewrite E; discriminate|]. intros t Ht. apply Hb. lia.
Qed.

Definition busy (st : net) : Prop := exists n, n_q st n <> [].

Theorem can_move st : Inv st -> busy st ->
  (exists n, forall own, step st (LProc n own []) <> None) \/ (exists n, step st (LAns n) <> None).
Proof.
  intros I Hb. destruct (max_nonempty (n_q st) N (i_bound _ I) Hb) as [n [Hn Hmax]].
  destruct (n_q st n) as [|r rest] eqn:Q; [congruence|].
  destruct (q_st r) as [[own rw]|] eqn:S.
  - right. exists n. cbn [step]. rewrite Q, S. destruct (complete rw) eqn:C; [discriminate|]. exfalso.
    destruct (incomplete_none rw C) as [p Hp].
    assert (Hr : In r (n_q st n)) by (rewrite Q; left; reflexivity).
    destruct (i_kids _ I n r own rw p Hr S Hp) as [t [c [A [B _]]]]. rewrite (Hmax t A) in B. destruct B.
  - left. exists n. intros own. cbn [step forallb length seq]. rewrite Q. cbn [start]. rewrite S. discriminate.
Qed.

(* a network that cannot move has answered everything it received, exactly once and in order *)
Theorem quiescent_all_answered ls :
  let st := run ls in
  (forall n own, step st (LProc n own []) = None) -> (forall n, step st (LAns n) = None) -> (exists own : ans, True) ->
  forall n, n_q st n = [] /\ n_done st n = n_arr st n /\ NoDup (n_done st n).
Proof.
  intros st HP HA [own _] n. pose proof (run_inv ls) as I. fold st in I.
  assert (E : n_q st n = []).
  { destruct (n_q st n) as [|r rest] eqn:Q; auto. exfalso.
    destruct (can_move st I) as [[m Hm]|[m Hm]].
    - exists n. rewrite Q. discriminate.
    - apply (Hm own), HP.
    - apply Hm, HA. }
  split; auto. pose proof (i_arr _ I n) as A. rewrite E in A. cbn in A. rewrite app_nil_r in A.
  split; auto. rewrite <- A. apply (i_nodup _ I).
Qed.

(* ---- teardown (C03 at the level of a workflow): close every node, at any point of any run, and let the closed nodes
   answer what they hold with the dropped-packet error: every request that ever arrived anywhere is answered
   exactly once, and nothing stays pending ---- *)
Fixpoint iter {A} (k : nat) (f : A -> A) (x : A) : A := match k with 0 => x | S k' => iter k' f (f x) end.

Definition close_all (st : net) : net := fold_left step' (map LClose (seq 0 N)) st.
Definition drop_node (st : net) (n : nat) : net := iter (length (n_q st n)) (fun s => step' s (LDrop n)) st.
Definition teardown (st : net) : net := fold_left drop_node (seq 0 N) (close_all st).

Lemma answer_len st n r rest a x :
  n_q st n = r :: rest ->
  length (n_q (answer st n r rest a) x) = if Nat.eqb x n then length rest else length (n_q st x).
Proof.
  intros Q. unfold answer. cbn [n_q].
  assert (E : forall y, length (upd (n_q st) n rest y) = if Nat.eqb y n then length rest else length (n_q st y)).
  { intros y. unfold upd. destruct (Nat.eqb y n); reflexivity. }
  destruct (q_from r) as [[m rq]|]; [|apply E].
  unfold upd at 1. destruct (Nat.eqb x m) eqn:Em; [|apply E].
  apply Nat.eqb_eq in Em. subst m. rewrite map_length. apply E.
Qed.

Lemma answer_closed st n r rest a : n_closed (answer st n r rest a) = n_closed st.
Proof. reflexivity. Qed.

Lemma close_all_spec : forall ns st, Inv st ->
  let st' := fold_left step' (map LClose ns) st in
  Inv st' /\ (forall x, n_q st' x = n_q st x) /\ (forall x, n_arr st' x = n_arr st x) /\
  (forall x, In x ns \/ n_closed st x = true -> n_closed st' x = true).
Proof.
  induction ns as [|n ns IH]; intros st I; cbn [map fold_left]; cbv zeta.
  - split; [exact I|]. split; [reflexivity|]. split; [reflexivity|]. intros x [[]|H]; exact H.
  - assert (I1 : Inv (step' st (LClose n))) by (apply step'_inv, I).
    destruct (IH _ I1) as [A [B [C D]]]. split; auto. split; [|split].
    + intros x. rewrite B. reflexivity.
    + intros x. rewrite C. reflexivity.
    + intros x Hx. apply D. destruct Hx as [[<-|Hx]|Hx]; auto; right; cbn; unfold upd.
      * rewrite Nat.eqb_refl. reflexivity.
      * destruct (Nat.eqb x n); auto.
Qed.

Lemma drop_iter : forall k st n, Inv st -> n_closed st n = true -> length (n_q st n) = k ->
  let st' := iter k (fun s => step' s (LDrop n)) st in
  Inv st' /\ n_q st' n = [] /\ (forall x, x <> n -> length (n_q st' x) = length (n_q st x)) /\
  n_closed st' = n_closed st /\ (forall x, n_arr st' x = n_arr st x).
Proof.
  induction k as [|k IH]; intros st n I Cn L; cbn [iter]; cbv zeta.
  - split; [exact I|]. split; [destruct (n_q st n); [reflexivity|discriminate]|]. split; [reflexivity|]. split; reflexivity.
  - destruct (n_q st n) as [|r rest] eqn:Q; [discriminate|].
    assert (E : step' st (LDrop n) = answer st n r rest drop).
    { unfold step'. cbn [step]. rewrite Cn, Q. reflexivity. }
    rewrite E.
    assert (I1 : Inv (answer st n r rest drop)) by (apply answer_inv; auto; left; reflexivity).
    assert (L1 : length (n_q (answer st n r rest drop) n) = k).
    { rewrite (answer_len st n r rest drop n Q), Nat.eqb_refl. cbn in L. lia. }
    destruct (IH _ n I1 Cn L1) as [A [B [C [D F]]]]. split; auto. split; auto. split; [|split; auto].
    intros x Hx. rewrite (C x Hx), (answer_len st n r rest drop x Q).
    apply Nat.eqb_neq in Hx. rewrite Hx. reflexivity.
Qed.

Lemma drop_nodes : forall ns st, Inv st -> (forall x, In x ns -> n_closed st x = true) -> NoDup ns ->
  let st' := fold_left drop_node ns st in
  Inv st' /\ (forall x, In x ns -> n_q st' x = []) /\
  (forall x, ~ In x ns -> length (n_q st' x) = length (n_q st x)) /\ (forall x, n_arr st' x = n_arr st x).
Proof.
  induction ns as [|n ns IH]; intros st I Cl Nd; cbn [fold_left]; cbv zeta.
  - split; [exact I|]. split; [intros x []|]. split; reflexivity.
  - inversion Nd as [|? ? Hn Hd]; subst.
    pose proof (drop_iter (length (n_q st n)) st n I (Cl n (or_introl eq_refl)) eq_refl) as P. cbv zeta in P.
    change (iter (length (n_q st n)) (fun s => step' s (LDrop n)) st) with (drop_node st n) in P.
    destruct P as [A [B [C [D F]]]].
    assert (Cl1 : forall x, In x ns -> n_closed (drop_node st n) x = true).
    { intros x Hx. rewrite D. apply Cl. right. exact Hx. }
    destruct (IH _ A Cl1 Hd) as [A2 [B2 [C2 F2]]]. split; auto. split; [|split].
    + intros x [<-|Hx]; [|apply B2, Hx].
      assert (L : length (n_q (fold_left drop_node ns (drop_node st n)) n) = 0) by (rewrite (C2 n Hn), B; reflexivity).
      destruct (n_q (fold_left drop_node ns (drop_node st n)) n); [reflexivity|discriminate L].
    + intros x Hx. rewrite C2 by (intros H; apply Hx; right; exact H). apply C. intros ->. apply Hx. left. reflexivity.
    + intros x. rewrite F2. apply F.
Qed.

Theorem teardown_releases_all st :
  Inv st ->
  let st' := teardown st in
  Inv st' /\ forall n, n_q st' n = [] /\ n_done st' n = n_arr st n /\ NoDup (n_done st' n).
Proof.
  intros I. cbv zeta. unfold teardown.
  destruct (close_all_spec (seq 0 N) st I) as [A [B [C D]]]. fold (close_all st) in A, B, C, D.
  assert (Cl : forall x, In x (seq 0 N) -> n_closed (close_all st) x = true) by (intros x Hx; apply D; auto).
  destruct (drop_nodes (seq 0 N) (close_all st) A Cl (seq_NoDup N 0)) as [A2 [B2 [C2 F2]]].
  split; auto. intros n.
  assert (E : n_q (fold_left drop_node (seq 0 N) (close_all st)) n = []).
  { destruct (Nat.lt_ge_cases n N) as [Hlt|Hge].
    - apply B2, in_seq. lia.
    - apply (i_bound _ A2), Hge. }
  split; auto. pose proof (i_arr _ A2 n) as Ar. rewrite E in Ar. cbn in Ar. rewrite app_nil_r in Ar.
  split.
  - rewrite <- Ar, F2, C. reflexivity.
  - rewrite <- Ar. apply (i_nodup _ A2).
Qed.

(* at any point of any run *)
Theorem teardown_any_run ls :
  let st := run ls in
  let st' := teardown st in
  (forall n, n_q st' n = [] /\ n_done st' n = n_arr st n /\ NoDup (n_done st' n)) /\ ans_ok (n_der st') (n_ans st').
Proof.
  intros st st'. destruct (teardown_releases_all st (run_inv ls)) as [A B]. split; auto. apply (i_ans _ A).
Qed.

(* over the whole network: a packet has at most one recorded answer, and it has one exactly when some node has
   answered it; after a teardown every packet that ever arrived anywhere has exactly one *)
Theorem one_answer_per_packet ls :
  let st := run ls in
  NoDup (map fst (n_ans st)) /\ forall id, In id (map fst (n_ans st)) <-> exists n, In id (n_done st n).
Proof. pose proof (run_inv ls) as I. split; [apply (i_ansnd _ I)|apply (i_ansdone _ I)]. Qed.

Theorem teardown_one_answer ls :
  let st' := teardown (run ls) in
  NoDup (map fst (n_ans st')) /\ forall n id, In id (n_arr (run ls) n) -> In id (map fst (n_ans st')).
Proof.
  cbv zeta. destruct (teardown_releases_all (run ls) (run_inv ls)) as [A B]. split; [apply (i_ansnd _ A)|].
  intros n id Hid. apply (i_ansdone _ A). exists n. destruct (B n) as [_ [E _]]. rewrite E. exact Hid.
Qed.

(* a request's action finishes once: one derivation record per request *)
Theorem derivations_functional ls : NoDup (map (fun d => fst (fst d)) (n_der (run ls))).
Proof. apply (i_dernd _ (run_inv ls)). Qed.

(* a closed node never waits for anybody: whatever it holds it can answer at once *)
Theorem closed_can_drop st n : n_closed st n = true -> n_q st n <> [] -> step st (LDrop n) <> None.
Proof.
  intros C Q. cbn [step]. rewrite C. destruct (n_q st n); [congruence|discriminate].
Qed.

End Net.
