(* C03 for one node: closing the node (Tracer.Close) releases every requester that is still waiting at it - each
   request the node has read is answered exactly once by the time the close returns: with its real answer before, or
   with a dropped-packet error at the close - and the tracer keeps nothing. *)
From Coq Require Import List Arith Bool Lia Permutation.
From Uf Require Import Packet.Writer Node.Tracer Node.TracerProofs Node.Spec Node.Refine.
Import ListNotations.

Lemma close_sim t s : Sim t s -> Sim (t_close t) (s_close s).
Proof.
  intros Sm. unfold t_close. rewrite (sim_crash _ _ _ Sm). destruct Sm as [S1 S2 S3 S4 S5 S6 S7 S8 S9].
  split; unfold s_close, std_receives, std_targets, written; cbn; try reflexivity; try assumption.
  rewrite S5, S2. reflexivity.
Qed.

(* ---- the reader map and the queues tell the same story ---- *)
Record RO (s : sstate) : Prop := {
  ro_in : forall rd r, nget rd (s_reader s) = Some r -> In rd (lst (nget r (s_reads s)));
  ro_keys : NoDup (map fst (s_reader s))
}.

Lemma ndel_keys {V} k (m : list (nat * V)) : NoDup (map fst m) -> NoDup (map fst (ndel k m)).
Proof.
  unfold ndel. induction m as [|[k0 v0] m IH]; cbn; intros ND; [constructor|]. inversion ND as [|? ? N ND']; subst.
  destruct (Nat.eqb k k0); cbn; [apply IH; exact ND'|]. constructor; [|apply IH; exact ND'].
  intros I. apply N. apply in_map_iff in I. destruct I as [x [E I]]. apply filter_In in I. apply in_map_iff. exists x. tauto.
Qed.
Lemma nset_keys {V} k (v : V) m : NoDup (map fst m) -> NoDup (map fst (nset k v m)).
Proof.
  intros ND. unfold nset. cbn. constructor; [|apply ndel_keys; exact ND].
  intros I. apply in_map_iff in I. destruct I as [x [E I]]. unfold ndel in I. apply filter_In in I. destruct I as [_ F].
  rewrite E, Nat.eqb_refl in F. discriminate.
Qed.

Lemma nget_in {V} k (v : V) m : nget k m = Some v -> In (k, v) m.
Proof. induction m as [|[k0 v0] m IH]; cbn; [discriminate|]. destruct (Nat.eqb_spec k k0); [intros E; injection E as <-; subst; left; reflexivity|intros E; right; apply IH; exact E]. Qed.
Lemma in_nget {V} k (v : V) m : NoDup (map fst m) -> In (k, v) m -> nget k m = Some v.
Proof.
  induction m as [|[k0 v0] m IH]; cbn; intros ND I; [destruct I|]. inversion ND as [|? ? N ND']; subst.
  destruct I as [I|I].
  - injection I as -> ->. rewrite Nat.eqb_refl. reflexivity.
  - destruct (Nat.eqb_spec k k0) as [E|E]; [|apply IH; assumption]. subst k0. exfalso. apply N. apply in_map_iff. exists (k, v). auto.
Qed.

Lemma flush_keys r : forall l s s' rest, s_flush s r l = (s', rest) -> NoDup (map fst (s_reader s)) -> NoDup (map fst (s_reader s')).
Proof.
  induction l as [|rd l IH]; intros s s' rest H ND; cbn [s_flush] in H; [injection H as <- _; exact ND|].
  destruct (nget rd (s_rows s)) as [rw|]; [|injection H as <- _; exact ND]. destruct (complete rw); [|injection H as <- _; exact ND].
  apply IH in H; [exact H|]. cbn [s_reader su_rows su_reader su_out]. apply ndel_keys. exact ND.
Qed.

Lemma ro_flush s r : WF s -> RO s -> RO (s_flush_reader s r).
Proof.
  intros W [R1 R2]. unfold s_flush_reader. destruct (s_flush s r (lst (nget r (s_reads s)))) as [s1 rest] eqn:F.
  pose proof (flush_keys _ _ _ _ _ F R2) as K.
  destruct (s_flush_spec _ _ _ _ _ F) as [done [E [H1 [H2 [H3 [F1 _]]]]]].
  split; cbn [s_reader s_reads su_reads]; [|exact K].
  intros rd r' Hr. rewrite H1 in Hr. destruct (memb rd done) eqn:M; [discriminate|]. specialize (R1 rd r' Hr).
  rewrite F1. destruct (Nat.eq_dec r' r) as [Er|Er].
  - subst r'. rewrite E in R1. apply in_app_or in R1. destruct R1 as [R1|R1]; [apply memb_In in R1; congruence|].
    destruct rest as [|x rest']; [destruct R1|]. rewrite nget_nset, Nat.eqb_refl. exact R1.
  - destruct rest; [rewrite nget_ndel|rewrite nget_nset]; destruct (Nat.eqb_spec r' r); try contradiction; exact R1.
Qed.

Lemma ro_settle_src d j s s0 : WF s -> RO s -> RO (s_settle_src d j s s0).
Proof.
  intros W R. unfold s_settle_src. destruct (nget s0 (s_rows s)) as [rw|] eqn:Er; [|exact R].
  set (s1 := su_rows s (nset s0 (fill_row d j rw) (s_rows s))).
  assert (R1 : RO s1) by (destruct R as [A B]; split; exact A || exact B).
  destruct (complete (fill_row d j rw)); [|exact R1]. destruct (nget s0 (s_reader s1)) as [r|]; [|exact R1].
  (* the flush only needs the queues and the reader map, which s1 shares with s *)
  unfold s_flush_reader. destruct (s_flush s1 r (lst (nget r (s_reads s1)))) as [s2 rest] eqn:F.
  pose proof (flush_keys _ _ _ _ _ F (ro_keys _ R1)) as K.
  destruct (s_flush_spec _ _ _ _ _ F) as [done [E [H1 [H2 [H3 [F1 _]]]]]].
  split; cbn [s_reader s_reads su_reads]; [|exact K].
  intros rd r' Hr. rewrite H1 in Hr. destruct (memb rd done) eqn:M; [discriminate|]. pose proof (ro_in _ R1 rd r' Hr) as I1.
  rewrite F1. destruct (Nat.eq_dec r' r) as [Eq|Eq].
  - subst r'. rewrite E in I1. apply in_app_or in I1. destruct I1 as [I1|I1]; [apply memb_In in I1; congruence|].
    destruct rest as [|x rest']; [destruct I1|]. rewrite nget_nset, Nat.eqb_refl. exact I1.
  - destruct rest; [rewrite nget_ndel|rewrite nget_nset]; destruct (Nat.eqb_spec r' r); try contradiction; exact I1.
Qed.

Lemma ro_settle s d j : WF s -> RO s -> RO (s_settle s d j).
Proof.
  intros W R. unfold s_settle. destruct (nget d (s_srcs s)) as [ss|] eqn:E; [|exact R].
  assert (W0 : WF (su_srcs s (ndel d (s_srcs s)))) by (apply wf_del_srcs; exact W).
  assert (N0 : nget d (s_srcs (su_srcs s (ndel d (s_srcs s)))) = None) by (cbn [s_srcs su_srcs]; rewrite nget_ndel, Nat.eqb_refl; reflexivity).
  assert (R0 : RO (su_srcs s (ndel d (s_srcs s)))) by (destruct R as [A B]; split; exact A || exact B).
  clear E. revert W0 N0 R0. generalize (su_srcs s (ndel d (s_srcs s))) as s1. induction ss as [|s0 ss IH]; intros s1 W1 N1 R1; cbn [fold_left]; [exact R1|].
  destruct (wf_settle_src s1 d j s0 W1 N1) as [W2 E2]. apply IH; [exact W2|rewrite E2; exact N1|apply ro_settle_src; assumption].
Qed.

Lemma step_RO s op : WF s -> allowed s op = true -> RO s -> RO (s_step s op).
Proof.
  intros W A R. pose proof R as [R1 R2]. destruct op as [r p pl|src tgt pl|w p a|w back]; cbn [s_step].
  - split; cbn [s_reader s_reads su_used su_pay su_reader su_reads]; [|apply nset_keys; exact R2].
    intros rd r' Hr. rewrite nget_nset in Hr. rewrite nget_nset. destruct (Nat.eqb_spec rd p) as [E|E].
    + injection Hr as <-. subst rd. rewrite Nat.eqb_refl. apply in_or_app. right. left. reflexivity.
    + specialize (R1 rd r' Hr). destruct (Nat.eqb_spec r' r) as [Er|Er]; [subst r'; apply in_or_app; left; exact R1|exact R1].
  - split; [exact R1|exact R2].
  - assert (G : RO (match nget p (s_reader s) with
      | Some r => s_flush_reader (su_rows s (nset p [(p, Some (echo s p))] (s_rows s))) r
      | None => s_settle (su_lnk s (filter (fun x => negb (Nat.eqb x p)) (s_lnk s))) p (join [echo s p]) end)).
    { destruct (nget p (s_reader s)) as [r|] eqn:Er.
      - set (s1 := su_rows s (nset p [(p, Some (echo s p))] (s_rows s))).
        assert (R1' : RO s1) by (split; [exact R1|exact R2]).
        unfold s_flush_reader. destruct (s_flush s1 r (lst (nget r (s_reads s1)))) as [s2 rest] eqn:F.
        pose proof (flush_keys _ _ _ _ _ F (ro_keys _ R1')) as K.
        destruct (s_flush_spec _ _ _ _ _ F) as [done [E [H1 [H2 [H3 [F1 _]]]]]].
        split; cbn [s_reader s_reads su_reads]; [|exact K].
        intros rd r' Hr. rewrite H1 in Hr. destruct (memb rd done) eqn:M; [discriminate|]. pose proof (ro_in _ R1' rd r' Hr) as I1.
        rewrite F1. destruct (Nat.eq_dec r' r) as [Eq|Eq].
        + subst r'. rewrite E in I1. apply in_app_or in I1. destruct I1 as [I1|I1]; [apply memb_In in I1; congruence|].
          destruct rest as [|x rest']; [destruct I1|]. rewrite nget_nset, Nat.eqb_refl. exact I1.
        + destruct rest; [rewrite nget_ndel|rewrite nget_nset]; destruct (Nat.eqb_spec r' r); try contradiction; exact I1.
      - apply ro_settle; [|split; [exact R1|exact R2]].
        pose proof W as [W1 W2 W3 W4 W5 W6 W7 W8 W9 W10 W11 W12]. split; unfold written in *; proj; auto.
        + intros rd H. destruct (W1 rd H) as [B1 [B2 [B3 B4]]]. rewrite memb_filter_ne, B3, andb_false_r. auto.
        + intros d. rewrite memb_filter_ne. intros H. apply andb_prop in H. destruct H as [_ H]. apply W6. exact H. }
    destruct w as [w|]; [destruct a|]; try exact G. split; [exact R1|exact R2].
  - destruct (lst (nget w (s_writes s))) as [|d rest] eqn:E; [exact R|]. apply ro_settle; [|split; [exact R1|exact R2]].
    apply (wf_pop s w d rest W E).
Qed.

Lemma run_RO : forall ops s, WF s -> RO s -> disciplined_from s ops = true -> RO (fold_left s_step ops s).
Proof.
  induction ops as [|op ops IH]; intros s W R D; cbn [fold_left]; [exact R|].
  cbn [disciplined_from] in D. apply andb_prop in D. destruct D as [A D]. apply IH; [apply step_wf; assumption|apply step_RO; assumption|exact D].
Qed.

Lemma RO_init : RO s_init. Proof. split; cbn; [intros rd r H; discriminate|constructor]. Qed.

(* ---- the theorem ---- *)
Lemma out_of_close r t : t_crash t = false ->
  out_of r (t_close t) = out_of r t ++ map fst (filter (fun e : nat * nat => Nat.eqb (snd e) r) (t_reader t)).
Proof.
  intros C. unfold t_close, out_of. rewrite C. cbn [t_out]. rewrite filter_app, map_app. f_equal.
  induction (t_reader t) as [|[rd r'] l IH]; cbn; [reflexivity|]. destruct (Nat.eqb r' r); cbn; [f_equal|]; exact IH.
Qed.

(* Every request a node has read is answered exactly once by the time Close returns, and the tracer is empty. *)
Theorem close_releases_all ops r : disciplined ops = true ->
  Permutation (out_of r (t_close (t_run ops))) (issued r t_init ops) /\
  t_reads (t_close (t_run ops)) = [] /\ t_reader (t_close (t_run ops)) = [] /\ t_receives (t_close (t_run ops)) = [] /\
  t_sources (t_close (t_run ops)) = [] /\ t_targets (t_close (t_run ops)) = [] /\ t_writes (t_close (t_run ops)) = [].
Proof.
  intros D. destruct (run_sim ops t_init s_init Sim_init WF_init D) as [Sm W].
  pose proof (run_RO ops s_init WF_init RO_init D) as R. fold (t_run ops) in Sm. fold (s_run ops) in Sm, W, R.
  set (t := t_run ops) in *. set (s := s_run ops) in *. pose proof (sim_crash _ _ _ Sm) as C. split.
  - rewrite (out_of_close r t C), <- (t_run_ledger ops r). fold t. unfold ledger_of. apply Permutation_app_head.
    unfold reads_of. rewrite (sim_reader _ _ _ Sm), (sim_reads _ _ _ Sm). apply NoDup_Permutation.
    + destruct R as [_ K]. clear -K. induction (s_reader s) as [|[rd r'] l IH]; cbn in *; [constructor|]. inversion K as [|? ? N K']; subst.
      destruct (Nat.eqb r' r); cbn; [constructor; [|apply IH; exact K']|apply IH; exact K'].
      intros I. apply N. apply in_map_iff in I. destruct I as [x [E I]]. apply filter_In in I. apply in_map_iff. exists x. tauto.
    + apply (w_reads_nodup _ W).
    + intros rd. split.
      * intros I. apply in_map_iff in I. destruct I as [[rd' r'] [E I]]. cbn in E. subst rd'. apply filter_In in I. destruct I as [I F].
        cbn in F. apply Nat.eqb_eq in F. subst r'. apply (ro_in _ R). apply in_nget; [apply (ro_keys _ R)|exact I].
      * intros I. pose proof (w_reads _ W r rd I) as Hr. apply nget_in in Hr. apply in_map_iff. exists (rd, r). split; [reflexivity|].
        apply filter_In. split; [exact Hr|cbn; apply Nat.eqb_refl].
  - unfold t_close. rewrite C. cbn. repeat split; reflexivity.
Qed.
