(* The network of specification nodes with real packets: answers are packets, the join is packet.Join, a closed node
   answers with the dropped-packet error.  "An error anywhere makes the answer an error" (C02): an error among the
   answers to the packets derived from a request makes the request's answer an error - and so on up to the source. *)
From Coq Require Import List Arith ZArith Bool Lia.
From Uf Require Import Packet.Writer Packet.WriterProofs Node.Network.
Import ListNotations.

Lemma join_error_dominates ps : existsb is_err ps = true -> is_err (join ps) = true.
Proof.
  destruct ps as [|p [|q ps]]; intros H.
  - discriminate.
  - cbn in H. rewrite orb_false_r in H. exact H.
  - rewrite (join_errors p q ps H). reflexivity.
Qed.

(* a chain of derivations: id0 derived id1 derived ... derived idk, each answered *)
Inductive below (der : list (nat * pkt * list nat)) : nat -> nat -> Prop :=
| below_refl id : below der id id
| below_step id own kids k id' : In (id, own, kids) der -> In k kids -> below der k id' -> below der id id'.

(* an answer is the dropped-packet error (closed node), the node's own result, or the join of the answers to the
   derived packets; the derivation record of a request is unique *)
Definition der_fun (der : list (nat * pkt * list nat)) : Prop :=
  forall id o1 k1 o2 k2, In (id, o1, k1) der -> In (id, o2, k2) der -> o1 = o2 /\ k1 = k2.
Definition ans_fun (l : list (nat * pkt)) : Prop :=
  forall id a b, In (id, a) l -> In (id, b) l -> a = b.

Lemma nodup_fun {A B} (l : list (A * B)) : NoDup (map fst l) -> forall k a b, In (k, a) l -> In (k, b) l -> a = b.
Proof.
  induction l as [|[k0 v0] l IH]; cbn; [tauto|]. intros Nd k a b Ha Hb. inversion Nd as [|? ? Hn Hd]; subst.
  destruct Ha as [Ea|Ha], Hb as [Eb|Hb].
  - congruence.
  - injection Ea as -> ->. exfalso. apply Hn. apply in_map_iff. exists (k, b). auto.
  - injection Eb as -> ->. exfalso. apply Hn. apply in_map_iff. exists (k, a). auto.
  - eapply IH; eauto.
Qed.

Lemma justified_error der l earlier id a own kids k x :
  der_fun der -> ans_fun l -> (forall y, In y earlier -> In y l) ->
  justified pkt join dropped der earlier id a -> In (id, own, kids) der -> In k kids -> In (k, x) l -> is_err x = true ->
  is_err a = true.
Proof.
  intros DF AF Sub [->|[own' [kids' [Hd [[-> _]|[Hne [xs [F2 ->]]]]]]]] Hd' Hk Hx Ex.
  - reflexivity.
  - destruct (DF _ _ _ _ _ Hd Hd') as [_ <-]. destruct Hk.
  - destruct (DF _ _ _ _ _ Hd Hd') as [_ <-]. apply join_error_dominates.
    clear Hne Hd Hd'. induction F2 as [|k0 x0 kids0 xs0 H0 F2 IH]; [destruct Hk|].
    cbn. destruct Hk as [->|Hk].
    + rewrite (AF _ _ _ (Sub _ H0) Hx), Ex. reflexivity.
    + rewrite (IH Hk). apply orb_true_r.
Qed.

Lemma ans_ok_error der : der_fun der -> forall l, ans_ok pkt join dropped der l -> forall full, ans_fun full -> (forall y, In y l -> In y full) ->
  forall id a own kids k x, In (id, a) l -> In (id, own, kids) der -> In k kids -> In (k, x) full -> is_err x = true -> is_err a = true.
Proof.
  intros DF. induction l as [|[i0 a0] l IH]; cbn [ans_ok]; intros OKl full AF Sub id a own kids k x Ha Hd Hk Hx Ex; [destruct Ha|].
  destruct OKl as [J OK]. destruct Ha as [E|Ha].
  - injection E as -> ->. eapply (justified_error der full l); eauto. intros y Hy. apply Sub. right. exact Hy.
  - eapply (IH OK full); eauto. intros y Hy. apply Sub. right. exact Hy.
Qed.

(* an error among the answers to the packets derived from a request makes the request's answer an error *)
Theorem error_propagates N ls :
  let st := run pkt join dropped N ls in
  forall id a own kids k x,
    In (id, a) (n_ans pkt st) -> In (id, own, kids) (n_der pkt st) -> In k kids -> In (k, x) (n_ans pkt st) ->
    is_err x = true -> is_err a = true.
Proof.
  cbv zeta. intros id a own kids k x Ha Hd Hk Hx Ex.
  pose proof (derivations_functional pkt join dropped N ls) as DN.
  pose proof (one_answer_per_packet pkt join dropped N ls) as [AN _].
  eapply (ans_ok_error (n_der pkt (run pkt join dropped N ls))); eauto.
  - intros i o1 k1 o2 k2 H1 H2.
    assert (E : (o1, k1) = (o2, k2)).
    { apply (nodup_fun (map (fun d => (fst (fst d), (snd (fst d), snd d))) (n_der pkt (run pkt join dropped N ls)))) with (k := i).
      - rewrite map_map. cbn. exact DN.
      - apply in_map_iff. exists (i, o1, k1). auto.
      - apply in_map_iff. exists (i, o2, k2). auto. }
    injection E as -> ->. auto.
  - apply answers_justified.
  - intros i a1 a2. apply nodup_fun, AN.
Qed.
