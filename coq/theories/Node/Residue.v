(* C05, the tracer's share: once every request a node has read is answered and no written packet is outstanding, the
   node's tracer holds nothing - no queue, no slot, no link - for every disciplined sequence of calls. *)
From Coq Require Import List Arith Bool Lia.
From Uf Require Import Packet.Writer Node.Tracer Node.TracerProofs Node.Spec Node.Refine.
Import ListNotations.

(* source lists are never empty: a packet gets its entry with its first link and loses it as a whole *)
Definition SrcNE (s : sstate) : Prop := forall d ss, nget d (s_srcs s) = Some ss -> ss <> [].

Lemma flush_srcs s r : s_srcs (s_flush_reader s r) = s_srcs s.
Proof.
  unfold s_flush_reader. destruct (s_flush s r (lst (nget r (s_reads s)))) as [s1 rest] eqn:F.
  destruct (s_flush_spec _ _ _ _ _ F) as [done [_ [_ [_ [_ [_ [F2 _]]]]]]]. cbn [s_srcs su_reads]. exact F2.
Qed.

Lemma settle_src_srcs d j s s0 : s_srcs (s_settle_src d j s s0) = s_srcs s.
Proof.
  unfold s_settle_src. destruct (nget s0 (s_rows s)) as [rw|]; [|reflexivity].
  destruct (complete (fill_row d j rw)); [|reflexivity]. cbn [s_reader su_rows].
  destruct (nget s0 (s_reader s)) as [r|]; [|reflexivity]. rewrite flush_srcs. reflexivity.
Qed.

Lemma settle_srcs s d j : forall k, nget k (s_srcs (s_settle s d j)) = if Nat.eqb k d then None else nget k (s_srcs s).
Proof.
  intros k. unfold s_settle. destruct (nget d (s_srcs s)) as [ss|] eqn:E.
  - assert (G : forall l s1, s_srcs (fold_left (s_settle_src d j) l s1) = s_srcs s1).
    { induction l as [|x l IH]; intros s1; cbn [fold_left]; [reflexivity|]. rewrite IH. apply settle_src_srcs. }
    rewrite G. cbn [s_srcs su_srcs]. apply nget_ndel.
  - destruct (Nat.eqb_spec k d); [subst; exact E|reflexivity].
Qed.

Lemma step_SrcNE s op : SrcNE s -> SrcNE (s_step s op).
Proof.
  intros H. destruct op as [r p pl|src tgt pl|w p a|w back]; cbn [s_step].
  - exact H.
  - intros d ss. cbn [s_srcs su_used su_lnk su_pay su_srcs su_rows]. rewrite nget_nset. destruct (Nat.eqb d tgt); [|apply H].
    intros E. injection E as <-. destruct (lst (nget tgt (s_srcs s))); discriminate.
  - assert (G : SrcNE (match nget p (s_reader s) with
      | Some r => s_flush_reader (su_rows s (nset p [(p, Some (echo s p))] (s_rows s))) r
      | None => s_settle (su_lnk s (filter (fun x => negb (Nat.eqb x p)) (s_lnk s))) p (join [echo s p]) end)).
    { destruct (nget p (s_reader s)).
      - intros d ss. rewrite flush_srcs. apply H.
      - intros d ss. rewrite settle_srcs. destruct (Nat.eqb d p); [discriminate|apply H]. }
    destruct w as [w|]; [destruct a|]; try exact G. exact H.
  - destruct (lst (nget w (s_writes s))) as [|d rest]; [exact H|]. intros k ss. rewrite settle_srcs. destruct (Nat.eqb k d); [discriminate|apply H].
Qed.

Lemma run_SrcNE : forall ops s, SrcNE s -> SrcNE (fold_left s_step ops s).
Proof. induction ops as [|op ops IH]; intros s H; cbn [fold_left]; [exact H|]. apply IH, step_SrcNE, H. Qed.

Theorem tracer_no_residue ops : disciplined ops = true ->
  s_reader (s_run ops) = [] -> s_wr (s_run ops) = [] ->
  (forall r, lst (nget r (t_reads (t_run ops))) = []) /\
  (forall w, lst (nget w (t_writes (t_run ops))) = []) /\
  (forall p, nget p (t_receives (t_run ops)) = None) /\
  (forall p, nget p (t_targets (t_run ops)) = None) /\
  (forall p, nget p (t_sources (t_run ops)) = None) /\
  t_reader (t_run ops) = [].
Proof.
  intros D Er Ew. destruct (run_sim ops t_init s_init Sim_init WF_init D) as [Sm W].
  fold (t_run ops) in Sm. fold (s_run ops) in Sm, W. set (s := s_run ops) in *. set (t := t_run ops) in *.
  assert (NE : SrcNE s) by (apply run_SrcNE; intros d ss E; discriminate).
  assert (NoReq : forall rd, nget rd (s_reader s) = None) by (intros rd; rewrite Er; reflexivity).
  assert (NoRow : forall p, nget p (s_rows s) = None).
  { intros p. destruct (nget p (s_rows s)) eqn:E; [|reflexivity]. exfalso.
    assert (H : is_some (nget p (s_reader s)) = true) by (apply (w_rows _ W); rewrite E; reflexivity). rewrite NoReq in H. discriminate. }
  repeat split.
  - intros r. rewrite (sim_reads _ _ _ Sm). destruct (lst (nget r (s_reads s))) as [|rd l] eqn:E; [reflexivity|exfalso].
    assert (H : nget rd (s_reader s) = Some r) by (apply (w_reads _ W); rewrite E; left; reflexivity). rewrite NoReq in H. discriminate.
  - intros w. rewrite (sim_writes _ _ _ Sm). destruct (lst (nget w (s_writes s))) as [|d l] eqn:E; [reflexivity|exfalso].
    assert (H : written s d = true) by (apply (w_writes _ W w); rewrite E; left; reflexivity). unfold written in H. rewrite Ew in H. discriminate.
  - intros p. rewrite (sim_receives _ _ _ Sm). unfold std_receives, written. rewrite NoRow, Ew. reflexivity.
  - intros p. rewrite (sim_targets _ _ _ Sm). unfold std_targets. rewrite NoRow. reflexivity.
  - intros p. rewrite (sim_sources _ _ _ Sm). destruct (nget p (s_srcs s)) as [ss|] eqn:E; [|reflexivity]. exfalso.
    destruct ss as [|s0 ss]; [exact (NE p [] E eq_refl)|].
    destruct (w_src _ W p (s0 :: ss) s0 E (or_introl eq_refl)) as [rw [R _]]. rewrite NoRow in R. discriminate.
  - rewrite (sim_reader _ _ _ Sm). exact Er.
Qed.
