(* C02: the forward loops of the three node kinds keep the node discipline, in every interleaving.

   What a forward loop does with one request (pkg/node/onetoone.go, onetomany.go, manytoone.go): Tracer.Read; then
   either Tracer.Write(nil, request) (nothing derived: OneToMany with no output, ManyToOne for a packet that does not
   complete its group or whose action returns nothing), or Tracer.Link(request, q) for every derived packet q followed by
   Tracer.Write(writer, q) for every one of them (OneToOne: one packet; OneToMany: all links first, then all writes).
   A JOB is that list of calls.  Several loops (one per in-port and process) share one tracer, and the backward loops
   call Tracer.Receive at any time: an execution is any interleaving of jobs - each job's calls in order - with Receive
   calls anywhere.  Packets are fresh (packet.New): the ids of all jobs are pairwise distinct.

   Theorem: every such execution satisfies [disciplined]; hence (Node/Refine.v) the tracer hands out exactly the
   specification's answers in every schedule of the node loops. *)
From Coq Require Import List Arith Bool Lia.
From Uf Require Import Packet.Writer Node.Tracer Node.TracerProofs Node.Spec Node.Refine.
Import ListNotations.

Record job := mkjob {
  j_reader : nat; j_req : nat; j_pay : pay;
  j_out : list (nat * pay * option nat * bool)      (* derived packet, its payload, the writer (if any), accepted *)
}.

Definition q_of (x : nat * pay * option nat * bool) : nat := fst (fst (fst x)).
Definition link_op (p : nat) (x : nat * pay * option nat * bool) : top := TLink p (q_of x) (snd (fst (fst x))).
Definition write_op (x : nat * pay * option nat * bool) : top := TWrite (snd (fst x)) (q_of x) (snd x).

Definition job_ops (j : job) : list top :=
  TRead (j_reader j) (j_req j) (j_pay j) ::
  match j_out j with
  | [] => [TWrite None (j_req j) false]
  | out => map (link_op (j_req j)) out ++ map write_op out
  end.

Definition job_ids (j : job) : list nat := j_req j :: map q_of (j_out j).

(* executions: interleavings of the remaining calls of the jobs, with Receive calls anywhere *)
Inductive exec : list (list top) -> list top -> Prop :=
| ex_done rems : Forall (fun r => r = []) rems -> exec rems []
| ex_recv rems w back ops : exec rems ops -> exec rems (TReceive w back :: ops)
| ex_step pre op rem post ops : exec (pre ++ rem :: post) ops -> exec (pre ++ (op :: rem) :: post) (op :: ops).

(* ---- what a step does to the parts of the specification state a job looks at ---- *)
Lemma flush_frames s r :
  s_lnk (s_flush_reader s r) = s_lnk s /\ s_used (s_flush_reader s r) = s_used s /\ s_wr (s_flush_reader s r) = s_wr s /\
  s_srcs (s_flush_reader s r) = s_srcs s /\
  forall p, (match nget p (s_rows s) with Some rw => complete rw = false | None => True end) ->
            nget p (s_reader (s_flush_reader s r)) = nget p (s_reader s) /\ nget p (s_rows (s_flush_reader s r)) = nget p (s_rows s).
Proof.
  unfold s_flush_reader. destruct (s_flush s r (lst (nget r (s_reads s)))) as [s1 rest] eqn:F.
  destruct (s_flush_spec _ _ _ _ _ F) as [done [E [H1 [H2 [H3 [F1 [F2 [F3 [F4 [F5 [F6 F7]]]]]]]]]]]. cbn [s_lnk s_used s_wr s_srcs s_reader s_rows su_reads].
  repeat (split; [assumption|]). intros p Hp. rewrite H1, H2. destruct (memb p done) eqn:M; [|auto].
  apply memb_In in M. destruct (H3 p M) as [rw [R C]]. rewrite R in Hp. congruence.
Qed.

Definition quiet_at (s : sstate) (p : nat) : Prop :=
  match nget p (s_rows s) with Some rw => complete rw = false | None => True end.

Lemma settle_src_frames d j s s0 :
  s_lnk (s_settle_src d j s s0) = s_lnk s /\ s_used (s_settle_src d j s s0) = s_used s /\ s_wr (s_settle_src d j s s0) = s_wr s /\
  forall p, p <> s0 -> quiet_at s p ->
            nget p (s_reader (s_settle_src d j s s0)) = nget p (s_reader s) /\ nget p (s_rows (s_settle_src d j s s0)) = nget p (s_rows s).
Proof.
  unfold s_settle_src. destruct (nget s0 (s_rows s)) as [rw|] eqn:R; [|repeat split; reflexivity].
  set (s1 := su_rows s (nset s0 (fill_row d j rw) (s_rows s))).
  assert (Q : forall p, p <> s0 -> nget p (s_rows s1) = nget p (s_rows s)).
  { intros p N. unfold s1. cbn [s_rows su_rows]. rewrite nget_nset. destruct (Nat.eqb_spec p s0); [contradiction|reflexivity]. }
  destruct (complete (fill_row d j rw)); [|split; [reflexivity|split; [reflexivity|split; [reflexivity|intros p N _; split; [reflexivity|apply Q; exact N]]]]].
  destruct (nget s0 (s_reader s1)) as [r|]; [|split; [reflexivity|split; [reflexivity|split; [reflexivity|intros p N _; split; [reflexivity|apply Q; exact N]]]]].
  destruct (flush_frames s1 r) as [A [B [C [_ D]]]]. split; [exact A|]. split; [exact B|]. split; [exact C|].
  intros p N Hq. destruct (D p) as [D1 D2]; [unfold quiet_at in Hq; rewrite (Q p N); exact Hq|]. rewrite D1, D2. split; [reflexivity|apply Q; exact N].
Qed.

Lemma settle_frames s d j :
  s_lnk (s_settle s d j) = s_lnk s /\ s_used (s_settle s d j) = s_used s /\ s_wr (s_settle s d j) = s_wr s /\
  forall p, ~ In p (lst (nget d (s_srcs s))) -> quiet_at s p ->
            nget p (s_reader (s_settle s d j)) = nget p (s_reader s) /\ nget p (s_rows (s_settle s d j)) = nget p (s_rows s).
Proof.
  unfold s_settle. destruct (nget d (s_srcs s)) as [ss|]; [|repeat split; reflexivity]. cbn [lst].
  assert (G : forall l s1, s_lnk (fold_left (s_settle_src d j) l s1) = s_lnk s1 /\ s_used (fold_left (s_settle_src d j) l s1) = s_used s1 /\
              s_wr (fold_left (s_settle_src d j) l s1) = s_wr s1 /\
              forall p, ~ In p l -> quiet_at s1 p ->
                nget p (s_reader (fold_left (s_settle_src d j) l s1)) = nget p (s_reader s1) /\
                nget p (s_rows (fold_left (s_settle_src d j) l s1)) = nget p (s_rows s1)).
  { induction l as [|s0 l IH]; intros s1; cbn [fold_left]; [repeat split; reflexivity|].
    destruct (settle_src_frames d j s1 s0) as [A [B [C D]]]. destruct (IH (s_settle_src d j s1 s0)) as [A' [B' [C' D']]].
    split; [congruence|]. split; [congruence|]. split; [congruence|]. intros p N Hq.
    assert (Np : p <> s0) by (intros E; apply N; left; symmetry; exact E).
    destruct (D p Np Hq) as [D1 D2]. destruct (D' p) as [E1 E2]; [intros I; apply N; right; exact I| |rewrite E1, E2; auto].
    unfold quiet_at in *. rewrite D2. exact Hq. }
  destruct (G ss (su_srcs s (ndel d (s_srcs s)))) as [A [B [C D]]]. split; [exact A|]. split; [exact B|]. split; [exact C|]. exact D.
Qed.

Definition op_ids (op : top) : list nat :=
  match op with TRead _ p _ => [p] | TLink s t _ => [s; t] | TWrite _ p _ => [p] | TReceive _ _ => [] end.

Lemma used_step s op id : ~ In id (op_ids op) -> memb id (s_used (s_step s op)) = memb id (s_used s).
Proof.
  intros N. destruct op as [r p pl|src tgt pl|w p a|w back]; cbn [s_step op_ids] in *.
  - cbn [s_used su_used su_pay su_reader su_reads]. rewrite memb_cons. destruct (Nat.eqb_spec id p); [exfalso; apply N; left; auto|reflexivity].
  - cbn [s_used su_used su_lnk su_pay su_srcs su_rows]. rewrite memb_cons. destruct (Nat.eqb_spec id tgt); [exfalso; apply N; right; left; auto|reflexivity].
  - assert (G : memb id (s_used (match nget p (s_reader s) with
      | Some r => s_flush_reader (su_rows s (nset p [(p, Some (echo s p))] (s_rows s))) r
      | None => s_settle (su_lnk s (filter (fun x => negb (Nat.eqb x p)) (s_lnk s))) p (join [echo s p]) end)) = memb id (s_used s)).
    { destruct (nget p (s_reader s)) as [r|].
      - destruct (flush_frames (su_rows s (nset p [(p, Some (echo s p))] (s_rows s))) r) as [_ [B _]]. rewrite B. reflexivity.
      - destruct (settle_frames (su_lnk s (filter (fun x => negb (Nat.eqb x p)) (s_lnk s))) p (join [echo s p])) as [_ [B _]]. rewrite B. reflexivity. }
    destruct w as [w|]; [destruct a|]; try exact G. reflexivity.
  - destruct (lst (nget w (s_writes s))) as [|d rest]; [reflexivity|].
    match goal with |- memb id (s_used (s_settle ?s1 ?d ?j)) = _ => destruct (settle_frames s1 d j) as [_ [B _]]; rewrite B end. reflexivity.
Qed.

Lemma lnk_step s op q : ~ In q (op_ids op) -> memb q (s_lnk s) = true -> memb q (s_lnk (s_step s op)) = true.
Proof.
  intros N L. destruct op as [r p pl|src tgt pl|w p a|w back]; cbn [s_step op_ids] in *.
  - exact L.
  - cbn [s_lnk su_used su_lnk su_pay su_srcs su_rows]. destruct (existsb (Nat.eqb tgt) (s_lnk s)); [exact L|]. rewrite memb_cons, L. apply orb_true_r.
  - assert (Nq : q <> p) by (intros E; apply N; left; auto).
    assert (F : memb q (filter (fun x => negb (Nat.eqb x p)) (s_lnk s)) = true).
    { rewrite memb_filter_ne, L. destruct (Nat.eqb_spec q p); [contradiction|reflexivity]. }
    assert (G : memb q (s_lnk (match nget p (s_reader s) with
      | Some r => s_flush_reader (su_rows s (nset p [(p, Some (echo s p))] (s_rows s))) r
      | None => s_settle (su_lnk s (filter (fun x => negb (Nat.eqb x p)) (s_lnk s))) p (join [echo s p]) end)) = true).
    { destruct (nget p (s_reader s)) as [r|].
      - destruct (flush_frames (su_rows s (nset p [(p, Some (echo s p))] (s_rows s))) r) as [A _]. rewrite A. exact L.
      - destruct (settle_frames (su_lnk s (filter (fun x => negb (Nat.eqb x p)) (s_lnk s))) p (join [echo s p])) as [A _]. rewrite A. exact F. }
    destruct w as [w|]; [destruct a|]; try exact G. exact F.
  - destruct (lst (nget w (s_writes s))) as [|d rest]; [exact L|].
    match goal with |- memb q (s_lnk (s_settle ?s1 ?d ?j)) = _ => destruct (settle_frames s1 d j) as [A _]; rewrite A end. exact L.
Qed.

Lemma req_frame s op p : WF s -> ~ In p (op_ids op) -> quiet_at s p ->
  (forall d, In d (pending (lst (nget p (s_rows s)))) -> memb d (s_lnk s) = true /\ ~ In d (op_ids op)) ->
  nget p (s_reader (s_step s op)) = nget p (s_reader s) /\ nget p (s_rows (s_step s op)) = nget p (s_rows s).
Proof.
  intros W N Q HP.
  assert (NS : forall d, In p (lst (nget d (s_srcs s))) -> memb d (s_lnk s) = true /\ ~ In d (op_ids op)).
  { intros d I. destruct (nget d (s_srcs s)) as [ss|] eqn:E; [|destruct I]. destruct (w_src _ W d ss p E I) as [rw [R P]].
    apply HP. rewrite R. exact P. }
  destruct op as [r p' pl|src tgt pl|w p' a|w back]; cbn [s_step op_ids] in *.
  - cbn [s_reader s_rows su_used su_pay su_reader su_reads]. rewrite nget_nset. destruct (Nat.eqb_spec p p'); [exfalso; apply N; left; auto|auto].
  - cbn [s_reader s_rows su_used su_lnk su_pay su_srcs su_rows]. rewrite nget_nset. destruct (Nat.eqb_spec p src); [exfalso; apply N; left; auto|auto].
  - assert (Np : p <> p') by (intros E; apply N; left; auto).
    assert (G : nget p (s_reader (match nget p' (s_reader s) with
        | Some r => s_flush_reader (su_rows s (nset p' [(p', Some (echo s p'))] (s_rows s))) r
        | None => s_settle (su_lnk s (filter (fun x => negb (Nat.eqb x p')) (s_lnk s))) p' (join [echo s p']) end)) = nget p (s_reader s) /\
      nget p (s_rows (match nget p' (s_reader s) with
        | Some r => s_flush_reader (su_rows s (nset p' [(p', Some (echo s p'))] (s_rows s))) r
        | None => s_settle (su_lnk s (filter (fun x => negb (Nat.eqb x p')) (s_lnk s))) p' (join [echo s p']) end)) = nget p (s_rows s)).
    { destruct (nget p' (s_reader s)) as [r|].
      - set (s1 := su_rows s (nset p' [(p', Some (echo s p'))] (s_rows s))).
        assert (R1 : nget p (s_rows s1) = nget p (s_rows s)) by (unfold s1; cbn [s_rows su_rows]; rewrite nget_nset; destruct (Nat.eqb_spec p p'); [contradiction|reflexivity]).
        destruct (flush_frames s1 r) as [_ [_ [_ [_ D]]]]. destruct (D p) as [D1 D2]; [rewrite R1; exact Q|]. rewrite D1, D2. auto.
      - set (s1 := su_lnk s (filter (fun x => negb (Nat.eqb x p')) (s_lnk s))).
        destruct (settle_frames s1 p' (join [echo s p'])) as [_ [_ [_ D]]]. apply D; [|exact Q].
        intros I. destruct (NS p' I) as [_ N']. apply N'. left. reflexivity. }
    destruct w as [w|]; [destruct a|]; try exact G. cbn [s_reader s_rows su_lnk su_wr su_writes]. auto.
  - destruct (lst (nget w (s_writes s))) as [|d rest] eqn:E; [auto|].
    match goal with |- nget p (s_reader (s_settle ?s1 ?d ?j)) = _ /\ _ => destruct (settle_frames s1 d j) as [_ [_ [_ D]]]; apply D end; [|exact Q].
    cbn [s_srcs su_wr su_writes]. intros I. destruct (NS d I) as [L _]. destruct (w_lnk _ W d L) as [Wr _].
    assert (written s d = true) by (apply (w_writes _ W w); rewrite E; left; reflexivity). congruence.
Qed.

(* ---- where a job stands, in terms of the specification state ---- *)
Definition nones (l : list (nat * pay * option nat * bool)) : row := map (fun x => (q_of x, None)) l.

Inductive JI (j : job) (s : sstate) : list top -> Prop :=
| ji_start : (forall id, In id (job_ids j) -> memb id (s_used s) = false) -> JI j s (job_ops j)
| ji_echo : j_out j = [] -> is_some (nget (j_req j) (s_reader s)) = true -> nget (j_req j) (s_rows s) = None ->
            JI j s [TWrite None (j_req j) false]
| ji_link done todo : j_out j = done ++ todo -> j_out j <> [] ->
            is_some (nget (j_req j) (s_reader s)) = true ->
            nget (j_req j) (s_rows s) = (match done with [] => None | _ => Some (nones done) end) ->
            (forall x, In x done -> memb (q_of x) (s_lnk s) = true) ->
            (forall x, In x todo -> memb (q_of x) (s_used s) = false) ->
            JI j s (map (link_op (j_req j)) todo ++ map write_op (j_out j))
| ji_write wdone wtodo : j_out j = wdone ++ wtodo -> (forall x, In x wtodo -> memb (q_of x) (s_lnk s) = true) ->
            JI j s (map write_op wtodo).

Definition job_ok (j : job) : Prop := NoDup (job_ids j).

Lemma pending_nones l : pending (nones l) = map q_of l.
Proof. unfold pending, nones. induction l as [|x l IH]; cbn; [reflexivity|]. f_equal. exact IH. Qed.
Lemma complete_nones l : l <> [] -> complete (nones l) = false.
Proof. destruct l as [|x l]; [congruence|]. intros _. reflexivity. Qed.

Lemma ji_quiet j s done : nget (j_req j) (s_rows s) = (match done with [] => None | _ => Some (nones done) end) -> quiet_at s (j_req j).
Proof. intros R. unfold quiet_at. rewrite R. destruct done; [exact I|]. apply complete_nones. discriminate. Qed.

(* a job whose ids an operation does not mention stays where it is *)
Lemma ji_foreign j s op rem : WF s -> JI j s rem -> (forall id, In id (job_ids j) -> ~ In id (op_ids op)) -> JI j (s_step s op) rem.
Proof.
  intros W H N. destruct H as [U|E R0 R1|done todo E NE R0 R1 L U|wdone wtodo E L].
  - apply ji_start. intros id Iid. rewrite used_step; [apply U; exact Iid|apply N; exact Iid].
  - assert (Np : ~ In (j_req j) (op_ids op)) by (apply N; left; reflexivity).
    destruct (req_frame s op (j_req j) W Np) as [F1 F2].
    + unfold quiet_at. rewrite R1. exact I.
    + rewrite R1. intros d [].
    + apply ji_echo; [exact E|rewrite F1; exact R0|rewrite F2; exact R1].
  - assert (Np : ~ In (j_req j) (op_ids op)) by (apply N; left; reflexivity).
    destruct (req_frame s op (j_req j) W Np (ji_quiet j s done R1)) as [F1 F2].
    + rewrite R1. intros d Id. destruct done as [|x0 done0]; [destruct Id|]. cbn [lst] in Id. rewrite pending_nones in Id.
      apply in_map_iff in Id. destruct Id as [x [Ex Ix]]. subst d. split; [apply L; exact Ix|].
      apply N. right. rewrite E, map_app. apply in_or_app. left. apply in_map. exact Ix.
    + apply (ji_link j _ done todo); auto.
      * rewrite F1. exact R0.
      * rewrite F2. exact R1.
      * intros x Ix. apply lnk_step; [|apply L; exact Ix]. apply N. right. rewrite E, map_app. apply in_or_app. left. apply in_map. exact Ix.
      * intros x Ix. rewrite used_step; [apply U; exact Ix|]. apply N. right. rewrite E, map_app. apply in_or_app. right. apply in_map. exact Ix.
  - apply (ji_write j _ wdone wtodo); [exact E|]. intros x Ix. apply lnk_step; [|apply L; exact Ix].
    apply N. right. rewrite E, map_app. apply in_or_app. right. apply in_map. exact Ix.
Qed.

Lemma NoDup_cons_app {A} (x : A) a b : NoDup (x :: a ++ b) -> ~ In x a /\ ~ In x b /\ NoDup (a ++ b).
Proof. intros H. inversion H as [|? ? N ND]; subst. repeat split; [intros I; apply N, in_or_app; auto|intros I; apply N, in_or_app; auto|exact ND]. Qed.

Lemma memb_false_neq x l y : memb x l = false -> memb y l = true -> x <> y.
Proof. intros A B E. subst. congruence. Qed.

(* the next call of a job is allowed, and takes the job to its next position *)
Lemma own_write j s wdone x wtodo : WF s -> job_ok j -> j_out j = wdone ++ x :: wtodo ->
  (forall y, In y (x :: wtodo) -> memb (q_of y) (s_lnk s) = true) ->
  allowed s (write_op x) = true /\ JI j (s_step s (write_op x)) (map write_op wtodo).
Proof.
  intros W OK E L. assert (Lx : memb (q_of x) (s_lnk s) = true) by (apply L; left; reflexivity).
  split.
  - unfold write_op. destruct (snd (fst x)) as [w|]; [destruct (snd x)|]; cbn [allowed]; rewrite Lx; reflexivity.
  - apply (ji_write j _ (wdone ++ [x]) wtodo); [rewrite <- app_assoc; exact E|]. intros y Iy.
    apply lnk_step; [|apply L; right; exact Iy]. unfold write_op. cbn [op_ids]. intros [Eq|[]].
    unfold job_ok, job_ids in OK. rewrite E, map_app in OK. cbn [map] in OK. inversion OK as [|? ? _ ND]; subst.
    apply NoDup_app_r in ND. inversion ND as [|? ? Nx _]; subst. apply Nx. rewrite Eq. apply in_map. exact Iy.
Qed.

Lemma own_link j s done x todo : WF s -> job_ok j -> j_out j = done ++ x :: todo ->
  is_some (nget (j_req j) (s_reader s)) = true ->
  nget (j_req j) (s_rows s) = (match done with [] => None | _ => Some (nones done) end) ->
  (forall y, In y done -> memb (q_of y) (s_lnk s) = true) ->
  (forall y, In y (x :: todo) -> memb (q_of y) (s_used s) = false) ->
  allowed s (link_op (j_req j) x) = true /\
  JI j (s_step s (link_op (j_req j) x)) (map (link_op (j_req j)) todo ++ map write_op (j_out j)).
Proof.
  intros W OK E R0 R1 L U. set (p := j_req j) in *. set (q := q_of x).
  assert (Uq : memb q (s_used s) = false) by (apply U; left; reflexivity).
  unfold job_ok, job_ids in OK. fold p in OK. rewrite E, map_app in OK. cbn [map] in OK. fold q in OK.
  assert (Npq : p <> q).
  { inversion OK as [|? ? Np _]; subst. intros Eq. apply Np. apply in_or_app. right. left. symmetry. exact Eq. }
  assert (Sq : nget q (s_srcs s) = None).
  { destruct (nget q (s_srcs s)) eqn:Es; [|reflexivity]. assert (H1 : memb q (s_used s) = true) by (apply (w_src_used _ W); rewrite Es; reflexivity). congruence. }
  assert (RowL : forallb (fun y : nat * option pkt => memb (fst y) (s_lnk s)) (lst (nget p (s_rows s))) = true).
  { rewrite R1. destruct done as [|d0 done0]; [reflexivity|]. cbn [lst]. apply forallb_forall. intros y Iy. unfold nones in Iy.
    apply in_map_iff in Iy. destruct Iy as [z [Ez Iz]]. subst y. cbn [fst]. apply L. exact Iz. }
  split.
  - unfold link_op. fold q. cbn [allowed]. rewrite R0, RowL, Uq, Sq. cbn [lst memb existsb negb andb orb].
    destruct (Nat.eqb_spec p q); [contradiction|reflexivity].
  - apply (ji_link j _ (done ++ [x]) todo).
    + rewrite <- app_assoc. exact E.
    + rewrite E. destruct done; discriminate.
    + unfold link_op. cbn [s_step s_reader su_used su_lnk su_pay su_srcs su_rows]. exact R0.
    + unfold link_op. fold q. cbn [s_step s_rows su_used su_lnk su_pay su_srcs su_rows]. rewrite nget_nset, Nat.eqb_refl, R1.
      destruct done as [|d0 done0]; [reflexivity|]. cbn [lst app]. f_equal. unfold nones.
      change (d0 :: done0 ++ [x]) with ((d0 :: done0) ++ [x]). rewrite map_app. reflexivity.
    + intros y Iy. unfold link_op. fold q. cbn [s_step s_lnk su_used su_lnk su_pay su_srcs su_rows].
      assert (Hl : forall z, memb z (if existsb (Nat.eqb q) (s_lnk s) then s_lnk s else q :: s_lnk s) = Nat.eqb z q || memb z (s_lnk s)).
      { intros z. fold (memb q (s_lnk s)). destruct (memb q (s_lnk s)) eqn:Eq; [|reflexivity].
        destruct (Nat.eqb_spec z q); [subst; rewrite Eq; reflexivity|reflexivity]. }
      rewrite Hl. apply in_app_or in Iy. destruct Iy as [Iy|[Iy|[]]]; [rewrite (L y Iy); apply orb_true_r|subst y; fold q; rewrite Nat.eqb_refl; reflexivity].
    + intros y Iy. unfold link_op. fold q. cbn [s_step s_used su_used su_lnk su_pay su_srcs su_rows]. rewrite memb_cons.
      rewrite (U y (or_intror Iy)). destruct (Nat.eqb_spec (q_of y) q) as [Eq|Eq]; [|reflexivity]. exfalso.
      inversion OK as [|? ? _ ND]; subst. apply NoDup_app_r in ND. inversion ND as [|? ? Nx _]; subst. apply Nx. rewrite <- Eq. apply in_map. exact Iy.
Qed.

Lemma ji_own j s op rem : WF s -> job_ok j -> JI j s (op :: rem) -> allowed s op = true /\ JI j (s_step s op) rem.
Proof.
  intros W OK H. remember (op :: rem) as l eqn:Eq.
  destruct H as [U|E R0 R1|done todo E NE R0 R1 L U|wdone wtodo E L].
  - (* the Read *)
    unfold job_ops in Eq. injection Eq as <- <-.
    assert (Up : memb (j_req j) (s_used s) = false) by (apply U; left; reflexivity).
    split; [cbn [allowed]; rewrite Up; reflexivity|].
    assert (Rp : nget (j_req j) (s_rows s) = None).
    { destruct (nget (j_req j) (s_rows s)) eqn:E; [|reflexivity]. exfalso.
      assert (H1 : is_some (nget (j_req j) (s_reader s)) = true) by (apply (w_rows _ W); rewrite E; reflexivity).
      destruct (w_req _ W (j_req j) H1) as [_ [_ [_ Uu]]]. congruence. }
    destruct (j_out j) as [|x out] eqn:Eo.
    + apply ji_echo; [exact Eo| |]; cbn [s_step s_reader s_rows su_used su_pay su_reader su_reads].
      * rewrite nget_nset, Nat.eqb_refl. reflexivity.
      * exact Rp.
    + change (JI j (s_step s (TRead (j_reader j) (j_req j) (j_pay j))) (map (link_op (j_req j)) (x :: out) ++ map write_op (x :: out))).
      rewrite <- Eo. apply (ji_link j _ [] (j_out j)); [reflexivity|rewrite Eo; discriminate| | |intros y []|].
      * cbn [s_step s_reader su_used su_pay su_reader su_reads]. rewrite nget_nset, Nat.eqb_refl. reflexivity.
      * cbn [s_step s_rows su_used su_pay su_reader su_reads]. exact Rp.
      * intros y Iy. cbn [s_step s_used su_used su_pay su_reader su_reads]. rewrite memb_cons.
        assert (Uy : memb (q_of y) (s_used s) = false) by (apply U; right; rewrite Eo; apply in_map; rewrite <- Eo; exact Iy). rewrite Uy.
        destruct (Nat.eqb_spec (q_of y) (j_req j)) as [Ey|Ey]; [|reflexivity]. exfalso.
        unfold job_ok, job_ids in OK. inversion OK as [|? ? Np _]; subst. apply Np. rewrite <- Ey. apply in_map. exact Iy.
  - (* the direct answer *)
    injection Eq as <- <-. split; [|apply (ji_write j _ (j_out j) []); [rewrite app_nil_r; reflexivity|intros x []]].
    cbn [allowed]. rewrite R0, R1. cbn. apply orb_true_r.
  - destruct todo as [|x todo].
    + (* all links are made: the first Write *)
      cbn [map app] in Eq. rewrite app_nil_r in E. destruct (j_out j) as [|x out] eqn:Eo; [congruence|].
      cbn [map] in Eq. injection Eq as <- <-.
      apply (own_write j s [] x out W OK); [exact Eo|]. intros y Iy. apply L. rewrite <- E. exact Iy.
    + cbn [map app] in Eq. injection Eq as <- <-. apply (own_link j s done x todo); assumption.
  - destruct wtodo as [|x wtodo]; [discriminate|]. cbn [map] in Eq. injection Eq as <- <-.
    apply (own_write j s wdone x wtodo); assumption.
Qed.

(* the calls a job still has to make only mention its own packets *)
Lemma ji_ops_ids j s l : JI j s l -> forall op id, In op l -> In id (op_ids op) -> In id (job_ids j).
Proof.
  assert (WR : forall out' op id, (forall x, In x out' -> In x (j_out j)) -> In op (map write_op out') -> In id (op_ids op) -> In id (job_ids j)).
  { intros out' op id Sub Io Ii. apply in_map_iff in Io. destruct Io as [x [Ex Ix]]. subst op. unfold write_op in Ii. cbn [op_ids] in Ii.
    destruct Ii as [<-|[]]. right. apply in_map. apply Sub. exact Ix. }
  assert (LK : forall out' op id, (forall x, In x out' -> In x (j_out j)) -> In op (map (link_op (j_req j)) out') -> In id (op_ids op) -> In id (job_ids j)).
  { intros out' op id Sub Io Ii. apply in_map_iff in Io. destruct Io as [x [Ex Ix]]. subst op. unfold link_op in Ii. cbn [op_ids] in Ii.
    destruct Ii as [<-|[<-|[]]]; [left; reflexivity|right; apply in_map; apply Sub; exact Ix]. }
  intros H op id Io Ii. destruct H as [U|E R0 R1|done todo E NE R0 R1 L U|wdone wtodo E L].
  - unfold job_ops in Io. destruct Io as [<-|Io]; [cbn in Ii; destruct Ii as [<-|[]]; left; reflexivity|].
    destruct (j_out j) as [|x out] eqn:Eo.
    + destruct Io as [<-|[]]. cbn in Ii. destruct Ii as [<-|[]]. left. reflexivity.
    + apply in_app_or in Io. destruct Io as [Io|Io]; [apply (LK (x :: out) op id); auto|apply (WR (x :: out) op id); auto].
  - destruct Io as [<-|[]]. cbn in Ii. destruct Ii as [<-|[]]. left. reflexivity.
  - apply in_app_or in Io. destruct Io as [Io|Io].
    + apply (LK todo op id); auto. intros x Ix. rewrite E. apply in_or_app. right. exact Ix.
    + apply (WR (j_out j) op id); auto.
  - apply (WR wtodo op id); auto. intros x Ix. rewrite E. apply in_or_app. right. exact Ix.
Qed.

Lemma NoDup_app_l {A} (a b : list A) : NoDup (a ++ b) -> NoDup a.
Proof. induction a as [|x a IH]; cbn; intros H; [constructor|]. inversion H as [|? ? N ND]; subst. constructor; [intros I; apply N, in_or_app; auto|apply IH; exact ND]. Qed.

Lemma flat_disjoint {A} (f : A -> list nat) a x b id :
  NoDup (flat_map f (a ++ x :: b)) -> In id (f x) -> forall y, In y (a ++ b) -> ~ In id (f y).
Proof.
  rewrite flat_map_app. cbn [flat_map]. intros ND Ix y Iy Iyid. apply in_app_or in Iy. destruct Iy as [Iy|Iy].
  - apply (NoDup_app_disjoint (flat_map f a) (f x ++ flat_map f b) id ND).
    + apply in_flat_map. exists y. auto.
    + apply in_or_app. left. exact Ix.
  - apply NoDup_app_r in ND. apply (NoDup_app_disjoint (f x) (flat_map f b) id ND Ix). apply in_flat_map. exists y. auto.
Qed.

Lemma Forall2_JI_step s s' (P : job -> Prop) js rs :
  (forall j rem, P j -> JI j s rem -> JI j s' rem) -> (forall j, In j js -> P j) ->
  Forall2 (fun j rem => JI j s rem) js rs -> Forall2 (fun j rem => JI j s' rem) js rs.
Proof.
  intros H Sub F. induction F as [|j rem js rs Hj F IH]; constructor.
  - apply H; [apply Sub; left; reflexivity|exact Hj].
  - apply IH. intros x I. apply Sub. right. exact I.
Qed.

Definition jobs_ok (jobs : list job) : Prop := Forall job_ok jobs /\ NoDup (flat_map job_ids jobs).

Lemma exec_disciplined jobs : jobs_ok jobs -> forall rems ops, exec rems ops ->
  forall s, WF s -> Forall2 (fun j rem => JI j s rem) jobs rems -> disciplined_from s ops = true.
Proof.
  intros [JOK ND] rems ops X. induction X as [rems F|rems w back ops X IH|pre op rem post ops X IH]; intros s W F2.
  - reflexivity.
  - cbn [disciplined_from allowed andb]. apply IH; [apply step_wf; [exact W|reflexivity]|].
    clear -F2 W. induction F2 as [|j rem jobs rems H F2 IH2]; constructor; [|exact IH2].
    apply ji_foreign; [exact W|exact H|]. intros id _ [].
  - apply Forall2_app_inv_r in F2. destruct F2 as [jpre [jrest [Fpre [Frest Ej]]]]. inversion Frest as [|j rem0 jpost post0 Hj Fpost]; subst.
    destruct (ji_own j s op rem W) as [A Hj']; [|exact Hj|].
    { rewrite Forall_forall in JOK. apply JOK. apply in_or_app. right. left. reflexivity. }
    cbn [disciplined_from]. rewrite A. cbn [andb]. apply IH; [apply step_wf; assumption|].
    assert (Other : forall j' rem', In j' (jpre ++ jpost) -> JI j' s rem' -> JI j' (s_step s op) rem').
    { intros j' rem' Ij' H'. apply ji_foreign; [exact W|exact H'|]. intros id Iid Iop.
      assert (Iidj : In id (job_ids j)) by (apply (ji_ops_ids j s (op :: rem) Hj op id); [left; reflexivity|exact Iop]).
      exact (flat_disjoint job_ids jpre j jpost id ND Iidj j' Ij' Iid). }
    apply Forall2_app.
    + apply (Forall2_JI_step s (s_step s op) (fun x => In x (jpre ++ jpost))); [exact Other| |exact Fpre].
      intros x I. apply in_or_app. left. exact I.
    + constructor; [exact Hj'|].
      apply (Forall2_JI_step s (s_step s op) (fun x => In x (jpre ++ jpost))); [exact Other| |exact Fpost].
      intros x I. apply in_or_app. right. exact I.
Qed.

(* Every interleaving of the forward loops' jobs with Receive calls keeps the node discipline - so in every schedule of
   the node loops the tracer hands out exactly the specification's answers. *)
Theorem loops_disciplined jobs ops : jobs_ok jobs -> exec (map job_ops jobs) ops -> disciplined ops = true.
Proof.
  intros OK X. apply (exec_disciplined jobs OK (map job_ops jobs) ops X s_init WF_init).
  destruct OK as [_ ND]. clear X.
  assert (G : forall js, (forall j id, In j js -> In id (job_ids j) -> memb id (s_used s_init) = false) ->
              Forall2 (fun j rem => JI j s_init rem) js (map job_ops js)).
  { induction js as [|j js IH]; intros H; cbn [map]; constructor.
    - apply ji_start. intros id Iid. apply (H j id); [left; reflexivity|exact Iid].
    - apply IH. intros j' id Ij Iid. apply (H j' id); [right; exact Ij|exact Iid]. }
  apply G. intros j id _ _. reflexivity.
Qed.

Corollary loops_refine jobs ops : jobs_ok jobs -> exec (map job_ops jobs) ops ->
  t_out (t_run ops) = s_out (s_run ops) /\ t_crash (t_run ops) = false.
Proof.
  intros OK X. destruct (tracer_refines_spec ops (loops_disciplined jobs ops OK X)) as [A [_ [_ B]]]. auto.
Qed.
