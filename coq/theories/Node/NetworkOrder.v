(* The outside of the network (C02/C01 at workflow level): when all requests from outside enter at node 0 (the
   workflow's source port), the answers delivered outside are, oldest first, exactly the requests node 0 has answered -
   a prefix of the requests injected, in injection order, without repetition: every source request gets at most one
   answer, answers come in request order, and after quiescence or teardown every request has its answer. *)
From Coq Require Import List Arith Bool Lia.
From Uf Require Import Node.Network.
Import ListNotations.

Section Ord.
Variable ans : Type.
Variable join : list ans -> ans.
Variable drop : ans.
Variable N : nat.

Definition src_label (l : lab ans) : Prop := match l with LIn _ n => n = 0 | _ => True end.

Record OInv (st : net ans) : Prop := mkOInv {
  o_from0 : forall r, In r (n_q ans st 0) -> q_from ans r = None;
  o_fromS : forall n r, n <> 0 -> In r (n_q ans st n) -> q_from ans r <> None;
  o_out : rev (map fst (n_out ans st)) = n_done ans st 0
}.

Lemma oinv0 : OInv (net0 ans).
Proof. constructor; cbn; auto; intros; tauto. Qed.

Lemma answer_from st n r rest a x c :
  n_q ans st n = r :: rest -> In c (n_q ans (answer ans st n r rest a) x) ->
  exists c0, In c0 (n_q ans st x) /\ q_from ans c = q_from ans c0.
Proof.
  intros Q. unfold answer. cbn [n_q].
  assert (B : forall y c1, In c1 (upd (n_q ans st) n rest y) -> In c1 (n_q ans st y)).
  { intros y c1. unfold upd. destruct (Nat.eqb y n) eqn:E; auto. apply Nat.eqb_eq in E. subst y. rewrite Q. cbn. auto. }
  destruct (q_from ans r) as [[m rq]|].
  - unfold upd at 1. destruct (Nat.eqb x m) eqn:E.
    + apply Nat.eqb_eq in E. subst m. intros Hc. apply in_map_iff in Hc as [c0 [<- Hc0]].
      exists c0. split; [apply B, Hc0|apply fill_from].
    + intros Hc. exists c. split; auto.
  - intros Hc. exists c. split; auto.
Qed.

Lemma oanswer st n r rest a : n_q ans st n = r :: rest -> OInv st -> OInv (answer ans st n r rest a).
Proof.
  intros Q [F0 FS Ho].
  assert (Hr : In r (n_q ans st n)) by (rewrite Q; left; reflexivity).
  constructor.
  - intros c Hc. destruct (answer_from st n r rest a 0 c Q Hc) as [c0 [Hc0 E]]. rewrite E. apply F0, Hc0.
  - intros m c Hm Hc. destruct (answer_from st n r rest a m c Q Hc) as [c0 [Hc0 E]]. rewrite E. apply (FS m c0 Hm Hc0).
  - unfold answer. cbn [n_out n_done]. destruct (q_from ans r) as [[m rq]|] eqn:Fr.
    + assert (Hn : n <> 0). { intros ->. rewrite (F0 r Hr) in Fr. discriminate. }
      rewrite upd_other by congruence. exact Ho.
    + assert (Hn : n = 0). { destruct (Nat.eq_dec n 0) as [E|E]; auto. exfalso. apply (FS n r E Hr). exact Fr. }
      subst n. rewrite upd_same. cbn [map fst rev]. rewrite Ho. reflexivity.
Qed.

Lemma ostep st l st' : src_label l -> OInv st -> step ans join drop N st l = Some st' -> OInv st'.
Proof.
  intros Hl [F0 FS Ho] H. destruct l as [n|n own tgts|n|n|n]; cbn [step] in H.
  - cbn in Hl. subst n. destruct (Nat.ltb 0 N); [|discriminate]. injection H as <-. constructor; cbn [n_q n_out n_done].
    + intros r Hr. rewrite upd_same in Hr. apply in_app_or in Hr as [Hr|[<-|[]]]; auto.
    + intros m r Hm Hr. rewrite upd_other in Hr by exact Hm. apply (FS m r Hm Hr).
    + exact Ho.
  - destruct (forallb _ tgts) eqn:TG; [|discriminate].
    destruct (start ans own (seq (n_next ans st) (length tgts)) (n_q ans st n)) as [[rid qn]|] eqn:ST; [|discriminate].
    injection H as <-.
    destruct (start_spec ans _ _ _ _ _ ST) as [pre [r [post [Q [S [Rid Qn]]]]]].
    pose proof (sends_spec ans (n, rid) (combine tgts (seq (n_next ans st) (length tgts))) (upd (n_q ans st) n qn) (n_arr ans st)) as SS.
    assert (TI : forall t i, In (t, i) (combine tgts (seq (n_next ans st) (length tgts))) -> n < t).
    { intros t i Hti. apply in_combine_l in Hti. pose proof (proj1 (forallb_forall _ _) TG t Hti) as B.
      apply andb_true_iff in B as [B _]. apply Nat.ltb_lt, B. }
    (* the origin of every request in the new queues *)
    assert (OR : forall x c, In c (fst (fold_left (send ans (n, rid)) (combine tgts (seq (n_next ans st) (length tgts))) (upd (n_q ans st) n qn, n_arr ans st)) x) ->
                 (exists c0, In c0 (n_q ans st x) /\ q_from ans c = q_from ans c0) \/ (n < x /\ q_from ans c = Some (n, rid))).
    { intros x c Hc. destruct (SS x) as [A _]. rewrite A in Hc. apply in_app_or in Hc as [Hc|Hc].
      - left. unfold upd in Hc. destruct (Nat.eqb x n) eqn:E; [|eauto]. apply Nat.eqb_eq in E. subst x.
        rewrite Qn in Hc. rewrite Q. apply in_app_or in Hc as [Hc|[<-|Hc]].
        + exists c. split; auto. apply in_or_app. auto.
        + exists r. split; auto. apply in_or_app. right. left. reflexivity.
        + exists c. split; auto. apply in_or_app. right. right. exact Hc.
      - right. apply in_map_iff in Hc as [i [<- Hi]]. split; auto. apply sent_to_in in Hi. apply (TI x i Hi). }
    constructor; cbn [n_q n_out n_done].
    + intros c Hc. destruct (OR 0 c Hc) as [[c0 [Hc0 E]]|[Hlt _]]; [|lia]. rewrite E. apply F0, Hc0.
    + intros m c Hm Hc. destruct (OR m c Hc) as [[c0 [Hc0 E]]|[_ E]]; [|rewrite E; discriminate].
      rewrite E. apply (FS m c0 Hm Hc0).
    + exact Ho.
  - destruct (n_q ans st n) as [|r rest] eqn:Q; [discriminate|].
    destruct (q_st ans r) as [[own rw]|]; [|discriminate]. destruct (complete ans rw); [|discriminate]. injection H as <-.
    apply (oanswer st n r rest (result ans join own rw)); auto. constructor; auto.
  - injection H as <-. constructor; auto.
  - destruct (n_closed ans st n); [|discriminate]. destruct (n_q ans st n) as [|r rest] eqn:Q; [discriminate|]. injection H as <-.
    apply (oanswer st n r rest drop); auto. constructor; auto.
Qed.

Theorem source_order ls :
  Forall src_label ls ->
  let st := run ans join drop N ls in
  rev (map fst (n_out ans st)) = n_done ans st 0
  /\ n_arr ans st 0 = n_done ans st 0 ++ map (q_id ans) (n_q ans st 0)
  /\ NoDup (n_arr ans st 0).
Proof.
  intros Hl. cbv zeta.
  assert (G : forall st, OInv st -> OInv (fold_left (step' ans join drop N) ls st)).
  { induction Hl as [|l ls Hl0 Hls IH]; cbn [fold_left]; auto. intros st I. apply IH.
    unfold step'. destruct (step ans join drop N st l) eqn:E; auto. eapply ostep; eauto. }
  split; [apply (o_out _ (G _ oinv0))|]. apply (answered_once_in_order ans join drop N ls 0).
Qed.

End Ord.
