(* Theorems about the tracer model (C02), part 1: every request read is answered at most once and
   in the order it was read on its reader - for EVERY sequence of tracer calls. *)
From Coq Require Import List Arith NArith ZArith Bool Lia.
From Uf Require Import Packet.Writer Node.Tracer.
Import ListNotations.

(* ---- nat-keyed maps ---- *)
Section NatMapLemmas.
  Context {V : Type}.
  Implicit Types m : list (nat * V).

  Lemma nget_ndel k k' m : nget k (ndel k' m) = if Nat.eqb k k' then None else nget k m.
  Proof.
    unfold ndel. induction m as [|[k0 v0] m IH]; cbn.
    - destruct (Nat.eqb k k'); reflexivity.
    - destruct (Nat.eqb k' k0) eqn:E0; cbn.
      + apply Nat.eqb_eq in E0. subst k0. rewrite IH. destruct (Nat.eqb k k'); reflexivity.
      + rewrite IH. destruct (Nat.eqb k k0) eqn:E; auto.
        apply Nat.eqb_eq in E. subst k0. rewrite Nat.eqb_sym, E0. reflexivity.
  Qed.

  Lemma nget_nset k k' (v : V) m : nget k (nset k' v m) = if Nat.eqb k k' then Some v else nget k m.
  Proof.
    unfold nset. cbn. destruct (Nat.eqb k k') eqn:E; auto. rewrite nget_ndel, E. reflexivity.
  Qed.
End NatMapLemmas.

(* ---- the ledger of one reader: answered requests, then pending ones ---- *)
Definition out_of (r : nat) (st : tstate) : list nat :=
  map (fun x => snd (fst x)) (filter (fun x : nat * nat * pkt => Nat.eqb (fst (fst x)) r) (t_out st)).
Definition reads_of (r : nat) (st : tstate) : list nat := lst (nget r (t_reads st)).
Definition ledger_of (r : nat) (st : tstate) : list nat := out_of r st ++ reads_of r st.

Lemma out_of_app r st x : out_of r (upd_out st (t_out st ++ [x])) =
  out_of r st ++ (if Nat.eqb (fst (fst x)) r then [snd (fst x)] else []).
Proof.
  unfold out_of. cbn. rewrite filter_app, map_app. cbn. destruct (Nat.eqb (fst (fst x)) r); reflexivity.
Qed.

(* flush_reads moves requests from the head of the pending list to the answers of reader r *)
Lemma flush_reads_ledger r : forall reads st st' rest,
  flush_reads st r reads = (st', rest) ->
  t_reads st' = t_reads st /\
  (forall r', out_of r' st' ++ (if Nat.eqb r r' then rest else []) = out_of r' st ++ (if Nat.eqb r r' then reads else [])).
Proof.
  induction reads as [|rd reads IH]; intros st st' rest H; cbn in H.
  - injection H as <- <-. split; auto.
  - destruct (nget rd (t_receives st)) as [rc|]; [|injection H as <- <-; split; auto].
    destruct (has_nil rc); [injection H as <- <-; split; auto|].
    apply IH in H as [H1 H2]. split; [exact H1|].
    intros r'. rewrite H2.
    match goal with |- out_of r' ?s ++ _ = _ =>
      replace (out_of r' s) with (out_of r' (upd_out st (t_out st ++ [(r, rd, join (slots rc))]))) by reflexivity end.
    rewrite out_of_app. cbn [fst snd].
    destruct (Nat.eqb r r'); rewrite <- app_assoc; reflexivity.
Qed.

Lemma ledger_upd_other r st f :
  t_out (f st) = t_out st -> t_reads (f st) = t_reads st -> ledger_of r (f st) = ledger_of r st.
Proof. intros H1 H2. unfold ledger_of, out_of, reads_of. rewrite H1, H2. reflexivity. Qed.

(* resolve never changes a ledger *)
Lemma resolve_ledger : forall fuel st p r, ledger_of r (resolve fuel st p) = ledger_of r st.
Proof.
  induction fuel as [|f IH]; intros st p r; cbn [resolve]; auto.
  destruct (has_nil _); auto.
  set (st1 := match nget p (t_sources st) with Some srcs => _ | None => st end).
  assert (L1 : ledger_of r st1 = ledger_of r st).
  { subst st1. destruct (nget p (t_sources st)) as [srcs|]; auto.
    assert (G : forall l s, ledger_of r s = ledger_of r st ->
                ledger_of r (fold_left (fun st0 src =>
                   if t_crash st0 then st0 else
                   match fill_target (lst (nget src (t_targets st0))) (lst (nget src (t_receives st0))) p (join (slots (lst (nget p (t_receives st))))) with
                   | None => set_crash st0
                   | Some (ts, rc') =>
                       let st' := upd_receives st0 (match nget src (t_receives st0) with Some _ => nset src rc' (t_receives st0) | None => t_receives st0 end) in
                       let st'' := upd_targets st' (match ts with [] => ndel src (t_targets st') | _ => nset src ts (t_targets st') end) in
                       resolve f st'' src
                   end) l s) = ledger_of r st).
    { induction l as [|src l IHl]; intros s Hs; cbn [fold_left]; auto. apply IHl.
      destruct (t_crash s); auto. destruct (fill_target _ _ _ _) as [[ts rc']|]; [|exact Hs].
      rewrite IH. exact Hs. }
    apply G. reflexivity. }
  destruct (t_crash st1); auto.
  destruct (nget p (t_reader st1)) as [rr|]; [|exact L1].
  destruct (flush_reads st1 rr (lst (nget rr (t_reads st1)))) as [st2 rest] eqn:F.
  apply flush_reads_ledger in F as [F1 F2]. rewrite <- L1. specialize (F2 r).
  unfold ledger_of, reads_of. cbn [t_reads upd_reads t_out]. fold (out_of r st2).
  change (out_of r (upd_reads st2 (match rest with [] => ndel rr (t_reads st2) | _ :: _ => nset rr rest (t_reads st2) end))) with (out_of r st2).
  destruct (Nat.eqb rr r) eqn:E.
  - apply Nat.eqb_eq in E. subst rr. rewrite <- F2. f_equal.
    destruct rest; [rewrite nget_ndel | rewrite nget_nset]; rewrite Nat.eqb_refl; reflexivity.
  - rewrite !app_nil_r in F2. rewrite F2. f_equal. rewrite Nat.eqb_sym in E.
    destruct rest; [rewrite nget_ndel | rewrite nget_nset]; rewrite E, F1; reflexivity.
Qed.

Lemma t_receive_ledger r st p a : ledger_of r (t_receive st p a) = ledger_of r st.
Proof. reflexivity. Qed.
Lemma t_discard_ledger r st p : ledger_of r (t_discard st p) = ledger_of r st.
Proof. unfold t_discard. destruct (nget p (t_receives st)); auto. destruct (has_nil _); reflexivity. Qed.

(* one call: only Read extends a ledger, by the request read *)
Theorem t_step_ledger st op r :
  ledger_of r (t_step st op) =
  ledger_of r st ++ match op with
                    | TRead r' p _ => if t_crash st then [] else if Nat.eqb r r' then [p] else []
                    | _ => []
                    end.
Proof.
  unfold t_step. destruct (t_crash st); [destruct op; rewrite app_nil_r; reflexivity|].
  destruct op as [r' p pl|src tgt pl|w p acc|w back].
  - unfold ledger_of, reads_of, out_of. cbn [t_reads t_out upd_pay upd_reader upd_reads]. rewrite nget_nset.
    destruct (Nat.eqb r r') eqn:E.
    + apply Nat.eqb_eq in E. subst r'. cbn [lst]. rewrite app_assoc. reflexivity.
    + cbn [lst]. rewrite app_nil_r. reflexivity.
  - rewrite app_nil_r. destruct (Nat.eqb src tgt); reflexivity.
  - rewrite app_nil_r. destruct w as [w'|]; [destruct acc|]; try reflexivity; rewrite resolve_ledger; reflexivity.
  - rewrite app_nil_r. destruct (lst (nget w (t_writes st))) as [|wr rest]; auto.
    rewrite resolve_ledger. destruct back; [rewrite t_receive_ledger | rewrite t_discard_ledger]; reflexivity.
Qed.

(* the requests a history reads on reader r, in order (calls after a panic do nothing) *)
Fixpoint issued (r : nat) (st : tstate) (ops : list top) : list nat :=
  match ops with
  | [] => []
  | op :: ops' =>
      match op with
      | TRead r' p _ => if t_crash st then [] else if Nat.eqb r r' then [p] else []
      | _ => []
      end ++ issued r (t_step st op) ops'
  end.

Theorem t_run_ledger ops r : ledger_of r (t_run ops) = issued r t_init ops.
Proof.
  unfold t_run. assert (G : forall st, ledger_of r (fold_left t_step ops st) = ledger_of r st ++ issued r st ops).
  { induction ops as [|op ops IH]; intros st; cbn [fold_left issued].
    - rewrite app_nil_r. reflexivity.
    - rewrite IH, t_step_ledger, app_assoc. reflexivity. }
  rewrite G. reflexivity.
Qed.


(* ---- part 2: what is handed out, and which slot an answer fills ---- *)

(* the reader branch answers exactly the longest prefix of the queue whose slot lists are present and
   completely filled, each request with the join of its slots; it stops at the first request that
   has nothing recorded yet (the repaired defect) or still owes a slot *)
Lemma flush_reads_spec r : forall reads st st' rest,
  NoDup reads -> flush_reads st r reads = (st', rest) ->
  exists done, reads = done ++ rest
    /\ t_out st' = t_out st ++ map (fun rd => (r, rd, join (slots (lst (nget rd (t_receives st)))))) done
    /\ (forall rd, In rd done -> exists rc, nget rd (t_receives st) = Some rc /\ has_nil rc = false)
    /\ match rest with
       | [] => True
       | rd :: _ => nget rd (t_receives st) = None \/ exists rc, nget rd (t_receives st) = Some rc /\ has_nil rc = true
       end
    /\ (forall k, ~ In k done -> nget k (t_receives st') = nget k (t_receives st)).
Proof.
  induction reads as [|rd reads IH]; intros st st' rest Hnd H; cbn [flush_reads] in H.
  - injection H as <- <-. exists []. cbn. rewrite app_nil_r. repeat split; auto. intros ? [].
  - inversion Hnd as [|? ? Hnin Hnd']; subst.
    destruct (nget rd (t_receives st)) as [rc|] eqn:G.
    2:{ injection H as <- <-. exists []. cbn. rewrite app_nil_r. repeat split; auto. intros ? []. }
    destruct (has_nil rc) eqn:N.
    { injection H as <- <-. exists []. cbn. rewrite app_nil_r. repeat split; auto; [intros ? []|]. right. exists rc. auto. }
    apply IH in H as [done [E [O [C [R K]]]]]; auto. exists (rd :: done). cbn [app map t_out t_receives upd_receives upd_reader upd_out] in *.
    assert (Hother : forall k, k <> rd -> nget k (ndel rd (t_receives st)) = nget k (t_receives st)).
    { intros k Hk. rewrite nget_ndel. apply Nat.eqb_neq in Hk. rewrite Hk. reflexivity. }
    assert (Hdone : forall x, In x done -> x <> rd).
    { intros x Hx ->. apply Hnin. rewrite E. apply in_or_app. left. exact Hx. }
    repeat split.
    + rewrite E. reflexivity.
    + rewrite O, <- app_assoc. cbn [app]. rewrite G. cbn [lst]. do 2 f_equal.
      apply map_ext_in. intros x Hx. rewrite (Hother x (Hdone x Hx)). reflexivity.
    + intros x [<-|Hx]; [exists rc; auto|]. destruct (C x Hx) as [rc' [A B]]. exists rc'. rewrite <- (Hother x (Hdone x Hx)). auto.
    + destruct rest as [|x rest]; auto.
      assert (Hx : x <> rd).
      { intros ->. apply Hnin. rewrite E. apply in_or_app. right. left. reflexivity. }
      rewrite <- (Hother x Hx). exact R.
    + intros k Hk. rewrite K by (intros Hin; apply Hk; right; exact Hin).
      apply Hother. intros ->. apply Hk. left. reflexivity.
Qed.

(* the slots of a request against its derived packets: [d] lists the derived packets in link order
   with the answer each has so far; the slots are the second components, the targets still listed
   are the ones without an answer *)
Definition pending (d : list (nat * option pkt)) : list nat :=
  map fst (filter (fun x : nat * option pkt => match snd x with None => true | Some _ => false end) d).

Fixpoint mark (q : nat) (j : pkt) (d : list (nat * option pkt)) : list (nat * option pkt) :=
  match d with
  | [] => []
  | (q', None) :: r => if Nat.eqb q' q then (q', Some j) :: r else (q', None) :: mark q j r
  | x :: r => x :: mark q j r
  end.

(* the loop of resolve gives the answer of derived packet q exactly the slot of q, whatever order
   the derived packets are answered in, and never runs out of slots *)
Theorem fill_target_aligned q j : forall d,
  fill_target (pending d) (map snd d) q j = Some (pending (mark q j d), map snd (mark q j d)).
Proof.
  unfold pending. induction d as [|[q' [a|]] d IH]; cbn [map filter snd fst mark fill_target].
  - reflexivity.
  - rewrite IH. destruct (map fst (filter _ d)) eqn:E; cbn.
    + (* no target left: the loop stops before looking at the slots *)
      assert (M : mark q j d = d).
      { clear IH. induction d as [|[q2 [a2|]] d IHd]; cbn in *; auto; try discriminate. rewrite IHd; auto. }
      rewrite M, E. reflexivity.
    + reflexivity.
  - destruct (Nat.eqb q' q) eqn:Eq; cbn [map filter snd fst].
    + reflexivity.
    + rewrite IH. reflexivity.
Qed.

(* marking fills one slot: the number of owed slots drops by one iff q was still pending *)
Lemma mark_pending q j d : In q (pending d) ->
  exists d1 d2, d = d1 ++ (q, None) :: d2 /\ ~ In q (pending d1) /\ mark q j d = d1 ++ (q, Some j) :: d2.
Proof.
  unfold pending. induction d as [|[q' [a|]] d IH]; cbn; intros H; [destruct H| |].
  - destruct (IH H) as [d1 [d2 [A [B C]]]]. exists ((q', Some a) :: d1), d2. cbn. rewrite C. rewrite A at 1. auto.
  - destruct (Nat.eqb q' q) eqn:E.
    + apply Nat.eqb_eq in E. subst q'. exists [], d. cbn. auto.
    + destruct H as [H|H]; [apply Nat.eqb_neq in E; contradiction|].
      destruct (IH H) as [d1 [d2 [A [B C]]]]. exists ((q', None) :: d1), d2. cbn. rewrite C. rewrite A at 1.
      repeat split; auto. intros [X|X]; [apply Nat.eqb_neq in E; contradiction | contradiction].
Qed.
