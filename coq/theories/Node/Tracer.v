(* Model of pkg/packet/tracer.go (repaired tree) as the three node kinds use it: one Tracer per
   node, shared by the forward loop(s) and the backward loops of every process.  Every Tracer
   method runs under the tracer's mutex, so an execution is a sequence of method calls; the
   schedule (which loop gets to make its next call) is the order of the sequence.

   Packets are (id, payload); answers are payload-level packets (Packet/Writer.v: pkt, join).
   hooks (Tracer.Dispatch) are not used by the node kinds and are left out. *)
From Coq Require Import List Arith NArith ZArith Bool Lia.
From Uf Require Import Packet.Writer.
Import ListNotations.

(* ---- maps keyed by nat ---- *)
Section NatMaps.
  Context {V : Type}.
  Fixpoint nget (k : nat) (m : list (nat * V)) : option V :=
    match m with [] => None | (k', v) :: m' => if Nat.eqb k k' then Some v else nget k m' end.
  Definition ndel (k : nat) (m : list (nat * V)) : list (nat * V) := filter (fun kv => negb (Nat.eqb k (fst kv))) m.
  Definition nset (k : nat) (v : V) (m : list (nat * V)) : list (nat * V) := (k, v) :: ndel k m.
End NatMaps.

Record tstate := mkt {
  t_sources : list (nat * list nat);              (* target id -> its sources *)
  t_targets : list (nat * list nat);              (* source id -> targets not resolved yet *)
  t_receives : list (nat * list (option pkt));    (* id -> answer slots; None = still owed *)
  t_reads : list (nat * list nat);                (* reader -> requests read and not answered, oldest first *)
  t_writes : list (nat * list nat);               (* writer -> packets written and not answered, oldest first *)
  t_reader : list (nat * nat);                    (* request id -> reader *)
  t_pay : list (nat * pay);                       (* payload of every packet (for the echo) *)
  t_out : list (nat * nat * pkt);                 (* answers handed to readers: (reader, request id, answer) *)
  t_crash : bool                                  (* an index went out of range (a panic in Go) *)
}.

Definition t_init : tstate := mkt [] [] [] [] [] [] [] [] false.

Definition upd_sources st x := mkt x (t_targets st) (t_receives st) (t_reads st) (t_writes st) (t_reader st) (t_pay st) (t_out st) (t_crash st).
Definition upd_targets st x := mkt (t_sources st) x (t_receives st) (t_reads st) (t_writes st) (t_reader st) (t_pay st) (t_out st) (t_crash st).
Definition upd_receives st x := mkt (t_sources st) (t_targets st) x (t_reads st) (t_writes st) (t_reader st) (t_pay st) (t_out st) (t_crash st).
Definition upd_reads st x := mkt (t_sources st) (t_targets st) (t_receives st) x (t_writes st) (t_reader st) (t_pay st) (t_out st) (t_crash st).
Definition upd_writes st x := mkt (t_sources st) (t_targets st) (t_receives st) (t_reads st) x (t_reader st) (t_pay st) (t_out st) (t_crash st).
Definition upd_reader st x := mkt (t_sources st) (t_targets st) (t_receives st) (t_reads st) (t_writes st) x (t_pay st) (t_out st) (t_crash st).
Definition upd_pay st x := mkt (t_sources st) (t_targets st) (t_receives st) (t_reads st) (t_writes st) (t_reader st) x (t_out st) (t_crash st).
Definition upd_out st x := mkt (t_sources st) (t_targets st) (t_receives st) (t_reads st) (t_writes st) (t_reader st) (t_pay st) x (t_crash st).
Definition set_crash st := mkt (t_sources st) (t_targets st) (t_receives st) (t_reads st) (t_writes st) (t_reader st) (t_pay st) (t_out st) true.

Definition has_nil (rc : list (option pkt)) : bool := existsb (fun c : option pkt => match c with None => true | Some _ => false end) rc.
Definition slots (rc : list (option pkt)) : list pkt := flat_map (fun c : option pkt => match c with Some p => [p] | None => [] end) rc.
Definition lst {A} (o : option (list A)) : list A := match o with Some l => l | None => [] end.

(* receive(source, target): the first owed slot takes the answer, or a new slot is added *)
Fixpoint fill_first (rc : list (option pkt)) (a : pkt) : list (option pkt) :=
  match rc with
  | [] => [Some a]
  | None :: r => Some a :: r
  | Some x :: r => Some x :: fill_first r a
  end.
Definition t_receive (st : tstate) (p : nat) (a : pkt) : tstate :=
  upd_receives st (nset p (fill_first (lst (nget p (t_receives st))) a) (t_receives st)).

(* discard(source): the first owed slot is removed *)
Fixpoint drop_first_nil (rc : list (option pkt)) : list (option pkt) :=
  match rc with
  | [] => []
  | None :: r => r
  | Some x :: r => Some x :: drop_first_nil r
  end.
Definition t_discard (st : tstate) (p : nat) : tstate :=
  match nget p (t_receives st) with
  | Some rc => if has_nil rc then upd_receives st (nset p (drop_first_nil rc) (t_receives st)) else st
  | None => st
  end.

(* the loop of resolve over targets[source] / receives[source]: the i-th target still listed owns
   the i-th owed slot; returns None when the slots run out (index out of range) *)
Fixpoint fill_target (tgts : list nat) (rc : list (option pkt)) (p : nat) (j : pkt)
  : option (list nat * list (option pkt)) :=
  match rc with
  | [] => match tgts with [] => Some ([], []) | _ :: _ => None end
  | Some x :: rc' =>
      match tgts with
      | [] => Some ([], rc)
      | _ => match fill_target tgts rc' p j with Some (ts, r) => Some (ts, Some x :: r) | None => None end
      end
  | None :: rc' =>
      match tgts with
      | [] => Some ([], rc)
      | t :: ts => if Nat.eqb t p then Some (ts, Some j :: rc')
                   else match fill_target ts rc' p j with Some (ts', r) => Some (t :: ts', None :: r) | None => None end
      end
  end.

(* the reader branch of resolve: answer the requests at the head of the reader's queue whose slots
   exist and are all filled *)
Fixpoint flush_reads (st : tstate) (r : nat) (reads : list nat) : tstate * list nat :=
  match reads with
  | [] => (st, [])
  | rd :: rest =>
      match nget rd (t_receives st) with
      | None => (st, reads)                                  (* nothing derived yet: not complete *)
      | Some rc =>
          if has_nil rc then (st, reads)
          else
            let st1 := upd_out st (t_out st ++ [(r, rd, join (slots rc))]) in
            let st2 := upd_reader st1 (ndel rd (t_reader st1)) in
            let st3 := upd_receives st2 (ndel rd (t_receives st2)) in
            flush_reads st3 r rest
      end
  end.

Fixpoint resolve (fuel : nat) (st : tstate) (p : nat) : tstate :=
  match fuel with
  | O => st
  | S f =>
      let rc := lst (nget p (t_receives st)) in
      if has_nil rc then st else
      let st1 :=
        match nget p (t_sources st) with
        | Some srcs =>
            let j := join (slots rc) in
            fold_left (fun st src =>
                         if t_crash st then st else
                         match fill_target (lst (nget src (t_targets st))) (lst (nget src (t_receives st))) p j with
                         | None => set_crash st
                         | Some (ts, rc') =>
                             let st' := upd_receives st (match nget src (t_receives st) with
                                                         | Some _ => nset src rc' (t_receives st)
                                                         | None => t_receives st end) in
                             let st'' := upd_targets st' (match ts with [] => ndel src (t_targets st') | _ => nset src ts (t_targets st') end) in
                             resolve f st'' src
                         end)
                      srcs (upd_sources st (ndel p (t_sources st)))
        | None => st
        end in
      if t_crash st1 then st1 else
      match nget p (t_reader st1) with
      | Some r =>
          let '(st2, rest) := flush_reads st1 r (lst (nget r (t_reads st1))) in
          upd_reads st2 (match rest with [] => ndel r (t_reads st2) | _ => nset r rest (t_reads st2) end)
      | None => upd_receives st1 (ndel p (t_receives st1))
      end
  end.

Definition fuel0 : nat := 8.   (* the derivation graph of a node has depth 1: request -> derived packets *)

Inductive top :=
| TRead (r : nat) (p : nat) (pl : pay)               (* Tracer.Read(reader, pck) *)
| TLink (src tgt : nat) (pl : pay)                   (* Tracer.Link(src, tgt); tgt is a new packet *)
| TWrite (w : option nat) (p : nat) (accepted : bool)    (* Tracer.Write(writer, pck); accepted: writer.Write(pck) > 0 *)
| TReceive (w : nat) (back : option pkt).            (* Tracer.Receive(writer, pck); None = nil *)

Definition t_step (st : tstate) (op : top) : tstate :=
  if t_crash st then st else
  match op with
  | TRead r p pl =>
      let st1 := upd_reads st (nset r (lst (nget r (t_reads st)) ++ [p]) (t_reads st)) in
      let st2 := upd_reader st1 (nset p r (t_reader st1)) in
      upd_pay st2 (nset p pl (t_pay st2))
  | TLink src tgt pl =>
      if Nat.eqb src tgt then st else
      let st1 := upd_sources st (nset tgt (lst (nget tgt (t_sources st)) ++ [src]) (t_sources st)) in
      let st2 := upd_targets st1 (nset src (lst (nget src (t_targets st1)) ++ [tgt]) (t_targets st1)) in
      let st3 := upd_receives st2 (nset src (lst (nget src (t_receives st2)) ++ [None]) (t_receives st2)) in
      upd_pay st3 (nset tgt pl (t_pay st3))
  | TWrite w p accepted =>
      match w, accepted with
      | Some w', true =>
          let st1 := upd_writes st (nset w' (lst (nget w' (t_writes st)) ++ [p]) (t_writes st)) in
          upd_receives st1 (nset p (lst (nget p (t_receives st1)) ++ [None]) (t_receives st1))
      | _, _ =>
          let a := match nget p (t_pay st) with Some pl => Pk pl | None => PNone end in
          resolve fuel0 (t_receive st p a) p
      end
  | TReceive w back =>
      match lst (nget w (t_writes st)) with
      | [] => st
      | wr :: rest =>
          let st1 := upd_writes st (match rest with [] => ndel w (t_writes st) | _ => nset w rest (t_writes st) end) in
          let st2 := match back with Some a => t_receive st1 wr a | None => t_discard st1 wr end in
          resolve fuel0 st2 wr
      end
  end.

Definition t_run (ops : list top) : tstate := fold_left t_step ops t_init.

(* Tracer.Close: every request that is still waiting gets a dropped-packet error on its reader (one per entry of
   Tracer.reader; Go walks that map in its own order - the answers are all alike), then every table is emptied *)
Definition t_close (st : tstate) : tstate :=
  if t_crash st then st else
  mkt [] [] [] [] [] [] (t_pay st) (t_out st ++ map (fun e : nat * nat => (snd e, fst e, dropped)) (t_reader st)) false.
