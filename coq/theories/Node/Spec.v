(* C02 end to end, for one node: the specification the tracer is meant to implement.

   The specification keeps, for every request a node has read and not yet answered, the ROW of the packets
   derived from it (in the order they were linked) with the answer each has received so far.  A request is
   answered when it is the oldest unanswered request of its reader, at least one packet was derived from it (or it
   was answered directly) and every packet of its row has its answer; the answer is the join of the row.  Nothing
   else ever produces an answer.  That is the property: once, in arrival order on the input, only after every
   derived packet has itself been answered, with the join of those answers.

   [disciplined] is what the three node kinds guarantee about their calls: packets are fresh, a packet is linked
   only to requests that are still unanswered and before it is written, all packets derived from a request are
   linked before the first of them is written (OneToMany links all, then writes all), every derived packet is
   written once, and a request without derived packets is answered directly (Tracer.Write(nil, request)).
   One derived packet may have several source requests (ManyToOne).

   Node/Refine.v proves that for every disciplined sequence of calls the tracer model hands out exactly the
   specification's answers. *)
From Coq Require Import List Arith NArith ZArith Bool Lia.
From Uf Require Import Packet.Writer Node.Tracer.
Import ListNotations.

Definition row := list (nat * option pkt).

Record sstate := mks {
  s_reads : list (nat * list nat);         (* reader -> its unanswered requests, oldest first *)
  s_reader : list (nat * nat);             (* unanswered request -> its reader *)
  s_rows : list (nat * row);               (* unanswered request -> derived packets with their answers *)
  s_srcs : list (nat * list nat);          (* unanswered derived packet -> the requests it was derived from *)
  s_writes : list (nat * list nat);        (* writer -> derived packets written to it and not answered *)
  s_lnk : list nat;                        (* derived packets linked and not written yet *)
  s_wr : list nat;                         (* derived packets written and not answered yet *)
  s_used : list nat;                       (* every packet id seen so far *)
  s_pay : list (nat * pay);
  s_out : list (nat * nat * pkt)           (* answers: (reader, request, answer) *)
}.

Definition s_init : sstate := mks [] [] [] [] [] [] [] [] [] [].

Definition su_reads st x := mks x (s_reader st) (s_rows st) (s_srcs st) (s_writes st) (s_lnk st) (s_wr st) (s_used st) (s_pay st) (s_out st).
Definition su_reader st x := mks (s_reads st) x (s_rows st) (s_srcs st) (s_writes st) (s_lnk st) (s_wr st) (s_used st) (s_pay st) (s_out st).
Definition su_rows st x := mks (s_reads st) (s_reader st) x (s_srcs st) (s_writes st) (s_lnk st) (s_wr st) (s_used st) (s_pay st) (s_out st).
Definition su_srcs st x := mks (s_reads st) (s_reader st) (s_rows st) x (s_writes st) (s_lnk st) (s_wr st) (s_used st) (s_pay st) (s_out st).
Definition su_writes st x := mks (s_reads st) (s_reader st) (s_rows st) (s_srcs st) x (s_lnk st) (s_wr st) (s_used st) (s_pay st) (s_out st).
Definition su_lnk st x := mks (s_reads st) (s_reader st) (s_rows st) (s_srcs st) (s_writes st) x (s_wr st) (s_used st) (s_pay st) (s_out st).
Definition su_wr st x := mks (s_reads st) (s_reader st) (s_rows st) (s_srcs st) (s_writes st) (s_lnk st) x (s_used st) (s_pay st) (s_out st).
Definition su_used st x := mks (s_reads st) (s_reader st) (s_rows st) (s_srcs st) (s_writes st) (s_lnk st) (s_wr st) x (s_pay st) (s_out st).
Definition su_pay st x := mks (s_reads st) (s_reader st) (s_rows st) (s_srcs st) (s_writes st) (s_lnk st) (s_wr st) (s_used st) x (s_out st).
Definition su_out st x := mks (s_reads st) (s_reader st) (s_rows st) (s_srcs st) (s_writes st) (s_lnk st) (s_wr st) (s_used st) (s_pay st) x.

Definition answers (rw : row) : list pkt := slots (map snd rw).
Definition complete (rw : row) : bool := negb (has_nil (map snd rw)).

(* the derived packet [q] gets its answer [j] in a row: its first open slot *)
Fixpoint fill_row (q : nat) (j : pkt) (d : row) : row :=
  match d with
  | [] => []
  | (q', None) :: r => if Nat.eqb q' q then (q', Some j) :: r else (q', None) :: fill_row q j r
  | x :: r => x :: fill_row q j r
  end.

(* answer the requests at the head of a reader's queue whose rows exist and are complete *)
Fixpoint s_flush (st : sstate) (r : nat) (reads : list nat) : sstate * list nat :=
  match reads with
  | [] => (st, [])
  | rd :: rest =>
      match nget rd (s_rows st) with
      | None => (st, reads)
      | Some rw =>
          if complete rw then
            let st1 := su_out st (s_out st ++ [(r, rd, join (answers rw))]) in
            let st2 := su_reader st1 (ndel rd (s_reader st1)) in
            let st3 := su_rows st2 (ndel rd (s_rows st2)) in
            s_flush st3 r rest
          else (st, reads)
      end
  end.

Definition s_flush_reader (st : sstate) (r : nat) : sstate :=
  let '(st1, rest) := s_flush st r (lst (nget r (s_reads st))) in
  su_reads st1 (match rest with [] => ndel r (s_reads st1) | _ => nset r rest (s_reads st1) end).

(* the derived packet [d] has its own answer [j]: every request it was derived from records it, and whatever has
   become answerable on that request's reader is answered *)
Definition s_settle_src (d : nat) (j : pkt) (st : sstate) (s : nat) : sstate :=
  match nget s (s_rows st) with
  | Some rw =>
      let st1 := su_rows st (nset s (fill_row d j rw) (s_rows st)) in
      if complete (fill_row d j rw) then
        match nget s (s_reader st1) with Some r => s_flush_reader st1 r | None => st1 end
      else st1
  | None => st
  end.

Definition s_settle (st : sstate) (d : nat) (j : pkt) : sstate :=
  match nget d (s_srcs st) with
  | Some ss => fold_left (s_settle_src d j) ss (su_srcs st (ndel d (s_srcs st)))
  | None => st
  end.

Definition echo (st : sstate) (p : nat) : pkt := match nget p (s_pay st) with Some pl => Pk pl | None => PNone end.

Definition s_step (st : sstate) (op : top) : sstate :=
  match op with
  | TRead r p pl =>
      let st1 := su_reads st (nset r (lst (nget r (s_reads st)) ++ [p]) (s_reads st)) in
      let st2 := su_reader st1 (nset p r (s_reader st1)) in
      let st3 := su_pay st2 (nset p pl (s_pay st2)) in
      su_used st3 (p :: s_used st3)
  | TLink src tgt pl =>
      let st1 := su_rows st (nset src (lst (nget src (s_rows st)) ++ [(tgt, None)]) (s_rows st)) in
      let st2 := su_srcs st1 (nset tgt (lst (nget tgt (s_srcs st1)) ++ [src]) (s_srcs st1)) in
      let st3 := su_pay st2 (nset tgt pl (s_pay st2)) in
      let st4 := su_lnk st3 (if existsb (Nat.eqb tgt) (s_lnk st3) then s_lnk st3 else tgt :: s_lnk st3) in
      su_used st4 (tgt :: s_used st4)
  | TWrite (Some w) p true =>
      let st1 := su_writes st (nset w (lst (nget w (s_writes st)) ++ [p]) (s_writes st)) in
      let st2 := su_wr st1 (p :: s_wr st1) in
      su_lnk st2 (filter (fun x => negb (Nat.eqb x p)) (s_lnk st2))
  | TWrite _ p _ =>
      (* nobody downstream (or no writer at all): the packet's own payload is its answer *)
      match nget p (s_reader st) with
      | Some r =>       (* a request answered directly *)
          s_flush_reader (su_rows st (nset p [(p, Some (echo st p))] (s_rows st))) r
      | None =>
          s_settle (su_lnk st (filter (fun x => negb (Nat.eqb x p)) (s_lnk st))) p (join [echo st p])
      end
  | TReceive w back =>
      match lst (nget w (s_writes st)) with
      | [] => st
      | d :: rest =>
          let st1 := su_writes st (match rest with [] => ndel w (s_writes st) | _ => nset w rest (s_writes st) end) in
          let st1 := su_wr st1 (filter (fun x => negb (Nat.eqb x d)) (s_wr st1)) in
          s_settle st1 d (join (match back with Some a => [a] | None => [] end))
      end
  end.

Definition s_run (ops : list top) : sstate := fold_left s_step ops s_init.

(* ---- what the node kinds guarantee about their calls ---- *)
Definition memb (x : nat) (l : list nat) : bool := existsb (Nat.eqb x) l.
Definition is_some {A} (o : option A) : bool := match o with Some _ => true | None => false end.

Definition allowed (st : sstate) (op : top) : bool :=
  match op with
  | TRead r p pl => negb (memb p (s_used st))
  | TLink src tgt pl =>
      negb (Nat.eqb src tgt)
      && is_some (nget src (s_reader st))                                   (* an unanswered request ... *)
      && forallb (fun x : nat * option pkt => memb (fst x) (s_lnk st)) (lst (nget src (s_rows st)))
                                                                            (* ... none of whose packets is written yet *)
      && (negb (memb tgt (s_used st)) || memb tgt (s_lnk st))               (* a new packet, or one still being linked *)
      && negb (memb src (lst (nget tgt (s_srcs st))))
  | TWrite (Some w) p true => memb p (s_lnk st)
  | TWrite _ p _ =>
      memb p (s_lnk st)
      || (is_some (nget p (s_reader st)) && negb (is_some (nget p (s_rows st))))
  | TReceive w back => true
  end.

Fixpoint disciplined_from (st : sstate) (ops : list top) : bool :=
  match ops with
  | [] => true
  | op :: rest => allowed st op && disciplined_from (s_step st op) rest
  end.
Definition disciplined (ops : list top) : bool := disciplined_from s_init ops.

(* the answers a reader was handed, oldest first: (request, answer) *)
Definition s_answers (r : nat) (st : sstate) : list (nat * pkt) :=
  flat_map (fun x : nat * nat * pkt => if Nat.eqb (fst (fst x)) r then [(snd (fst x), snd x)] else []) (s_out st).

(* the node is closed: every unanswered request is answered with a dropped-packet error, nothing is kept *)
Definition s_close (st : sstate) : sstate :=
  mks [] [] [] [] [] [] [] (s_used st) (s_pay st) (s_out st ++ map (fun e : nat * nat => (snd e, fst e, dropped)) (s_reader st)).
