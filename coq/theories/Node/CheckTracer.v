(* Correspondence checker for the tracer (C02). *)
From Coq Require Import List Arith NArith ZArith Bool.
From Uf Require Import Packet.Writer Node.Tracer.
Import ListNotations.

Fixpoint mismatches_from {A} (ok : A -> bool) (i : nat) (l : list A) : list nat :=
  match l with
  | [] => []
  | c :: t => if ok c then mismatches_from ok (S i) t else i :: mismatches_from ok (S i) t
  end.
Definition mismatches {A} (ok : A -> bool) (l : list A) : list nat := mismatches_from ok 0 l.

Fixpoint list_eqb {A B} (f : A -> B -> bool) (l : list A) (l' : list B) : bool :=
  match l, l' with
  | [], [] => true
  | a :: t, b :: t' => f a b && list_eqb f t t'
  | _, _ => false
  end.

Fixpoint pay_eqb (a b : pay) {struct a} : bool :=
  match a, b with
  | PNil, PNil => true
  | PAtom x, PAtom y => Z.eqb x y
  | PErr l, PErr l' => list_eqb Z.eqb l l'
  | PSlice l, PSlice l' =>
      (fix go (l l' : list pay) {struct l} : bool :=
         match l, l' with [] , [] => true | x :: r, y :: r' => pay_eqb x y && go r r' | _, _ => false end) l l'
  | _, _ => false
  end.
Definition pkt_eqb (a b : pkt) : bool :=
  match a, b with PNone, PNone => true | Pk x, Pk y => pay_eqb x y | _, _ => false end.

(* what the harness reads off after a call: the answers handed to readers during the call (reader,
   answer), the pending requests of each reader and the pending writes of each writer (by the
   harness numbering of packets), and whether the call panicked *)
Record tobs := mkobs { o_answers : list (nat * pkt); o_reads : list (list nat); o_writes : list (list nat); o_panic : bool }.

Definition c2case := (nat * nat * list (top * tobs))%type.   (* readers, writers, steps *)

Fixpoint run_cmp (nr nw : nat) (st : tstate) (steps : list (top * tobs)) : bool :=
  match steps with
  | [] => true
  | (op, o) :: rest =>
      let st' := t_step st op in
      let new := skipn (length (t_out st)) (t_out st') in
      if t_crash st' then o_panic o     (* the model stops at a panic; so does the comparison *)
      else negb (o_panic o)
           && list_eqb (fun (a : nat * nat * pkt) (b : nat * pkt) => Nat.eqb (fst (fst a)) (fst b) && pkt_eqb (snd a) (snd b)) new (o_answers o)
           && list_eqb (list_eqb Nat.eqb) (map (fun r => lst (nget r (t_reads st'))) (seq 0 nr)) (o_reads o)
           && list_eqb (list_eqb Nat.eqb) (map (fun w => lst (nget w (t_writes st'))) (seq 0 nw)) (o_writes o)
           && run_cmp nr nw st' rest
  end.

Definition c2ok (c : c2case) : bool := let '(nr, nw, steps) := c in run_cmp nr nw t_init steps.

(* ---- the specification (Node/Spec.v) against the same observations: for call sequences that keep the node
   discipline, the answers the implementation hands out at each call are the specification's ---- *)
From Uf Require Import Node.Spec.

Fixpoint spec_cmp (st : sstate) (steps : list (top * tobs)) : bool :=
  match steps with
  | [] => true
  | (op, o) :: rest =>
      let st' := s_step st op in
      let new := skipn (length (s_out st)) (s_out st') in
      negb (o_panic o)
      && list_eqb (fun (a : nat * nat * pkt) (b : nat * pkt) => Nat.eqb (fst (fst a)) (fst b) && pkt_eqb (snd a) (snd b)) new (o_answers o)
      && spec_cmp st' rest
  end.

(* 0 = not disciplined (nothing claimed), 1 = disciplined and equal, 2 = disciplined and different *)
Definition c2spec (c : c2case) : nat :=
  let '(_, _, steps) := c in
  if disciplined (map fst steps) then (if spec_cmp s_init steps then 1 else 2) else 0.
(* every sequence the harness drives is node-shaped, so it has to satisfy the discipline predicate as well: a sequence
   that does not would mean the predicate does not describe what the node loops do *)
Definition c2ok_spec (c : c2case) : bool := c2ok c && Nat.eqb (c2spec c) 1.

(* ---- Tracer.Close at the end of a sequence: the answers handed out during the close, compared per reader (Go walks
   its map in its own order; the answers are all the dropped-packet error) ---- *)
Definition c2ccase := (c2case * option (list (nat * pkt)))%type.

Fixpoint final_t (st : tstate) (steps : list (top * tobs)) : tstate :=
  match steps with [] => st | (op, _) :: r => final_t (t_step st op) r end.

Fixpoint ins_rp (x : nat * pkt) (l : list (nat * pkt)) : list (nat * pkt) :=
  match l with [] => [x] | y :: t => if Nat.leb (fst x) (fst y) then x :: l else y :: ins_rp x t end.
Definition sort_rp (l : list (nat * pkt)) : list (nat * pkt) := fold_right ins_rp [] l.

Definition close_ok (c : c2case) (obs : list (nat * pkt)) : bool :=
  let '(_, _, steps) := c in
  let st := final_t t_init steps in
  let new := map (fun a : nat * nat * pkt => (fst (fst a), snd a)) (skipn (length (t_out st)) (t_out (t_close st))) in
  list_eqb (fun a b : nat * pkt => Nat.eqb (fst a) (fst b) && pkt_eqb (snd a) (snd b)) (sort_rp new) (sort_rp obs).

Definition c2ok_close (c : c2ccase) : bool :=
  c2ok_spec (fst c) && match snd c with None => true | Some obs => close_ok (fst c) obs end.

(* ---- the network of specification nodes (Node/Network.v) against real workflows: the harness gives, for a real
   workflow run, the derivations (which packets each action derived, to which input, and the own result of the
   nodes that derive nothing) in creation order; the model - per-node FIFO, row-complete rule, join - computes the
   answers the source gets, which must be the real ones ---- *)
From Uf Require Node.Network.
Definition netcase := (nat * list (Network.lab pkt) * list pkt)%type.
Definition NIn := Network.LIn pkt.
Definition NProc := Network.LProc pkt.

Definition net_run_strict (N : nat) (ls : list (Network.lab pkt)) : option (Network.net pkt) :=
  fold_left (fun o l => match o with Some s => Network.step pkt join dropped N s l | None => None end) ls (Some (Network.net0 pkt)).

Fixpoint iter_n {A} (n : nat) (f : A -> A) (x : A) : A := match n with 0 => x | S k => iter_n k f (f x) end.

(* answer whatever can be answered, last node first, until nothing is left to answer *)
Definition net_settle (N : nat) (st : Network.net pkt) : Network.net pkt :=
  iter_n (Network.n_next pkt st)
         (fun s => fold_left (Network.step' pkt join dropped N) (map (Network.LAns pkt) (rev (seq 0 N))) s) st.

Definition net_ok (c : netcase) : bool :=
  let '(N, ls, got) := c in
  match net_run_strict N ls with
  | Some st0 =>
      let st := net_settle N st0 in
      list_eqb pkt_eqb (map snd (rev (Network.n_out pkt st))) got
      && forallb (fun n => match Network.n_q pkt st n with [] => true | _ => false end) (seq 0 N)
  | None => false
  end.

Definition c2any := (c2ccase + netcase)%type.
Definition c2ok_any (c : c2any) : bool := match c with inl x => c2ok_close x | inr y => net_ok y end.
