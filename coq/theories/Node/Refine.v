(* C02 end to end for one node: the tracer model (Node/Tracer.v) refines the specification (Node/Spec.v) on every
   disciplined sequence of calls.  Part 1: the simulation relation and the simulation of the two loops of
   Tracer.resolve (the reader branch and the source loop). *)
From Coq Require Import List Arith NArith ZArith Bool Lia.
From Uf Require Import Packet.Writer Node.Tracer Node.TracerProofs Node.Spec.
Import ListNotations.

Ltac proj := cbn [t_sources t_targets t_receives t_reads t_writes t_reader t_pay t_out t_crash
                  upd_sources upd_targets upd_receives upd_reads upd_writes upd_reader upd_pay upd_out set_crash
                  s_reads s_reader s_rows s_srcs s_writes s_lnk s_wr s_used s_pay s_out
                  su_reads su_reader su_rows su_srcs su_writes su_lnk su_wr su_used su_pay su_out] in *.

Definition written (s : sstate) (p : nat) : bool := memb p (s_wr s).

(* the slots the tracer holds for packet [p], as the specification sees them *)
Definition std_receives (s : sstate) (p : nat) : option (list (option pkt)) :=
  match nget p (s_rows s) with
  | Some rw => Some (map snd rw)
  | None => if written s p then Some [None] else None
  end.
Definition std_targets (s : sstate) (p : nat) : option (list nat) :=
  match nget p (s_rows s) with
  | Some rw => match pending rw with [] => None | l => Some l end
  | None => None
  end.

(* [ex]: the derived packet that is being settled right now, with its own (complete) slots *)
Record SimG (ex : option (nat * list (option pkt))) (t : tstate) (s : sstate) : Prop := {
  sim_reads : t_reads t = s_reads s;
  sim_reader : t_reader t = s_reader s;
  sim_writes : t_writes t = s_writes s;
  sim_pay : t_pay t = s_pay s;
  sim_out : t_out t = s_out s;
  sim_crash : t_crash t = false;
  sim_sources : t_sources t = s_srcs s;
  sim_receives : forall p, nget p (t_receives t) =
      match ex with
      | Some (d, rc) => if Nat.eqb p d then Some rc else std_receives s p
      | None => std_receives s p
      end;
  sim_targets : forall p, nget p (t_targets t) = std_targets s p
}.
Definition Sim := SimG None.

Definition not_ex (ex : option (nat * list (option pkt))) (p : nat) : Prop :=
  match ex with Some (d, _) => p <> d | None => True end.

Lemma sim_receives_std ex t s p : SimG ex t s -> not_ex ex p -> nget p (t_receives t) = std_receives s p.
Proof.
  intros S N. rewrite (sim_receives _ _ _ S). destruct ex as [[d rc]|]; [|reflexivity].
  cbn in N. destruct (Nat.eqb_spec p d); [contradiction|reflexivity].
Qed.

Lemma fill_row_mark q j d : fill_row q j d = mark q j d.
Proof. induction d as [|[q' [a|]] d IH]; cbn; [reflexivity|rewrite IH; reflexivity|]. destruct (Nat.eqb q' q); [reflexivity|rewrite IH; reflexivity]. Qed.

Lemma complete_pending rw : complete rw = true -> pending rw = [].
Proof.
  unfold complete, pending, has_nil. induction rw as [|[q [a|]] rw IH]; cbn; intros H; [reflexivity|apply IH; exact H|discriminate].
Qed.

(* ---- the reader branch ---- *)
Lemma flush_sim ex r : forall l t s, SimG ex t s ->
  (forall rd, In rd l -> written s rd = false /\ not_ex ex rd) ->
  exists t' s' rest, flush_reads t r l = (t', rest) /\ s_flush s r l = (s', rest) /\ SimG ex t' s' /\ s_wr s' = s_wr s.
Proof.
  induction l as [|rd l IH]; intros t s S H; cbn [flush_reads s_flush].
  - exists t, s, []. auto.
  - destruct (H rd (or_introl eq_refl)) as [Wr Nx].
    rewrite (sim_receives_std _ _ _ _ S Nx). unfold std_receives. rewrite Wr.
    destruct (nget rd (s_rows s)) as [rw|] eqn:R; [|exists t, s, (rd :: l); auto].
    unfold complete. destruct (has_nil (map snd rw)) eqn:HN; cbn [negb]; [exists t, s, (rd :: l); auto|].
    match goal with |- exists _ _ _, flush_reads ?t3 _ _ = _ /\ s_flush ?s3 _ _ = _ /\ _ =>
      assert (S3 : SimG ex t3 s3); [|assert (H3 : forall rd, In rd l -> written s3 rd = false /\ not_ex ex rd);
        [|destruct (IH t3 s3 S3 H3) as [t' [s' [rest [A [B [C D]]]]]]; exists t', s', rest;
          split; [exact A|split; [exact B|split; [exact C|rewrite D; reflexivity]]]]] end.
    + destruct S as [S1 S2 S3 S4 S5 S6 S7 S8 S9]. split; proj; try assumption.
      * rewrite S2. reflexivity.
      * rewrite S5. reflexivity.
      * intros p. rewrite nget_ndel. unfold std_receives, written in *. proj. rewrite nget_ndel.
        destruct (Nat.eqb_spec p rd) as [E|E].
        -- subst p. destruct ex as [[d rc]|]; [cbn in Nx; destruct (Nat.eqb_spec rd d); [contradiction|]|]; rewrite Wr; reflexivity.
        -- apply S8.
      * intros p. unfold std_targets in *. proj. rewrite nget_ndel. destruct (Nat.eqb_spec p rd) as [E|E]; [|apply S9].
        subst p. rewrite S9, R. rewrite complete_pending; [reflexivity|]. unfold complete. rewrite HN. reflexivity.
    + intros rd' I'. destruct (H rd' (or_intror I')) as [W' N']. split; [exact W'|exact N'].
Qed.

(* ---- Tracer.resolve, one level at a time ---- *)
Definition res_src (f : nat) (p : nat) (j : pkt) (st : tstate) (src : nat) : tstate :=
  if t_crash st then st else
  match fill_target (lst (nget src (t_targets st))) (lst (nget src (t_receives st))) p j with
  | None => set_crash st
  | Some (ts, rc') =>
      let st' := upd_receives st (match nget src (t_receives st) with
                                  | Some _ => nset src rc' (t_receives st)
                                  | None => t_receives st end) in
      let st'' := upd_targets st' (match ts with [] => ndel src (t_targets st') | _ => nset src ts (t_targets st') end) in
      resolve f st'' src
  end.

Lemma resolve_S f st p :
  resolve (S f) st p =
  let rc := lst (nget p (t_receives st)) in
  if has_nil rc then st else
  let st1 := match nget p (t_sources st) with
             | Some srcs => fold_left (res_src f p (join (slots rc))) srcs (upd_sources st (ndel p (t_sources st)))
             | None => st
             end in
  if t_crash st1 then st1 else
  match nget p (t_reader st1) with
  | Some r =>
      let '(st2, rest) := flush_reads st1 r (lst (nget r (t_reads st1))) in
      upd_reads st2 (match rest with [] => ndel r (t_reads st2) | _ => nset r rest (t_reads st2) end)
  | None => upd_receives st1 (ndel p (t_receives st1))
  end.
Proof. reflexivity. Qed.

(* resolve at a request whose row is known *)
Lemma resolve_request ex f t s s0 rw :
  SimG ex t s -> not_ex ex s0 ->
  nget s0 (s_rows s) = Some rw -> nget s0 (s_srcs s) = None ->
  (forall r, nget s0 (s_reader s) = Some r ->
             forall rd, In rd (lst (nget r (s_reads s))) -> written s rd = false /\ not_ex ex rd) ->
  is_some (nget s0 (s_reader s)) = true ->
  SimG ex (resolve (S f) t s0)
          (if complete rw then match nget s0 (s_reader s) with Some r => s_flush_reader s r | None => s end else s).
Proof.
  intros S Nx R Sr Hq Hr. rewrite resolve_S. cbv zeta.
  rewrite (sim_receives_std _ _ _ _ S Nx). unfold std_receives. rewrite R. cbn [lst].
  unfold complete. destruct (has_nil (map snd rw)); cbn [negb]; [exact S|].
  rewrite (sim_sources _ _ _ S), Sr, (sim_crash _ _ _ S), (sim_reader _ _ _ S).
  destruct (nget s0 (s_reader s)) as [r|]; [|discriminate].
  unfold s_flush_reader. rewrite (sim_reads _ _ _ S).
  destruct (flush_sim ex r (lst (nget r (s_reads s))) t s S (Hq r eq_refl)) as [t' [s' [rest [A [B [C D]]]]]].
  rewrite A, B. destruct C as [C1 C2 C3 C4 C5 C6 C7 C8 C9]. split; proj; try assumption.
  rewrite C1. reflexivity.
Qed.

(* one round of the source loop *)
Lemma src_sim f d rc j t s s0 rw :
  SimG (Some (d, rc)) t s -> s0 <> d ->
  nget s0 (s_rows s) = Some rw -> nget s0 (s_srcs s) = None ->
  (forall r, nget s0 (s_reader s) = Some r ->
             forall rd, In rd (lst (nget r (s_reads s))) -> written s rd = false /\ rd <> d) ->
  is_some (nget s0 (s_reader s)) = true ->
  SimG (Some (d, rc)) (res_src (S f) d j t s0) (s_settle_src d j s s0).
Proof.
  intros S Nd R Sr Hq Hr. unfold res_src, s_settle_src. rewrite (sim_crash _ _ _ S), R.
  assert (Rc : nget s0 (t_receives t) = Some (map snd rw)).
  { rewrite (sim_receives_std _ _ _ _ S); [|exact Nd]. unfold std_receives. rewrite R. reflexivity. }
  assert (Tg : lst (nget s0 (t_targets t)) = pending rw).
  { rewrite (sim_targets _ _ _ S). unfold std_targets. rewrite R. destruct (pending rw); reflexivity. }
  rewrite Rc, Tg. cbn [lst]. rewrite fill_target_aligned, <- fill_row_mark.
  set (rw' := fill_row d j rw).
  match goal with |- SimG _ (resolve _ ?t2 _) _ => set (t' := t2) end.
  set (s' := su_rows s (nset s0 rw' (s_rows s))).
  assert (S' : SimG (Some (d, rc)) t' s').
  { destruct S as [S1 S2 S3 S4 S5 S6 S7 S8 S9]. unfold t', s'. split; proj; try assumption.
    - intros p. rewrite nget_nset. unfold std_receives, written. proj. rewrite nget_nset.
      destruct (Nat.eqb_spec p d) as [E|E].
      + subst p. destruct (Nat.eqb_spec d s0) as [E2|E2]; [congruence|]. rewrite S8, Nat.eqb_refl. reflexivity.
      + destruct (Nat.eqb_spec p s0) as [E2|E2]; [reflexivity|].
        rewrite S8. destruct (Nat.eqb_spec p d); [contradiction|]. reflexivity.
    - intros p. unfold std_targets. proj. rewrite nget_nset.
      destruct (Nat.eqb_spec p s0) as [E2|E2].
      + subst p. destruct (pending rw'); [rewrite nget_ndel|rewrite nget_nset]; rewrite Nat.eqb_refl; reflexivity.
      + destruct (pending rw'); [rewrite nget_ndel|rewrite nget_nset]; destruct (Nat.eqb_spec p s0); try contradiction; rewrite S9; reflexivity. }
  assert (R' : nget s0 (s_rows s') = Some rw') by (unfold s'; proj; rewrite nget_nset, Nat.eqb_refl; reflexivity).
  pose proof (resolve_request (Some (d, rc)) f t' s' s0 rw' S' Nd R' Sr) as Q.
  unfold s' in Q at 1 2 3 4. proj. apply Q.
  - intros r Er rd Ird. apply Hq with r; assumption.
  - exact Hr.
Qed.

(* ---- what the specification's reader branch does, pointwise ---- *)
Lemma s_flush_spec r : forall l s s' rest, s_flush s r l = (s', rest) ->
  exists done, l = done ++ rest /\
    (forall k, nget k (s_reader s') = if memb k done then None else nget k (s_reader s)) /\
    (forall k, nget k (s_rows s') = if memb k done then None else nget k (s_rows s)) /\
    (forall k, In k done -> exists rw, nget k (s_rows s) = Some rw /\ complete rw = true) /\
    s_reads s' = s_reads s /\ s_srcs s' = s_srcs s /\ s_writes s' = s_writes s /\ s_lnk s' = s_lnk s /\
    s_wr s' = s_wr s /\ s_used s' = s_used s /\ s_pay s' = s_pay s.
Proof.
  induction l as [|rd l IH]; intros s s' rest H; cbn [s_flush] in H.
  - injection H as <- <-. exists []. cbn. repeat split; auto; intros k []. 
  - destruct (nget rd (s_rows s)) as [rw|] eqn:R.
    2:{ injection H as <- <-. exists []. cbn. repeat split; auto; intros k []. }
    destruct (complete rw) eqn:C.
    2:{ injection H as <- <-. exists []. cbn. repeat split; auto; intros k []. }
    apply IH in H. destruct H as [done [E [H1 [H2 [H3 F]]]]]. proj.
    exists (rd :: done). split; [cbn; rewrite E; reflexivity|]. split; [|split; [|split; [|exact F]]].
    + intros k. rewrite H1, nget_ndel. cbn [memb existsb]. fold (memb k done). destruct (memb k done); [rewrite orb_true_r; reflexivity|].
      rewrite orb_false_r. reflexivity.
    + intros k. rewrite H2, nget_ndel. cbn [memb existsb]. fold (memb k done). destruct (memb k done); [rewrite orb_true_r; reflexivity|].
      rewrite orb_false_r. reflexivity.
    + intros k [Ek|Ik]; [subst k; exists rw; auto|].
      destruct (H3 k Ik) as [rw' [R' C']]. rewrite nget_ndel in R'. destruct (Nat.eqb k rd); [discriminate|]. exists rw'. auto.
Qed.

Lemma memb_In x l : memb x l = true <-> In x l.
Proof.
  unfold memb. rewrite existsb_exists. split.
  - intros [y [I E]]. apply Nat.eqb_eq in E. subst. exact I.
  - intros I. exists x. split; [exact I|apply Nat.eqb_refl].
Qed.
Lemma memb_nIn x l : memb x l = false <-> ~ In x l.
Proof. rewrite <- memb_In. destruct (memb x l); split; congruence. Qed.

(* ---- the facts about the specification state that the source loop relies on ---- *)
Record Good (d : nat) (s : sstate) (ss : list nat) : Prop := {
  g_nodup : NoDup ss;
  g_src : forall s0, In s0 ss -> s0 <> d /\ exists rw, nget s0 (s_rows s) = Some rw /\ In d (pending rw);
  g_rows : forall rd, is_some (nget rd (s_rows s)) = true -> is_some (nget rd (s_reader s)) = true;
  g_req : forall rd, is_some (nget rd (s_reader s)) = true -> nget rd (s_srcs s) = None /\ written s rd = false /\ rd <> d;
  g_reads : forall r rd, In rd (lst (nget r (s_reads s))) -> nget rd (s_reader s) = Some r;
  g_reads_nodup : forall r, NoDup (lst (nget r (s_reads s)))
}.

Lemma pending_incomplete d rw : In d (pending rw) -> complete rw = false.
Proof.
  unfold pending, complete, has_nil. induction rw as [|[q [a|]] rw IH]; cbn; intros H; [destruct H|apply IH; exact H|reflexivity].
Qed.

Lemma NoDup_app_r {A} (a b : list A) : NoDup (a ++ b) -> NoDup b.
Proof. induction a; cbn; intros H; [exact H|]. inversion H; auto. Qed.
Lemma NoDup_app_disjoint {A} (a b : list A) x : NoDup (a ++ b) -> In x a -> In x b -> False.
Proof.
  induction a as [|y a IH]; cbn; intros ND Ia Ib; [destruct Ia|]. inversion ND as [|? ? Ny ND']; subst.
  destruct Ia as [Ia|Ia]; [subst y; apply Ny, in_or_app; right; exact Ib|exact (IH ND' Ia Ib)].
Qed.

Lemma good_flush d s r ss :
  Good d s ss -> (forall s0, In s0 ss -> forall rw, nget s0 (s_rows s) = Some rw -> complete rw = false) ->
  Good d (s_flush_reader s r) ss /\ s_wr (s_flush_reader s r) = s_wr s /\ s_srcs (s_flush_reader s r) = s_srcs s.
Proof.
  intros G Hinc. unfold s_flush_reader. destruct (s_flush s r (lst (nget r (s_reads s)))) as [s1 rest] eqn:F.
  destruct (s_flush_spec _ _ _ _ _ F) as [done [E [H1 [H2 [H3 [F1 [F2 [F3 [F4 [F5 [F6 F7]]]]]]]]]]].
  destruct G as [G1 G2 G3 G4 G5 G6].
  assert (Rd : forall k, In k done -> nget k (s_reader s) = Some r).
  { intros k Ik. apply G5. rewrite E. apply in_or_app. left. exact Ik. }
  assert (Qn : forall r', nget r' (match rest with [] => ndel r (s_reads s1) | _ => nset r rest (s_reads s1) end) =
                          if Nat.eqb r' r then (match rest with [] => None | _ => Some rest end) else nget r' (s_reads s)).
  { intros r'. rewrite F1. destruct rest; [rewrite nget_ndel|rewrite nget_nset]; destruct (Nat.eqb r' r); reflexivity. }
  split; [|split; proj; assumption]. split; proj.
  - exact G1.
  - intros s0 I0. destruct (G2 s0 I0) as [N0 [rw [R0 P0]]]. split; [exact N0|]. exists rw. split; [|exact P0].
    rewrite H2. destruct (memb s0 done) eqn:M; [|exact R0]. exfalso. apply memb_In in M.
    destruct (H3 s0 M) as [rw' [R' C']]. rewrite (Hinc s0 I0 rw' R') in C'. discriminate.
  - intros rd. rewrite H1, H2. destruct (memb rd done); [discriminate|apply G3].
  - intros rd. rewrite H1, F2. unfold written in *. proj. rewrite F5. destruct (memb rd done); [discriminate|apply G4].
  - intros r' rd. rewrite Qn, H1. destruct (Nat.eqb_spec r' r) as [Er|Er].
    + subst r'. intros I. assert (Ir : In rd rest) by (destruct rest; [destruct I|exact I]).
      destruct (memb rd done) eqn:M.
      * exfalso. apply memb_In in M. specialize (G6 r). rewrite E in G6. exact (NoDup_app_disjoint _ _ _ G6 M Ir).
      * apply G5. rewrite E. apply in_or_app. right. exact Ir.
    + intros I. destruct (memb rd done) eqn:M; [|apply G5; exact I]. exfalso. apply memb_In in M.
      pose proof (G5 r' rd I) as A1. specialize (Rd rd M). congruence.
  - intros r'. rewrite Qn. destruct (Nat.eqb_spec r' r) as [Er|Er]; [|apply G6].
    specialize (G6 r). rewrite E in G6. apply NoDup_app_r in G6. destruct rest; [constructor|exact G6].
Qed.

Lemma pending_fill_other d j q rw : q <> d -> In q (pending rw) -> In q (pending (fill_row d j rw)).
Proof.
  intros N. unfold pending. induction rw as [|[q' [a|]] rw IH]; cbn; intros H; [exact H|apply IH; exact H|].
  destruct (Nat.eqb_spec q' d) as [E|E]; cbn.
  - destruct H as [H|H]; [congruence|exact H].
  - destruct H as [H|H]; [left; exact H|right; apply IH; exact H].
Qed.

Lemma good_step d j s s0 rest :
  Good d s (s0 :: rest) ->
  Good d (s_settle_src d j s s0) rest /\ s_wr (s_settle_src d j s s0) = s_wr s /\ s_srcs (s_settle_src d j s s0) = s_srcs s.
Proof.
  intros G. pose proof G as [G1 G2 G3 G4 G5 G6]. inversion G1 as [|? ? N0 ND]; subst.
  destruct (G2 s0 (or_introl eq_refl)) as [Nd [rw [R P]]]. unfold s_settle_src. rewrite R.
  set (rw' := fill_row d j rw). set (s' := su_rows s (nset s0 rw' (s_rows s))).
  assert (G' : Good d s' rest).
  { split; unfold s'; proj; auto.
    - intros s1 I1. destruct (G2 s1 (or_intror I1)) as [N1 [rw1 [R1 P1]]]. split; [exact N1|]. exists rw1. split; [|exact P1].
      rewrite nget_nset. destruct (Nat.eqb_spec s1 s0) as [E|E]; [subst s1; contradiction|exact R1].
    - intros rd. rewrite nget_nset. destruct (Nat.eqb_spec rd s0) as [E|E]; [|apply G3].
      intros _. subst rd. apply G3. rewrite R. reflexivity. }
  destruct (complete rw') eqn:C; [|split; [exact G'|split; reflexivity]].
  destruct (nget s0 (s_reader s')) as [r|] eqn:Er; [|split; [exact G'|split; reflexivity]].
  destruct (good_flush d s' r rest G') as [A [B B2]]; [|split; [exact A|split; [rewrite B|rewrite B2]; reflexivity]].
  intros s1 I1 rw1 R1. destruct (g_src _ _ _ G' s1 I1) as [_ [rw2 [R2 P2]]]. rewrite R1 in R2. injection R2 as <-.
  apply pending_incomplete with d. exact P2.
Qed.

Lemma settle_fold f d rc j : forall ss t s, SimG (Some (d, rc)) t s -> Good d s ss ->
  SimG (Some (d, rc)) (fold_left (res_src (S f) d j) ss t) (fold_left (s_settle_src d j) ss s) /\
  Good d (fold_left (s_settle_src d j) ss s) [] /\
  s_wr (fold_left (s_settle_src d j) ss s) = s_wr s /\ s_srcs (fold_left (s_settle_src d j) ss s) = s_srcs s.
Proof.
  induction ss as [|s0 ss IH]; intros t s Sm G; cbn [fold_left]; [auto|].
  destruct (good_step d j s s0 ss G) as [G' [W' Sr']].
  destruct (g_src _ _ _ G s0 (or_introl eq_refl)) as [Nd [rw [R P]]].
  assert (Hr : is_some (nget s0 (s_reader s)) = true) by (apply (g_rows _ _ _ G); rewrite R; reflexivity).
  destruct (g_req _ _ _ G s0 Hr) as [Sr [_ _]].
  assert (S' : SimG (Some (d, rc)) (res_src (S f) d j t s0) (s_settle_src d j s s0)).
  { apply src_sim with rw; auto. intros r Er rd Ird.
    assert (Hrd : is_some (nget rd (s_reader s)) = true) by (rewrite (g_reads _ _ _ G r rd Ird); reflexivity).
    destruct (g_req _ _ _ G rd Hrd) as [_ [Wd Nrd]]. auto. }
  destruct (IH _ _ S' G') as [A [B [C D]]]. split; [exact A|]. split; [exact B|]. split; [rewrite C, W'|rewrite D, Sr']; reflexivity.
Qed.

(* ---- a packet whose own slots are complete is settled: Tracer.resolve against the specification ---- *)
Lemma settle_sim f t s d rc :
  SimG (Some (d, rc)) t s -> has_nil rc = false ->
  written s d = false ->
  Good d (su_srcs s (ndel d (s_srcs s))) (lst (nget d (s_srcs s))) ->
  Sim (resolve (S (S f)) t d) (s_settle s d (join (slots rc))).
Proof.
  intros Sm HN Wd G. rewrite resolve_S. cbv zeta.
  assert (Rc : nget d (t_receives t) = Some rc) by (rewrite (sim_receives _ _ _ Sm), Nat.eqb_refl; reflexivity).
  rewrite Rc. cbn [lst]. rewrite HN. unfold s_settle. rewrite (sim_sources _ _ _ Sm).
  assert (Fin : forall t1 s1, SimG (Some (d, rc)) t1 s1 -> Good d s1 [] -> written s1 d = false ->
                 Sim (if t_crash t1 then t1 else
                      match nget d (t_reader t1) with
                      | Some r => let '(st2, rest) := flush_reads t1 r (lst (nget r (t_reads t1))) in
                                  upd_reads st2 (match rest with [] => ndel r (t_reads st2) | _ => nset r rest (t_reads st2) end)
                      | None => upd_receives t1 (ndel d (t_receives t1))
                      end) s1).
  { intros t1 s1 S1 G1 W1. rewrite (sim_crash _ _ _ S1), (sim_reader _ _ _ S1).
    assert (Rd : nget d (s_reader s1) = None).
    { destruct (nget d (s_reader s1)) eqn:E; [|reflexivity]. exfalso.
      assert (H : is_some (nget d (s_reader s1)) = true) by (rewrite E; reflexivity).
      destruct (g_req _ _ _ G1 d H) as [_ [_ N]]. apply N. reflexivity. }
    rewrite Rd.
    assert (Rw : nget d (s_rows s1) = None).
    { destruct (nget d (s_rows s1)) eqn:E; [|reflexivity]. exfalso.
      assert (H : is_some (nget d (s_rows s1)) = true) by (rewrite E; reflexivity).
      apply (g_rows _ _ _ G1) in H. rewrite Rd in H. discriminate. }
    destruct S1 as [S1 S2 S3 S4 S5 S6 S7 S8 S9]. split; proj; try assumption.
    intros p. rewrite nget_ndel. destruct (Nat.eqb_spec p d) as [E|E].
    - subst p. unfold std_receives. rewrite Rw, W1. reflexivity.
    - rewrite S8. destruct (Nat.eqb_spec p d); [contradiction|reflexivity]. }
  destruct (nget d (s_srcs s)) as [ss|] eqn:Es; cbn [lst] in G.
  - assert (S0 : SimG (Some (d, rc)) (upd_sources t (ndel d (s_srcs s))) (su_srcs s (ndel d (s_srcs s)))).
    { destruct Sm as [S1 S2 S3 S4 S5 S6 S7 S8 S9]. split; proj; auto. }
    destruct (settle_fold f d rc (join (slots rc)) ss _ _ S0 G) as [A [B [C D]]].
    apply Fin; [exact A|exact B|]. unfold written in *. rewrite C. proj. exact Wd.
  - apply Fin; [exact Sm| |exact Wd].
    destruct G as [G1 G2 G3 G4 G5 G6]. proj. split; proj; auto.
    + intros rd H. destruct (G4 rd H) as [A [B C]]. rewrite nget_ndel in A. destruct (Nat.eqb rd d) eqn:E.
      * apply Nat.eqb_eq in E. congruence.
      * auto.
Qed.
