(* C02 end to end for one node: the tracer model (Node/Tracer.v) refines the specification (Node/Spec.v) on every
   disciplined sequence of calls.  Part 1: the simulation relation and the simulation of the two loops of
   Tracer.resolve (the reader branch and the source loop). *)
From Coq Require Import List Arith NArith ZArith Bool Lia.
From Uf Require Import Packet.Writer Node.Tracer Node.TracerProofs Node.Spec.
Import ListNotations.

Ltac proj := cbn [t_sources t_targets t_receives t_reads t_writes t_reader t_pay t_out t_crash
                  upd_sources upd_targets upd_receives upd_reads upd_writes upd_reader upd_pay upd_out set_crash
                  s_reads s_reader s_rows s_srcs s_writes s_lnk s_wr s_used s_pay s_out
                  su_reads su_reader su_rows su_srcs su_writes su_lnk su_wr su_used su_pay su_out] in *.

Definition written (s : sstate) (p : nat) : bool := memb p (s_wr s).

(* the slots the tracer holds for packet [p], as the specification sees them *)
Definition std_receives (s : sstate) (p : nat) : option (list (option pkt)) :=
  match nget p (s_rows s) with
  | Some rw => Some (map snd rw)
  | None => if written s p then Some [None] else None
  end.
Definition std_targets (s : sstate) (p : nat) : option (list nat) :=
  match nget p (s_rows s) with
  | Some rw => match pending rw with [] => None | l => Some l end
  | None => None
  end.

(* [ex]: the derived packet that is being settled right now, with its own (complete) slots *)
Record SimG (ex : option (nat * list (option pkt))) (t : tstate) (s : sstate) : Prop := {
  sim_reads : t_reads t = s_reads s;
  sim_reader : t_reader t = s_reader s;
  sim_writes : t_writes t = s_writes s;
  sim_pay : t_pay t = s_pay s;
  sim_out : t_out t = s_out s;
  sim_crash : t_crash t = false;
  sim_sources : t_sources t = s_srcs s;
  sim_receives : forall p, nget p (t_receives t) =
      match ex with
      | Some (d, rc) => if Nat.eqb p d then Some rc else std_receives s p
      | None => std_receives s p
      end;
  sim_targets : forall p, nget p (t_targets t) = std_targets s p
}.
Definition Sim := SimG None.

Definition not_ex (ex : option (nat * list (option pkt))) (p : nat) : Prop :=
  match ex with Some (d, _) => p <> d | None => True end.

Lemma sim_receives_std ex t s p : SimG ex t s -> not_ex ex p -> nget p (t_receives t) = std_receives s p.
Proof.
  intros S N. rewrite (sim_receives _ _ _ S). destruct ex as [[d rc]|]; [|reflexivity].
  cbn in N. destruct (Nat.eqb_spec p d); [contradiction|reflexivity].
Qed.

Lemma fill_row_mark q j d : fill_row q j d = mark q j d.
Proof. induction d as [|[q' [a|]] d IH]; cbn; [reflexivity|rewrite IH; reflexivity|]. destruct (Nat.eqb q' q); [reflexivity|rewrite IH; reflexivity]. Qed.

Lemma complete_pending rw : complete rw = true -> pending rw = [].
Proof.
  unfold complete, pending, has_nil. induction rw as [|[q [a|]] rw IH]; cbn; intros H; [reflexivity|apply IH; exact H|discriminate].
Qed.

(* ---- the reader branch ---- *)
Lemma flush_sim ex r : forall l t s, SimG ex t s ->
  (forall rd, In rd l -> written s rd = false /\ not_ex ex rd) ->
  exists t' s' rest, flush_reads t r l = (t', rest) /\ s_flush s r l = (s', rest) /\ SimG ex t' s' /\ s_wr s' = s_wr s.
Proof.
  induction l as [|rd l IH]; intros t s S H; cbn [flush_reads s_flush].
  - exists t, s, []. auto.
  - destruct (H rd (or_introl eq_refl)) as [Wr Nx].
    rewrite (sim_receives_std _ _ _ _ S Nx). unfold std_receives. rewrite Wr.
    destruct (nget rd (s_rows s)) as [rw|] eqn:R; [|exists t, s, (rd :: l); auto].
    unfold complete. destruct (has_nil (map snd rw)) eqn:HN; cbn [negb]; [exists t, s, (rd :: l); auto|].
    match goal with |- exists _ _ _, flush_reads ?t3 _ _ = _ /\ s_flush ?s3 _ _ = _ /\ _ =>
      assert (S3 : SimG ex t3 s3); [|assert (H3 : forall rd, In rd l -> written s3 rd = false /\ not_ex ex rd);
        [|destruct (IH t3 s3 S3 H3) as [t' [s' [rest [A [B [C D]]]]]]; exists t', s', rest;
          split; [exact A|split; [exact B|split; [exact C|rewrite D; reflexivity]]]]] end.
    + destruct S as [S1 S2 S3 S4 S5 S6 S7 S8 S9]. split; proj; try assumption.
      * rewrite S2. reflexivity.
      * rewrite S5. reflexivity.
      * intros p. rewrite nget_ndel. unfold std_receives, written in *. proj. rewrite nget_ndel.
        destruct (Nat.eqb_spec p rd) as [E|E].
        -- subst p. destruct ex as [[d rc]|]; [cbn in Nx; destruct (Nat.eqb_spec rd d); [contradiction|]|]; rewrite Wr; reflexivity.
        -- apply S8.
      * intros p. unfold std_targets in *. proj. rewrite nget_ndel. destruct (Nat.eqb_spec p rd) as [E|E]; [|apply S9].
        subst p. rewrite S9, R. rewrite complete_pending; [reflexivity|]. unfold complete. rewrite HN. reflexivity.
    + intros rd' I'. destruct (H rd' (or_intror I')) as [W' N']. split; [exact W'|exact N'].
Qed.

(* ---- Tracer.resolve, one level at a time ---- *)
Definition res_src (f : nat) (p : nat) (j : pkt) (st : tstate) (src : nat) : tstate :=
  if t_crash st then st else
  match fill_target (lst (nget src (t_targets st))) (lst (nget src (t_receives st))) p j with
  | None => set_crash st
  | Some (ts, rc') =>
      let st' := upd_receives st (match nget src (t_receives st) with
                                  | Some _ => nset src rc' (t_receives st)
                                  | None => t_receives st end) in
      let st'' := upd_targets st' (match ts with [] => ndel src (t_targets st') | _ => nset src ts (t_targets st') end) in
      resolve f st'' src
  end.

Lemma resolve_S f st p :
  resolve (S f) st p =
  let rc := lst (nget p (t_receives st)) in
  if has_nil rc then st else
  let st1 := match nget p (t_sources st) with
             | Some srcs => fold_left (res_src f p (join (slots rc))) srcs (upd_sources st (ndel p (t_sources st)))
             | None => st
             end in
  if t_crash st1 then st1 else
  match nget p (t_reader st1) with
  | Some r =>
      let '(st2, rest) := flush_reads st1 r (lst (nget r (t_reads st1))) in
      upd_reads st2 (match rest with [] => ndel r (t_reads st2) | _ => nset r rest (t_reads st2) end)
  | None => upd_receives st1 (ndel p (t_receives st1))
  end.
Proof. reflexivity. Qed.

(* resolve at a request whose row is known *)
Lemma resolve_request ex f t s s0 rw :
  SimG ex t s -> not_ex ex s0 ->
  nget s0 (s_rows s) = Some rw -> nget s0 (s_srcs s) = None ->
  (forall r, nget s0 (s_reader s) = Some r ->
             forall rd, In rd (lst (nget r (s_reads s))) -> written s rd = false /\ not_ex ex rd) ->
  is_some (nget s0 (s_reader s)) = true ->
  SimG ex (resolve (S f) t s0)
          (if complete rw then match nget s0 (s_reader s) with Some r => s_flush_reader s r | None => s end else s).
Proof.
  intros S Nx R Sr Hq Hr. rewrite resolve_S. cbv zeta.
  rewrite (sim_receives_std _ _ _ _ S Nx). unfold std_receives. rewrite R. cbn [lst].
  unfold complete. destruct (has_nil (map snd rw)); cbn [negb]; [exact S|].
  rewrite (sim_sources _ _ _ S), Sr, (sim_crash _ _ _ S), (sim_reader _ _ _ S).
  destruct (nget s0 (s_reader s)) as [r|]; [|discriminate].
  unfold s_flush_reader. rewrite (sim_reads _ _ _ S).
  destruct (flush_sim ex r (lst (nget r (s_reads s))) t s S (Hq r eq_refl)) as [t' [s' [rest [A [B [C D]]]]]].
  rewrite A, B. destruct C as [C1 C2 C3 C4 C5 C6 C7 C8 C9]. split; proj; try assumption.
  rewrite C1. reflexivity.
Qed.

(* one round of the source loop *)
Lemma src_sim f d rc j t s s0 rw :
  SimG (Some (d, rc)) t s -> s0 <> d ->
  nget s0 (s_rows s) = Some rw -> nget s0 (s_srcs s) = None ->
  (forall r, nget s0 (s_reader s) = Some r ->
             forall rd, In rd (lst (nget r (s_reads s))) -> written s rd = false /\ rd <> d) ->
  is_some (nget s0 (s_reader s)) = true ->
  SimG (Some (d, rc)) (res_src (S f) d j t s0) (s_settle_src d j s s0).
Proof.
  intros S Nd R Sr Hq Hr. unfold res_src, s_settle_src. rewrite (sim_crash _ _ _ S), R.
  assert (Rc : nget s0 (t_receives t) = Some (map snd rw)).
  { rewrite (sim_receives_std _ _ _ _ S); [|exact Nd]. unfold std_receives. rewrite R. reflexivity. }
  assert (Tg : lst (nget s0 (t_targets t)) = pending rw).
  { rewrite (sim_targets _ _ _ S). unfold std_targets. rewrite R. destruct (pending rw); reflexivity. }
  rewrite Rc, Tg. cbn [lst]. rewrite fill_target_aligned, <- fill_row_mark.
  set (rw' := fill_row d j rw).
  match goal with |- SimG _ (resolve _ ?t2 _) _ => set (t' := t2) end.
  set (s' := su_rows s (nset s0 rw' (s_rows s))).
  assert (S' : SimG (Some (d, rc)) t' s').
  { destruct S as [S1 S2 S3 S4 S5 S6 S7 S8 S9]. unfold t', s'. split; proj; try assumption.
    - intros p. rewrite nget_nset. unfold std_receives, written. proj. rewrite nget_nset.
      destruct (Nat.eqb_spec p d) as [E|E].
      + subst p. destruct (Nat.eqb_spec d s0) as [E2|E2]; [congruence|]. rewrite S8, Nat.eqb_refl. reflexivity.
      + destruct (Nat.eqb_spec p s0) as [E2|E2]; [reflexivity|].
        rewrite S8. destruct (Nat.eqb_spec p d); [contradiction|]. reflexivity.
    - intros p. unfold std_targets. proj. rewrite nget_nset.
      destruct (Nat.eqb_spec p s0) as [E2|E2].
      + subst p. destruct (pending rw'); [rewrite nget_ndel|rewrite nget_nset]; rewrite Nat.eqb_refl; reflexivity.
      + destruct (pending rw'); [rewrite nget_ndel|rewrite nget_nset]; destruct (Nat.eqb_spec p s0); try contradiction; rewrite S9; reflexivity. }
  assert (R' : nget s0 (s_rows s') = Some rw') by (unfold s'; proj; rewrite nget_nset, Nat.eqb_refl; reflexivity).
  pose proof (resolve_request (Some (d, rc)) f t' s' s0 rw' S' Nd R' Sr) as Q.
  unfold s' in Q at 1 2 3 4. proj. apply Q.
  - intros r Er rd Ird. apply Hq with r; assumption.
  - exact Hr.
Qed.

(* ---- what the specification's reader branch does, pointwise ---- *)
Lemma s_flush_spec r : forall l s s' rest, s_flush s r l = (s', rest) ->
  exists done, l = done ++ rest /\
    (forall k, nget k (s_reader s') = if memb k done then None else nget k (s_reader s)) /\
    (forall k, nget k (s_rows s') = if memb k done then None else nget k (s_rows s)) /\
    (forall k, In k done -> exists rw, nget k (s_rows s) = Some rw /\ complete rw = true) /\
    s_reads s' = s_reads s /\ s_srcs s' = s_srcs s /\ s_writes s' = s_writes s /\ s_lnk s' = s_lnk s /\
    s_wr s' = s_wr s /\ s_used s' = s_used s /\ s_pay s' = s_pay s.
Proof.
  induction l as [|rd l IH]; intros s s' rest H; cbn [s_flush] in H.
  - injection H as <- <-. exists []. cbn. repeat split; auto; intros k []. 
  - destruct (nget rd (s_rows s)) as [rw|] eqn:R.
    2:{ injection H as <- <-. exists []. cbn. repeat split; auto; intros k []. }
    destruct (complete rw) eqn:C.
    2:{ injection H as <- <-. exists []. cbn. repeat split; auto; intros k []. }
    apply IH in H. destruct H as [done [E [H1 [H2 [H3 F]]]]]. proj.
    exists (rd :: done). split; [cbn; rewrite E; reflexivity|]. split; [|split; [|split; [|exact F]]].
    + intros k. rewrite H1, nget_ndel. cbn [memb existsb]. fold (memb k done). destruct (memb k done); [rewrite orb_true_r; reflexivity|].
      rewrite orb_false_r. reflexivity.
    + intros k. rewrite H2, nget_ndel. cbn [memb existsb]. fold (memb k done). destruct (memb k done); [rewrite orb_true_r; reflexivity|].
      rewrite orb_false_r. reflexivity.
    + intros k [Ek|Ik]; [subst k; exists rw; auto|].
      destruct (H3 k Ik) as [rw' [R' C']]. rewrite nget_ndel in R'. destruct (Nat.eqb k rd); [discriminate|]. exists rw'. auto.
Qed.

Lemma memb_In x l : memb x l = true <-> In x l.
Proof.
  unfold memb. rewrite existsb_exists. split.
  - intros [y [I E]]. apply Nat.eqb_eq in E. subst. exact I.
  - intros I. exists x. split; [exact I|apply Nat.eqb_refl].
Qed.
Lemma memb_nIn x l : memb x l = false <-> ~ In x l.
Proof. rewrite <- memb_In. destruct (memb x l); split; congruence. Qed.

(* ---- the facts about the specification state that the source loop relies on ---- *)
Record Good (d : nat) (s : sstate) (ss : list nat) : Prop := {
  g_nodup : NoDup ss;
  g_src : forall s0, In s0 ss -> s0 <> d /\ exists rw, nget s0 (s_rows s) = Some rw /\ In d (pending rw);
  g_rows : forall rd, is_some (nget rd (s_rows s)) = true -> is_some (nget rd (s_reader s)) = true;
  g_req : forall rd, is_some (nget rd (s_reader s)) = true -> nget rd (s_srcs s) = None /\ written s rd = false /\ rd <> d;
  g_reads : forall r rd, In rd (lst (nget r (s_reads s))) -> nget rd (s_reader s) = Some r;
  g_reads_nodup : forall r, NoDup (lst (nget r (s_reads s)))
}.

Lemma pending_incomplete d rw : In d (pending rw) -> complete rw = false.
Proof.
  unfold pending, complete, has_nil. induction rw as [|[q [a|]] rw IH]; cbn; intros H; [destruct H|apply IH; exact H|reflexivity].
Qed.

Lemma NoDup_app_r {A} (a b : list A) : NoDup (a ++ b) -> NoDup b.
Proof. induction a; cbn; intros H; [exact H|]. inversion H; auto. Qed.
Lemma NoDup_app_disjoint {A} (a b : list A) x : NoDup (a ++ b) -> In x a -> In x b -> False.
Proof.
  induction a as [|y a IH]; cbn; intros ND Ia Ib; [destruct Ia|]. inversion ND as [|? ? Ny ND']; subst.
  destruct Ia as [Ia|Ia]; [subst y; apply Ny, in_or_app; right; exact Ib|exact (IH ND' Ia Ib)].
Qed.

Lemma good_flush d s r ss :
  Good d s ss -> (forall s0, In s0 ss -> forall rw, nget s0 (s_rows s) = Some rw -> complete rw = false) ->
  Good d (s_flush_reader s r) ss /\ s_wr (s_flush_reader s r) = s_wr s /\ s_srcs (s_flush_reader s r) = s_srcs s.
Proof.
  intros G Hinc. unfold s_flush_reader. destruct (s_flush s r (lst (nget r (s_reads s)))) as [s1 rest] eqn:F.
  destruct (s_flush_spec _ _ _ _ _ F) as [done [E [H1 [H2 [H3 [F1 [F2 [F3 [F4 [F5 [F6 F7]]]]]]]]]]].
  destruct G as [G1 G2 G3 G4 G5 G6].
  assert (Rd : forall k, In k done -> nget k (s_reader s) = Some r).
  { intros k Ik. apply G5. rewrite E. apply in_or_app. left. exact Ik. }
  assert (Qn : forall r', nget r' (match rest with [] => ndel r (s_reads s1) | _ => nset r rest (s_reads s1) end) =
                          if Nat.eqb r' r then (match rest with [] => None | _ => Some rest end) else nget r' (s_reads s)).
  { intros r'. rewrite F1. destruct rest; [rewrite nget_ndel|rewrite nget_nset]; destruct (Nat.eqb r' r); reflexivity. }
  split; [|split; proj; assumption]. split; proj.
  - exact G1.
  - intros s0 I0. destruct (G2 s0 I0) as [N0 [rw [R0 P0]]]. split; [exact N0|]. exists rw. split; [|exact P0].
    rewrite H2. destruct (memb s0 done) eqn:M; [|exact R0]. exfalso. apply memb_In in M.
    destruct (H3 s0 M) as [rw' [R' C']]. rewrite (Hinc s0 I0 rw' R') in C'. discriminate.
  - intros rd. rewrite H1, H2. destruct (memb rd done); [discriminate|apply G3].
  - intros rd. rewrite H1, F2. unfold written in *. proj. rewrite F5. destruct (memb rd done); [discriminate|apply G4].
  - intros r' rd. rewrite Qn, H1. destruct (Nat.eqb_spec r' r) as [Er|Er].
    + subst r'. intros I. assert (Ir : In rd rest) by (destruct rest; [destruct I|exact I]).
      destruct (memb rd done) eqn:M.
      * exfalso. apply memb_In in M. specialize (G6 r). rewrite E in G6. exact (NoDup_app_disjoint _ _ _ G6 M Ir).
      * apply G5. rewrite E. apply in_or_app. right. exact Ir.
    + intros I. destruct (memb rd done) eqn:M; [|apply G5; exact I]. exfalso. apply memb_In in M.
      pose proof (G5 r' rd I) as A1. specialize (Rd rd M). congruence.
  - intros r'. rewrite Qn. destruct (Nat.eqb_spec r' r) as [Er|Er]; [|apply G6].
    specialize (G6 r). rewrite E in G6. apply NoDup_app_r in G6. destruct rest; [constructor|exact G6].
Qed.

Lemma pending_fill_other d j q rw : q <> d -> In q (pending rw) -> In q (pending (fill_row d j rw)).
Proof.
  intros N. unfold pending. induction rw as [|[q' [a|]] rw IH]; cbn; intros H; [exact H|apply IH; exact H|].
  destruct (Nat.eqb_spec q' d) as [E|E]; cbn.
  - destruct H as [H|H]; [congruence|exact H].
  - destruct H as [H|H]; [left; exact H|right; apply IH; exact H].
Qed.

Lemma good_step d j s s0 rest :
  Good d s (s0 :: rest) ->
  Good d (s_settle_src d j s s0) rest /\ s_wr (s_settle_src d j s s0) = s_wr s /\ s_srcs (s_settle_src d j s s0) = s_srcs s.
Proof.
  intros G. pose proof G as [G1 G2 G3 G4 G5 G6]. inversion G1 as [|? ? N0 ND]; subst.
  destruct (G2 s0 (or_introl eq_refl)) as [Nd [rw [R P]]]. unfold s_settle_src. rewrite R.
  set (rw' := fill_row d j rw). set (s' := su_rows s (nset s0 rw' (s_rows s))).
  assert (G' : Good d s' rest).
  { split; unfold s'; proj; auto.
    - intros s1 I1. destruct (G2 s1 (or_intror I1)) as [N1 [rw1 [R1 P1]]]. split; [exact N1|]. exists rw1. split; [|exact P1].
      rewrite nget_nset. destruct (Nat.eqb_spec s1 s0) as [E|E]; [subst s1; contradiction|exact R1].
    - intros rd. rewrite nget_nset. destruct (Nat.eqb_spec rd s0) as [E|E]; [|apply G3].
      intros _. subst rd. apply G3. rewrite R. reflexivity. }
  destruct (complete rw') eqn:C; [|split; [exact G'|split; reflexivity]].
  destruct (nget s0 (s_reader s')) as [r|] eqn:Er; [|split; [exact G'|split; reflexivity]].
  destruct (good_flush d s' r rest G') as [A [B B2]]; [|split; [exact A|split; [rewrite B|rewrite B2]; reflexivity]].
  intros s1 I1 rw1 R1. destruct (g_src _ _ _ G' s1 I1) as [_ [rw2 [R2 P2]]]. rewrite R1 in R2. injection R2 as <-.
  apply pending_incomplete with d. exact P2.
Qed.

Lemma settle_fold f d rc j : forall ss t s, SimG (Some (d, rc)) t s -> Good d s ss ->
  SimG (Some (d, rc)) (fold_left (res_src (S f) d j) ss t) (fold_left (s_settle_src d j) ss s) /\
  Good d (fold_left (s_settle_src d j) ss s) [] /\
  s_wr (fold_left (s_settle_src d j) ss s) = s_wr s /\ s_srcs (fold_left (s_settle_src d j) ss s) = s_srcs s.
Proof.
  induction ss as [|s0 ss IH]; intros t s Sm G; cbn [fold_left]; [auto|].
  destruct (good_step d j s s0 ss G) as [G' [W' Sr']].
  destruct (g_src _ _ _ G s0 (or_introl eq_refl)) as [Nd [rw [R P]]].
  assert (Hr : is_some (nget s0 (s_reader s)) = true) by (apply (g_rows _ _ _ G); rewrite R; reflexivity).
  destruct (g_req _ _ _ G s0 Hr) as [Sr [_ _]].
  assert (S' : SimG (Some (d, rc)) (res_src (S f) d j t s0) (s_settle_src d j s s0)).
  { apply src_sim with rw; auto. intros r Er rd Ird.
    assert (Hrd : is_some (nget rd (s_reader s)) = true) by (rewrite (g_reads _ _ _ G r rd Ird); reflexivity).
    destruct (g_req _ _ _ G rd Hrd) as [_ [Wd Nrd]]. auto. }
  destruct (IH _ _ S' G') as [A [B [C D]]]. split; [exact A|]. split; [exact B|]. split; [rewrite C, W'|rewrite D, Sr']; reflexivity.
Qed.

(* ---- a packet whose own slots are complete is settled: Tracer.resolve against the specification ---- *)
Lemma settle_sim f t s d rc :
  SimG (Some (d, rc)) t s -> has_nil rc = false ->
  written s d = false ->
  Good d (su_srcs s (ndel d (s_srcs s))) (lst (nget d (s_srcs s))) ->
  Sim (resolve (S (S f)) t d) (s_settle s d (join (slots rc))).
Proof.
  intros Sm HN Wd G. rewrite resolve_S. cbv zeta.
  assert (Rc : nget d (t_receives t) = Some rc) by (rewrite (sim_receives _ _ _ Sm), Nat.eqb_refl; reflexivity).
  rewrite Rc. cbn [lst]. rewrite HN. unfold s_settle. rewrite (sim_sources _ _ _ Sm).
  assert (Fin : forall t1 s1, SimG (Some (d, rc)) t1 s1 -> Good d s1 [] -> written s1 d = false ->
                 Sim (if t_crash t1 then t1 else
                      match nget d (t_reader t1) with
                      | Some r => let '(st2, rest) := flush_reads t1 r (lst (nget r (t_reads t1))) in
                                  upd_reads st2 (match rest with [] => ndel r (t_reads st2) | _ => nset r rest (t_reads st2) end)
                      | None => upd_receives t1 (ndel d (t_receives t1))
                      end) s1).
  { intros t1 s1 S1 G1 W1. rewrite (sim_crash _ _ _ S1), (sim_reader _ _ _ S1).
    assert (Rd : nget d (s_reader s1) = None).
    { destruct (nget d (s_reader s1)) eqn:E; [|reflexivity]. exfalso.
      assert (H : is_some (nget d (s_reader s1)) = true) by (rewrite E; reflexivity).
      destruct (g_req _ _ _ G1 d H) as [_ [_ N]]. apply N. reflexivity. }
    rewrite Rd.
    assert (Rw : nget d (s_rows s1) = None).
    { destruct (nget d (s_rows s1)) eqn:E; [|reflexivity]. exfalso.
      assert (H : is_some (nget d (s_rows s1)) = true) by (rewrite E; reflexivity).
      apply (g_rows _ _ _ G1) in H. rewrite Rd in H. discriminate. }
    destruct S1 as [S1 S2 S3 S4 S5 S6 S7 S8 S9]. split; proj; try assumption.
    intros p. rewrite nget_ndel. destruct (Nat.eqb_spec p d) as [E|E].
    - subst p. unfold std_receives. rewrite Rw, W1. reflexivity.
    - rewrite S8. destruct (Nat.eqb_spec p d); [contradiction|reflexivity]. }
  destruct (nget d (s_srcs s)) as [ss|] eqn:Es; cbn [lst] in G.
  - assert (S0 : SimG (Some (d, rc)) (upd_sources t (ndel d (s_srcs s))) (su_srcs s (ndel d (s_srcs s)))).
    { destruct Sm as [S1 S2 S3 S4 S5 S6 S7 S8 S9]. split; proj; auto. }
    destruct (settle_fold f d rc (join (slots rc)) ss _ _ S0 G) as [A [B [C D]]].
    apply Fin; [exact A|exact B|]. unfold written in *. rewrite C. proj. exact Wd.
  - apply Fin; [exact Sm| |exact Wd].
    destruct G as [G1 G2 G3 G4 G5 G6]. proj. split; proj; auto.
    + intros rd H. destruct (G4 rd H) as [A [B C]]. rewrite nget_ndel in A. destruct (Nat.eqb rd d) eqn:E.
      * apply Nat.eqb_eq in E. congruence.
      * auto.
Qed.

(* ================= Part 2: the invariant of the specification under the node discipline ================= *)
Record WF (s : sstate) : Prop := {
  w_req : forall rd, is_some (nget rd (s_reader s)) = true ->
          nget rd (s_srcs s) = None /\ written s rd = false /\ memb rd (s_lnk s) = false /\ memb rd (s_used s) = true;
  w_src : forall d ss s0, nget d (s_srcs s) = Some ss -> In s0 ss -> exists rw, nget s0 (s_rows s) = Some rw /\ In d (pending rw);
  w_src_nodup : forall d ss, nget d (s_srcs s) = Some ss -> NoDup ss;
  w_src_used : forall d, is_some (nget d (s_srcs s)) = true -> memb d (s_used s) = true;
  w_rows : forall rd, is_some (nget rd (s_rows s)) = true -> is_some (nget rd (s_reader s)) = true;
  w_lnk : forall d, memb d (s_lnk s) = true -> written s d = false /\ memb d (s_used s) = true;
  w_wr : forall d, written s d = true -> memb d (s_used s) = true;
  w_writes : forall w d, In d (lst (nget w (s_writes s))) -> written s d = true;
  w_writes_nodup : forall w, NoDup (lst (nget w (s_writes s)));
  w_writes_disj : forall w1 w2 d, w1 <> w2 -> In d (lst (nget w1 (s_writes s))) -> ~ In d (lst (nget w2 (s_writes s)));
  w_reads : forall r rd, In rd (lst (nget r (s_reads s))) -> nget rd (s_reader s) = Some r;
  w_reads_nodup : forall r, NoDup (lst (nget r (s_reads s)))
}.

Lemma WF_init : WF s_init.
Proof.
  split; cbn; try discriminate; try (intros; contradiction); try constructor.
Qed.

(* the reader branch keeps the invariant *)
Lemma wf_flush s r : WF s -> WF (s_flush_reader s r).
Proof.
  intros W. unfold s_flush_reader. destruct (s_flush s r (lst (nget r (s_reads s)))) as [s1 rest] eqn:F.
  destruct (s_flush_spec _ _ _ _ _ F) as [done [E [H1 [H2 [H3 [F1 [F2 [F3 [F4 [F5 [F6 F7]]]]]]]]]]].
  destruct W as [W1 W2 W3 W4 W5 W6 W7 W8 W9 W10 W11 W12].
  assert (Rd : forall k, In k done -> nget k (s_reader s) = Some r).
  { intros k Ik. apply W11. rewrite E. apply in_or_app. left. exact Ik. }
  assert (Qn : forall r', nget r' (match rest with [] => ndel r (s_reads s1) | _ => nset r rest (s_reads s1) end) =
                          if Nat.eqb r' r then (match rest with [] => None | _ => Some rest end) else nget r' (s_reads s)).
  { intros r'. rewrite F1. destruct rest; [rewrite nget_ndel|rewrite nget_nset]; destruct (Nat.eqb r' r); reflexivity. }
  split; unfold written in *; proj; try rewrite F2; try rewrite F3; try rewrite F4; try rewrite F5; try rewrite F6; auto.
  - intros rd. rewrite H1. destruct (memb rd done); [discriminate|apply W1].
  - intros d ss s0 Es I0. destruct (W2 d ss s0 Es I0) as [rw [R P]]. exists rw. split; [|exact P].
    rewrite H2. destruct (memb s0 done) eqn:M; [|exact R]. exfalso. apply memb_In in M.
    destruct (H3 s0 M) as [rw' [R' C']]. rewrite R in R'. injection R' as <-. rewrite (pending_incomplete d rw P) in C'. discriminate.
  - intros rd. rewrite H1, H2. destruct (memb rd done); [discriminate|apply W5].
  - intros r' rd. rewrite Qn, H1. destruct (Nat.eqb_spec r' r) as [Er|Er].
    + subst r'. intros I. assert (Ir : In rd rest) by (destruct rest; [destruct I|exact I]).
      destruct (memb rd done) eqn:M.
      * exfalso. apply memb_In in M. specialize (W12 r). rewrite E in W12. exact (NoDup_app_disjoint _ _ _ W12 M Ir).
      * apply W11. rewrite E. apply in_or_app. right. exact Ir.
    + intros I. destruct (memb rd done) eqn:M; [|apply W11; exact I]. exfalso. apply memb_In in M.
      pose proof (W11 r' rd I) as A1. specialize (Rd rd M). congruence.
  - intros r'. rewrite Qn. destruct (Nat.eqb_spec r' r) as [Er|Er]; [|apply W12].
    specialize (W12 r). rewrite E in W12. apply NoDup_app_r in W12. destruct rest; [constructor|exact W12].
Qed.

(* a row gets the answer of [d], which has no source list any more *)
Lemma wf_fill s d j s0 rw :
  WF s -> nget d (s_srcs s) = None -> nget s0 (s_rows s) = Some rw ->
  WF (su_rows s (nset s0 (fill_row d j rw) (s_rows s))).
Proof.
  intros W Nd R. destruct W as [W1 W2 W3 W4 W5 W6 W7 W8 W9 W10 W11 W12]. split; unfold written in *; proj; auto.
  - intros d' ss s1 Es I1. destruct (W2 d' ss s1 Es I1) as [rw1 [R1 P1]]. rewrite nget_nset.
    destruct (Nat.eqb_spec s1 s0) as [E|E]; [|exists rw1; auto].
    subst s1. rewrite R in R1. injection R1 as <-. exists (fill_row d j rw). split; [reflexivity|].
    apply pending_fill_other; [|exact P1]. intros E. subst d'. congruence.
  - intros rd. rewrite nget_nset. destruct (Nat.eqb_spec rd s0) as [E|E]; [|apply W5].
    intros _. subst rd. apply W5. rewrite R. reflexivity.
Qed.

Lemma wf_settle_src s d j s0 : WF s -> nget d (s_srcs s) = None -> WF (s_settle_src d j s s0) /\ s_srcs (s_settle_src d j s s0) = s_srcs s.
Proof.
  intros W Nd. unfold s_settle_src. destruct (nget s0 (s_rows s)) as [rw|] eqn:R; [|auto].
  pose proof (wf_fill s d j s0 rw W Nd R) as W'.
  destruct (complete (fill_row d j rw)); [|auto]. proj.
  destruct (nget s0 (s_reader s)) as [r|]; [|auto]. split; [apply wf_flush; exact W'|].
  unfold s_flush_reader. destruct (s_flush _ r _) as [s1 rest] eqn:F.
  destruct (s_flush_spec _ _ _ _ _ F) as [done [E [H1 [H2 [H3 [F1 [F2 F']]]]]]]. proj. exact F2.
Qed.

Lemma wf_settle_fold d j : forall ss s, WF s -> nget d (s_srcs s) = None -> WF (fold_left (s_settle_src d j) ss s).
Proof.
  induction ss as [|s0 ss IH]; intros s W Nd; cbn [fold_left]; [exact W|].
  destruct (wf_settle_src s d j s0 W Nd) as [W' E]. apply IH; [exact W'|rewrite E; exact Nd].
Qed.

Lemma wf_del_srcs s d : WF s -> WF (su_srcs s (ndel d (s_srcs s))).
Proof.
  intros W. destruct W as [W1 W2 W3 W4 W5 W6 W7 W8 W9 W10 W11 W12]. split; unfold written in *; proj; auto.
  - intros rd H. destruct (W1 rd H) as [A B]. split; [|exact B]. rewrite nget_ndel. destruct (Nat.eqb rd d); [reflexivity|exact A].
  - intros d' ss s0. rewrite nget_ndel. destruct (Nat.eqb d' d); [discriminate|apply W2].
  - intros d' ss. rewrite nget_ndel. destruct (Nat.eqb d' d); [discriminate|apply W3].
  - intros d'. rewrite nget_ndel. destruct (Nat.eqb d' d); [discriminate|apply W4].
Qed.

Lemma wf_settle s d j : WF s -> WF (s_settle s d j).
Proof.
  intros W. unfold s_settle. destruct (nget d (s_srcs s)) as [ss|]; [|exact W].
  apply wf_settle_fold; [apply wf_del_srcs; exact W|]. proj. rewrite nget_ndel, Nat.eqb_refl. reflexivity.
Qed.

(* the invariant gives the source loop what it relies on *)
Lemma wf_good s d : WF s -> nget d (s_reader s) = None ->
  Good d (su_srcs s (ndel d (s_srcs s))) (lst (nget d (s_srcs s))).
Proof.
  intros W Rd. destruct W as [W1 W2 W3 W4 W5 W6 W7 W8 W9 W10 W11 W12]. split; unfold written in *; proj; auto.
  - destruct (nget d (s_srcs s)) as [ss|] eqn:E; cbn [lst]; [apply (W3 d ss E)|constructor].
  - intros s0 I0. destruct (nget d (s_srcs s)) as [ss|] eqn:E; cbn [lst] in I0; [|destruct I0].
    destruct (W2 d ss s0 E I0) as [rw [R P]]. split; [|exists rw; auto].
    intros E0. subst s0. assert (H : is_some (nget d (s_reader s)) = true) by (apply W5; rewrite R; reflexivity).
    rewrite Rd in H. discriminate.
  - intros rd H. destruct (W1 rd H) as [A [B _]]. split; [|split; [exact B|]].
    + rewrite nget_ndel. destruct (Nat.eqb rd d); [reflexivity|exact A].
    + intros E. subst rd. rewrite Rd in H. discriminate.
Qed.

(* ---- every allowed call keeps the invariant ---- *)
Lemma memb_cons x y l : memb x (y :: l) = Nat.eqb x y || memb x l.
Proof. reflexivity. Qed.
Lemma memb_filter_ne x p l : memb x (filter (fun y => negb (Nat.eqb y p)) l) = negb (Nat.eqb x p) && memb x l.
Proof.
  induction l as [|y l IH]; cbn [filter memb existsb]; [rewrite andb_false_r; reflexivity|].
  destruct (Nat.eqb_spec y p) as [E|E]; cbn [negb].
  - subst y. fold (memb x l). fold (memb x (filter (fun y => negb (Nat.eqb y p)) l)). rewrite IH.
    destruct (Nat.eqb_spec x p); cbn; [reflexivity|]. reflexivity.
  - cbn [existsb]. fold (memb x l). fold (memb x (filter (fun y => negb (Nat.eqb y p)) l)). rewrite IH.
    destruct (Nat.eqb_spec x y) as [E2|E2]; cbn; [|reflexivity]. subst x. destruct (Nat.eqb_spec y p); [contradiction|reflexivity].
Qed.
Lemma is_some_true {A} (o : option A) : is_some o = true <-> exists x, o = Some x.
Proof. destruct o; cbn; split; intros H; try discriminate; eauto. destruct H; discriminate. Qed.
Lemma pending_app a b : pending (a ++ b) = pending a ++ pending b.
Proof. unfold pending. rewrite filter_app, map_app. reflexivity. Qed.

Lemma NoDup_snoc {A} (l : list A) x : NoDup l -> ~ In x l -> NoDup (l ++ [x]).
Proof.
  induction l as [|y l IH]; cbn; intros ND N; [constructor; [intros []|constructor]|].
  inversion ND as [|? ? Ny ND']; subst. constructor.
  - intros I. apply in_app_or in I. destruct I as [I|[I|[]]]; [contradiction|subst; apply N; left; reflexivity].
  - apply IH; [exact ND'|]. intros I. apply N. right. exact I.
Qed.

Lemma wf_read s r p pl : WF s -> memb p (s_used s) = false -> WF (s_step s (TRead r p pl)).
Proof.
  intros W Np. pose proof W as [W1 W2 W3 W4 W5 W6 W7 W8 W9 W10 W11 W12]. cbn [s_step].
  assert (Rp : nget p (s_reader s) = None).
  { destruct (nget p (s_reader s)) eqn:E; [|reflexivity]. destruct (W1 p) as [_ [_ [_ U]]]; [rewrite E; reflexivity|congruence]. }
  split; unfold written in *; proj.
  - intros rd. rewrite nget_nset, memb_cons. destruct (Nat.eqb_spec rd p) as [E|E].
    + subst rd. intros _. split; [|split; [|split; [|reflexivity]]].
      * destruct (nget p (s_srcs s)) eqn:E; [|reflexivity]. rewrite W4 in Np; [discriminate|rewrite E; reflexivity].
      * destruct (memb p (s_wr s)) eqn:E; [|reflexivity]. rewrite (W7 p E) in Np. discriminate.
      * destruct (memb p (s_lnk s)) eqn:E; [|reflexivity]. destruct (W6 p E) as [_ U]. congruence.
    + intros H. destruct (W1 rd H) as [A [B [C D]]]. rewrite D. auto.
  - exact W2.
  - exact W3.
  - intros d H. rewrite memb_cons, (W4 d H). apply orb_true_r.
  - intros rd H. rewrite nget_nset. destruct (Nat.eqb rd p); [reflexivity|apply W5; exact H].
  - intros d H. destruct (W6 d H) as [A B]. rewrite memb_cons, B. split; [exact A|apply orb_true_r].
  - intros d H. rewrite memb_cons, (W7 d H). apply orb_true_r.
  - exact W8.
  - exact W9.
  - exact W10.
  - intros r' rd. rewrite !nget_nset. destruct (Nat.eqb_spec r' r) as [Er|Er]; cbn [lst].
    + subst r'. intros I. apply in_app_or in I. destruct I as [I|[I|[]]].
      * pose proof (W11 r rd I) as A. destruct (Nat.eqb_spec rd p); [subst rd; congruence|exact A].
      * subst rd. rewrite Nat.eqb_refl. reflexivity.
    + intros I. pose proof (W11 r' rd I) as A. destruct (Nat.eqb_spec rd p); [subst rd; congruence|exact A].
  - intros r'. rewrite nget_nset. destruct (Nat.eqb_spec r' r) as [Er|Er]; cbn [lst]; [|apply W12].
    subst r'. apply NoDup_snoc; [apply W12|]. intros I. rewrite (W11 r p I) in Rp. discriminate.
Qed.

Lemma wf_link s src tgt pl : WF s -> allowed s (TLink src tgt pl) = true -> WF (s_step s (TLink src tgt pl)).
Proof.
  intros W A. pose proof W as [W1 W2 W3 W4 W5 W6 W7 W8 W9 W10 W11 W12]. cbn [allowed] in A.
  apply andb_prop in A. destruct A as [A A5]. apply andb_prop in A. destruct A as [A A4].
  apply andb_prop in A. destruct A as [A A3]. apply andb_prop in A. destruct A as [A1 A2].
  apply negb_true_iff, Nat.eqb_neq in A1. apply negb_true_iff, memb_nIn in A5.
  assert (Tr : nget tgt (s_reader s) = None).
  { destruct (nget tgt (s_reader s)) eqn:E; [|reflexivity]. destruct (W1 tgt) as [_ [_ [L U]]]; [rewrite E; reflexivity|].
    apply orb_prop in A4. destruct A4 as [A4|A4]; [rewrite U in A4; discriminate|congruence]. }
  assert (Tw : memb tgt (s_wr s) = false).
  { apply orb_prop in A4. destruct A4 as [A4|A4].
    - destruct (memb tgt (s_wr s)) eqn:E; [|reflexivity]. rewrite (W7 tgt E) in A4. discriminate.
    - apply (W6 tgt A4). }
  set (lnk' := if existsb (Nat.eqb tgt) (s_lnk s) then s_lnk s else tgt :: s_lnk s).
  assert (Lk : forall x, memb x lnk' = Nat.eqb x tgt || memb x (s_lnk s)).
  { intros x. unfold lnk'. fold (memb tgt (s_lnk s)). destruct (memb tgt (s_lnk s)) eqn:E; [|reflexivity].
    destruct (Nat.eqb_spec x tgt); [subst; rewrite E; reflexivity|reflexivity]. }
  cbn [s_step]. split; unfold written in *; proj; fold lnk'.
  - intros rd H. destruct (W1 rd H) as [B1 [B2 [B3 B4]]].
    assert (Nt : rd <> tgt) by (intros E; subst rd; rewrite Tr in H; discriminate).
    rewrite nget_nset, Lk, memb_cons. destruct (Nat.eqb_spec rd tgt); [contradiction|]. rewrite B4. auto.
  - intros d ss s0. rewrite !nget_nset. destruct (Nat.eqb_spec d tgt) as [Ed|Ed].
    + subst d. intros Es I0. injection Es as <-. apply in_app_or in I0.
      destruct (Nat.eqb_spec s0 src) as [E0|E0].
      * subst s0. eexists. split; [reflexivity|]. rewrite pending_app. apply in_or_app. right. left. reflexivity.
      * destruct I0 as [I0|[I0|[]]]; [|congruence].
        destruct (nget tgt (s_srcs s)) as [ss|] eqn:Et; [|destruct I0]. apply (W2 tgt ss s0 Et I0).
    + intros Es I0. destruct (W2 d ss s0 Es I0) as [rw [R P]].
      destruct (Nat.eqb_spec s0 src) as [E0|E0]; [|exists rw; auto].
      subst s0. rewrite R. cbn [lst]. eexists. split; [reflexivity|]. rewrite pending_app. apply in_or_app. left. exact P.
  - intros d ss. rewrite nget_nset. destruct (Nat.eqb_spec d tgt) as [Ed|Ed]; [|apply W3].
    intros Es. injection Es as <-. apply NoDup_snoc; [|exact A5].
    destruct (nget tgt (s_srcs s)) as [ss|] eqn:Et; [apply (W3 tgt ss Et)|constructor].
  - intros d. rewrite nget_nset, memb_cons. destruct (Nat.eqb_spec d tgt); [reflexivity|]. intros H. rewrite (W4 d H). apply orb_true_r.
  - intros rd. rewrite nget_nset. destruct (Nat.eqb_spec rd src) as [E|E]; [subst rd; intros _; exact A2|apply W5].
  - intros d. rewrite Lk, memb_cons. destruct (Nat.eqb_spec d tgt) as [E|E]; cbn [orb].
    + subst d. intros _. split; [exact Tw|reflexivity].
    + intros H. destruct (W6 d H) as [B1 B2]. rewrite B2. auto.
  - intros d H. rewrite memb_cons, (W7 d H). apply orb_true_r.
  - exact W8.
  - exact W9.
  - exact W10.
  - exact W11.
  - exact W12.
Qed.

Lemma wf_write_acc s w p : WF s -> memb p (s_lnk s) = true -> WF (s_step s (TWrite (Some w) p true)).
Proof.
  intros W Lp. pose proof W as [W1 W2 W3 W4 W5 W6 W7 W8 W9 W10 W11 W12]. destruct (W6 p Lp) as [Wp Up].
  assert (Nq : forall w', ~ In p (lst (nget w' (s_writes s)))).
  { intros w' I. unfold written in *. rewrite (W8 w' p I) in Wp. discriminate. }
  cbn [s_step]. split; unfold written in *; proj.
  - intros rd H. destruct (W1 rd H) as [B1 [B2 [B3 B4]]]. rewrite memb_cons, memb_filter_ne, B2, B3.
    destruct (Nat.eqb_spec rd p); [subst rd; congruence|]. auto.
  - exact W2.
  - exact W3.
  - exact W4.
  - exact W5.
  - intros d. rewrite memb_filter_ne, memb_cons. destruct (Nat.eqb_spec d p); cbn; [discriminate|]. apply W6.
  - intros d. rewrite memb_cons. destruct (Nat.eqb_spec d p); cbn; [subst d; intros _; exact Up|apply W7].
  - intros w' d. rewrite nget_nset, memb_cons. destruct (Nat.eqb_spec w' w) as [E|E]; cbn [lst].
    + subst w'. intros I. apply in_app_or in I. destruct I as [I|[I|[]]].
      * rewrite (W8 w d I). apply orb_true_r.
      * subst d. rewrite Nat.eqb_refl. reflexivity.
    + intros I. rewrite (W8 w' d I). apply orb_true_r.
  - intros w'. rewrite nget_nset. destruct (Nat.eqb_spec w' w) as [E|E]; cbn [lst]; [|apply W9].
    subst w'. apply NoDup_snoc; [apply W9|apply Nq].
  - intros w1 w2 d Nw. rewrite !nget_nset.
    destruct (Nat.eqb_spec w1 w) as [E1|E1]; destruct (Nat.eqb_spec w2 w) as [E2|E2]; cbn [lst]; try congruence.
    + subst w1. intros I1 I2. apply in_app_or in I1. destruct I1 as [I1|[I1|[]]].
      * exact (W10 w w2 d Nw I1 I2).
      * subst d. exact (Nq w2 I2).
    + subst w2. intros I1 I2. apply in_app_or in I2. destruct I2 as [I2|[I2|[]]].
      * exact (W10 w1 w d Nw I1 I2).
      * subst d. exact (Nq w1 I1).
    + apply W10. exact Nw.
  - exact W11.
  - exact W12.
Qed.

Lemma wf_echo s w p a : WF s -> allowed s (TWrite w p a) = true ->
  (match w, a with Some _, true => False | _, _ => True end) ->
  WF (match nget p (s_reader s) with
      | Some r => s_flush_reader (su_rows s (nset p [(p, Some (echo s p))] (s_rows s))) r
      | None => s_settle (su_lnk s (filter (fun x => negb (Nat.eqb x p)) (s_lnk s))) p (join [echo s p])
      end).
Proof.
  intros W A Hw. pose proof W as [W1 W2 W3 W4 W5 W6 W7 W8 W9 W10 W11 W12].
  assert (A' : memb p (s_lnk s) || (is_some (nget p (s_reader s)) && negb (is_some (nget p (s_rows s)))) = true).
  { destruct w as [w|]; [destruct a; [contradiction|]|]; exact A. }
  destruct (nget p (s_reader s)) as [r|] eqn:Er.
  - assert (H : is_some (nget p (s_reader s)) = true) by (rewrite Er; reflexivity).
    destruct (W1 p H) as [B1 [B2 [B3 B4]]]. rewrite B3 in A'. cbn [orb is_some andb] in A'.
    apply negb_true_iff in A'. assert (Rp : nget p (s_rows s) = None) by (destruct (nget p (s_rows s)); [discriminate|reflexivity]).
    apply wf_flush. split; unfold written in *; proj; auto.
    + intros d ss s0 Es I0. destruct (W2 d ss s0 Es I0) as [rw [R P]]. rewrite nget_nset.
      destruct (Nat.eqb_spec s0 p); [subst s0; congruence|]. exists rw. auto.
    + intros rd. rewrite nget_nset. destruct (Nat.eqb_spec rd p); [subst rd; intros _; exact H|apply W5].
  - cbn [is_some andb] in A'. rewrite orb_false_r in A'. apply wf_settle.
    split; unfold written in *; proj; auto.
    + intros rd H. destruct (W1 rd H) as [B1 [B2 [B3 B4]]]. rewrite memb_filter_ne, B3, andb_false_r. auto.
    + intros d. rewrite memb_filter_ne. intros H. apply andb_prop in H. destruct H as [_ H]. apply W6. exact H.
Qed.

Lemma wf_pop s w d rest : WF s -> lst (nget w (s_writes s)) = d :: rest ->
  WF (su_wr (su_writes s (match rest with [] => ndel w (s_writes s) | _ => nset w rest (s_writes s) end))
            (filter (fun x => negb (Nat.eqb x d)) (s_wr s))).
Proof.
  intros W E. pose proof W as [W1 W2 W3 W4 W5 W6 W7 W8 W9 W10 W11 W12].
  assert (Qn : forall w', lst (nget w' (match rest with [] => ndel w (s_writes s) | _ => nset w rest (s_writes s) end)) =
                          if Nat.eqb w' w then rest else lst (nget w' (s_writes s))).
  { intros w'. destruct rest; [rewrite nget_ndel|rewrite nget_nset]; destruct (Nat.eqb w' w); reflexivity. }
  pose proof (W9 w) as NDw. rewrite E in NDw. inversion NDw as [|? ? Nd NDr]; subst.
  split; unfold written in *; proj; auto.
  - intros rd H. destruct (W1 rd H) as [B1 [B2 [B3 B4]]]. rewrite memb_filter_ne, B2, andb_false_r. auto.
  - intros x H. destruct (W6 x H) as [B1 B2]. rewrite memb_filter_ne, B1, andb_false_r. auto.
  - intros x. rewrite memb_filter_ne. intros H. apply andb_prop in H. destruct H as [_ H]. apply W7. exact H.
  - intros w' x. rewrite Qn, memb_filter_ne. destruct (Nat.eqb_spec w' w) as [Ew|Ew].
    + subst w'. intros I. rewrite (W8 w x); [|rewrite E; right; exact I].
      destruct (Nat.eqb_spec x d); [subst x; contradiction|reflexivity].
    + intros I. rewrite (W8 w' x I). destruct (Nat.eqb_spec x d) as [Ex|Ex]; [|reflexivity].
      subst x. exfalso. apply (W10 w' w d Ew I). rewrite E. left. reflexivity.
  - intros w'. rewrite Qn. destruct (Nat.eqb_spec w' w); [exact NDr|apply W9].
  - intros w1 w2 x Nw. rewrite !Qn. destruct (Nat.eqb_spec w1 w) as [E1|E1]; destruct (Nat.eqb_spec w2 w) as [E2|E2]; try congruence.
    + subst w1. intros I1. apply (W10 w w2 x Nw). rewrite E. right. exact I1.
    + subst w2. intros I1 I2. apply (W10 w1 w x Nw I1). rewrite E. right. exact I2.
    + apply W10. exact Nw.
Qed.

Theorem step_wf s op : WF s -> allowed s op = true -> WF (s_step s op).
Proof.
  intros W A. destruct op as [r p pl|src tgt pl|w p a|w back].
  - apply wf_read; [exact W|]. cbn in A. apply negb_true_iff in A. exact A.
  - apply wf_link; assumption.
  - destruct w as [w|]; [destruct a|].
    + apply wf_write_acc; [exact W|exact A].
    + cbn [s_step]. apply (wf_echo s (Some w) p false W A I).
    + cbn [s_step]. apply (wf_echo s None p a W A I).
  - cbn [s_step]. destruct (lst (nget w (s_writes s))) as [|d rest] eqn:E; [exact W|].
    apply wf_settle. proj. apply wf_pop; assumption.
Qed.

(* ================= Part 3: every allowed call is simulated ================= *)
Lemma sim_read t s r p pl : Sim t s -> Sim (t_step t (TRead r p pl)) (s_step s (TRead r p pl)).
Proof.
  intros Sm. unfold t_step. rewrite (sim_crash _ _ _ Sm). cbn [s_step].
  destruct Sm as [S1 S2 S3 S4 S5 S6 S7 S8 S9]. split; unfold std_receives, std_targets, written in *; proj; auto;
    rewrite ?S1, ?S2, ?S4; reflexivity.
Qed.

Lemma sim_link t s src tgt pl : Sim t s -> WF s -> allowed s (TLink src tgt pl) = true ->
  Sim (t_step t (TLink src tgt pl)) (s_step s (TLink src tgt pl)).
Proof.
  intros Sm W A. cbn [allowed] in A.
  apply andb_prop in A. destruct A as [A A5]. apply andb_prop in A. destruct A as [A A4].
  apply andb_prop in A. destruct A as [A A3]. apply andb_prop in A. destruct A as [A1 A2].
  unfold t_step. rewrite (sim_crash _ _ _ Sm). apply negb_true_iff in A1. rewrite A1. cbn [s_step].
  destruct (w_req _ W src A2) as [_ [Ws _]].
  pose proof Sm as [S1 S2 S3 S4 S5 S6 S7 S8 S9]. split; unfold std_receives, std_targets, written in *; proj; auto;
    try (rewrite ?S7, ?S4; reflexivity).
  - intros p. rewrite !nget_nset. destruct (Nat.eqb_spec p src) as [E|E]; [|apply S8].
    subst p. rewrite S8. destruct (nget src (s_rows s)) as [rw|]; cbn [lst].
    + rewrite map_app. reflexivity.
    + rewrite Ws. reflexivity.
  - intros p. rewrite !nget_nset. destruct (Nat.eqb_spec p src) as [E|E]; [|apply S9].
    subst p. rewrite S9. destruct (nget src (s_rows s)) as [rw|]; cbn [lst].
    + rewrite pending_app. cbn. destruct (pending rw); reflexivity.
    + reflexivity.
Qed.

Lemma sim_write_acc t s w p : Sim t s -> WF s -> memb p (s_lnk s) = true ->
  Sim (t_step t (TWrite (Some w) p true)) (s_step s (TWrite (Some w) p true)).
Proof.
  intros Sm W Lp. unfold t_step. rewrite (sim_crash _ _ _ Sm). cbn [s_step].
  destruct (w_lnk _ W p Lp) as [Wp _].
  assert (Rp : nget p (s_rows s) = None).
  { destruct (nget p (s_rows s)) eqn:E; [|reflexivity]. exfalso.
    assert (H : is_some (nget p (s_reader s)) = true) by (apply (w_rows _ W); rewrite E; reflexivity).
    destruct (w_req _ W p H) as [_ [_ [L _]]]. congruence. }
  pose proof Sm as [S1 S2 S3 S4 S5 S6 S7 S8 S9]. split; unfold std_receives, std_targets, written in *; proj; auto;
    try (rewrite S3; reflexivity).
  - intros q. rewrite nget_nset, memb_cons. destruct (Nat.eqb_spec q p) as [E|E].
    + subst q. rewrite S8, Rp, Wp. reflexivity.
    + apply S8.
Qed.

Lemma fuel0_eq : fuel0 = S (S 6).
Proof. reflexivity. Qed.

Lemma sim_echo t s w p a : Sim t s -> WF s -> allowed s (TWrite w p a) = true ->
  (match w, a with Some _, true => False | _, _ => True end) ->
  Sim (resolve fuel0 (t_receive t p (match nget p (t_pay t) with Some pl => Pk pl | None => PNone end)) p)
      (match nget p (s_reader s) with
       | Some r => s_flush_reader (su_rows s (nset p [(p, Some (echo s p))] (s_rows s))) r
       | None => s_settle (su_lnk s (filter (fun x => negb (Nat.eqb x p)) (s_lnk s))) p (join [echo s p])
       end).
Proof.
  intros Sm W A Hw.
  assert (A' : memb p (s_lnk s) || (is_some (nget p (s_reader s)) && negb (is_some (nget p (s_rows s)))) = true).
  { destruct w as [w|]; [destruct a; [contradiction|]|]; exact A. }
  rewrite (sim_pay _ _ _ Sm). fold (echo s p). set (e := echo s p). rewrite fuel0_eq.
  destruct (nget p (s_reader s)) as [r|] eqn:Er.
  - assert (H : is_some (nget p (s_reader s)) = true) by (rewrite Er; reflexivity).
    destruct (w_req _ W p H) as [B1 [B2 [B3 B4]]]. rewrite B3 in A'. cbn [orb is_some andb] in A'.
    apply negb_true_iff in A'. assert (Rp : nget p (s_rows s) = None) by (destruct (nget p (s_rows s)); [discriminate|reflexivity]).
    set (s' := su_rows s (nset p [(p, Some e)] (s_rows s))).
    assert (S' : Sim (t_receive t p e) s').
    { unfold t_receive. pose proof Sm as [S1 S2 S3 S4 S5 S6 S7 S8 S9]. unfold s'.
      split; unfold std_receives, std_targets, written in *; proj; auto.
      - intros q. rewrite !nget_nset. destruct (Nat.eqb_spec q p) as [E|E]; [|apply S8].
        subst q. rewrite S8, Rp, B2. reflexivity.
      - intros q. rewrite nget_nset. destruct (Nat.eqb_spec q p) as [E|E]; [|apply S9].
        subst q. rewrite S9, Rp. reflexivity. }
    pose proof (resolve_request None (S 6) (t_receive t p e) s' p [(p, Some e)] S' I) as Q.
    assert (R' : nget p (s_rows s') = Some [(p, Some e)]) by (unfold s'; proj; rewrite nget_nset, Nat.eqb_refl; reflexivity).
    assert (E1 : s_reader s' = s_reader s) by reflexivity. assert (E2 : s_srcs s' = s_srcs s) by reflexivity.
    assert (E3 : s_reads s' = s_reads s) by reflexivity. assert (E4 : s_wr s' = s_wr s) by reflexivity.
    specialize (Q R'). rewrite E2 in Q. specialize (Q B1). rewrite E1, Er, E3 in Q.
    cbn [complete map snd has_nil existsb negb orb] in Q. apply Q; [|reflexivity].
    intros r0 Er0 rd Ird. injection Er0 as <-. split; [|exact I].
    assert (Hrd : is_some (nget rd (s_reader s)) = true) by (rewrite (w_reads _ W r rd Ird); reflexivity).
    unfold written. rewrite E4. apply (w_req _ W rd Hrd).
  - cbn [is_some andb] in A'. rewrite orb_false_r in A'.
    destruct (w_lnk _ W p A') as [Wp _].
    assert (Rp : nget p (s_rows s) = None).
    { destruct (nget p (s_rows s)) eqn:E; [|reflexivity]. exfalso.
      assert (H : is_some (nget p (s_reader s)) = true) by (apply (w_rows _ W); rewrite E; reflexivity).
      rewrite Er in H. discriminate. }
    set (s' := su_lnk s (filter (fun x => negb (Nat.eqb x p)) (s_lnk s))).
    assert (S' : SimG (Some (p, [Some e])) (t_receive t p e) s').
    { unfold t_receive. pose proof Sm as [S1 S2 S3 S4 S5 S6 S7 S8 S9]. unfold s'.
      split; unfold std_receives, std_targets, written in *; proj; auto.
      intros q. rewrite nget_nset. destruct (Nat.eqb_spec q p) as [E|E]; [|apply S8].
      subst q. rewrite S8, Rp, Wp. reflexivity. }
    assert (W' : WF s').
    { pose proof W as [W1 W2 W3 W4 W5 W6 W7 W8 W9 W10 W11 W12]. unfold s'. split; unfold written in *; proj; auto.
      - intros rd H. destruct (W1 rd H) as [B1 [B2 [B3 B4]]]. rewrite memb_filter_ne, B3, andb_false_r. auto.
      - intros d. rewrite memb_filter_ne. intros H. apply andb_prop in H. destruct H as [_ H]. apply W6. exact H. }
    pose proof (settle_sim 6 (t_receive t p e) s' p [Some e] S' eq_refl) as Q.
    cbn [slots flat_map app] in Q. apply Q.
    + unfold s', written. proj. exact Wp.
    + apply wf_good; [exact W'|]. unfold s'. proj. exact Er.
Qed.

Lemma sim_receive t s w back : Sim t s -> WF s ->
  Sim (t_step t (TReceive w back)) (s_step s (TReceive w back)).
Proof.
  intros Sm W. unfold t_step. rewrite (sim_crash _ _ _ Sm), (sim_writes _ _ _ Sm). cbn [s_step].
  destruct (lst (nget w (s_writes s))) as [|d rest] eqn:E; [exact Sm|]. proj.
  set (wr' := filter (fun x => negb (Nat.eqb x d)) (s_wr s)).
  set (ws' := match rest with [] => ndel w (s_writes s) | _ => nset w rest (s_writes s) end).
  set (s' := su_wr (su_writes s ws') wr').
  assert (W' : WF s') by (apply wf_pop; assumption).
  assert (Wd : written s d = true) by (apply (w_writes _ W w); rewrite E; left; reflexivity).
  assert (Rd : nget d (s_reader s) = None).
  { destruct (nget d (s_reader s)) eqn:Er; [|reflexivity]. exfalso.
    destruct (w_req _ W d) as [_ [B _]]; [rewrite Er; reflexivity|congruence]. }
  assert (Rw : nget d (s_rows s) = None).
  { destruct (nget d (s_rows s)) eqn:Er; [|reflexivity]. exfalso.
    assert (H : is_some (nget d (s_reader s)) = true) by (apply (w_rows _ W); rewrite Er; reflexivity).
    rewrite Rd in H. discriminate. }
  assert (Wd' : written s' d = false).
  { unfold written, s', wr'. proj. rewrite memb_filter_ne, Nat.eqb_refl. reflexivity. }
  set (t1 := upd_writes t ws').
  assert (Rc : nget d (t_receives t1) = Some [None]).
  { unfold t1. proj. rewrite (sim_receives _ _ _ Sm). unfold std_receives. rewrite Rw, Wd. reflexivity. }
  assert (Base : forall rc t2, t_receives t2 = nset d rc (t_receives t1) ->
                 t_reads t2 = t_reads t -> t_reader t2 = t_reader t -> t_writes t2 = ws' -> t_pay t2 = t_pay t ->
                 t_out t2 = t_out t -> t_crash t2 = false -> t_sources t2 = t_sources t -> t_targets t2 = t_targets t ->
                 SimG (Some (d, rc)) t2 s').
  { intros rc t2 H1 H2 H3 H4 H5 H6 H7 H8 H9. pose proof Sm as [S1 S2 S3 S4 S5 S6 S7 S8 S9].
    split; unfold std_receives, std_targets, written, s', wr' in *; proj; try congruence.
    - intros q. rewrite H1, nget_nset. destruct (Nat.eqb_spec q d) as [Eq|Eq]; [reflexivity|].
      unfold t1. proj. rewrite S8, memb_filter_ne. destruct (Nat.eqb_spec q d); [contradiction|]. reflexivity.
    - intros q. rewrite H9. apply S9. }
  rewrite fuel0_eq.
  assert (G : Good d (su_srcs s' (ndel d (s_srcs s'))) (lst (nget d (s_srcs s')))).
  { apply wf_good; [exact W'|]. exact Rd. }
  destruct back as [a|].
  - assert (S2 : SimG (Some (d, [Some a])) (t_receive t1 d a) s').
    { apply Base; unfold t_receive, t1; proj; try reflexivity; try apply (sim_crash _ _ _ Sm).
      unfold t1 in Rc. proj. rewrite Rc. reflexivity. }
    pose proof (settle_sim 6 _ _ d [Some a] S2 eq_refl Wd' G) as Q. cbn [slots flat_map app] in Q. exact Q.
  - assert (S2 : SimG (Some (d, [])) (t_discard t1 d) s').
    { unfold t_discard. rewrite Rc. cbn [has_nil existsb orb drop_first_nil].
      apply Base; unfold t1; proj; try reflexivity; apply (sim_crash _ _ _ Sm). }
    pose proof (settle_sim 6 _ _ d [] S2 eq_refl Wd' G) as Q. cbn [slots flat_map] in Q. exact Q.
Qed.

Theorem step_sim t s op : Sim t s -> WF s -> allowed s op = true -> Sim (t_step t op) (s_step s op).
Proof.
  intros Sm W A. destruct op as [r p pl|src tgt pl|w p a|w back].
  - apply sim_read. exact Sm.
  - apply sim_link; assumption.
  - destruct w as [w|]; [destruct a|].
    + apply sim_write_acc; assumption.
    + unfold t_step. rewrite (sim_crash _ _ _ Sm). cbn [s_step]. apply (sim_echo t s (Some w) p false Sm W A I).
    + unfold t_step. rewrite (sim_crash _ _ _ Sm). cbn [s_step]. apply (sim_echo t s None p a Sm W A I).
  - apply sim_receive; assumption.
Qed.

Lemma Sim_init : Sim t_init s_init.
Proof. split; cbn; try reflexivity; intros p; reflexivity. Qed.

Lemma run_sim : forall ops t s, Sim t s -> WF s -> disciplined_from s ops = true ->
  Sim (fold_left t_step ops t) (fold_left s_step ops s) /\ WF (fold_left s_step ops s).
Proof.
  induction ops as [|op ops IH]; intros t s Sm W D; cbn [fold_left]; [auto|].
  cbn [disciplined_from] in D. apply andb_prop in D. destruct D as [A D].
  apply IH; [apply step_sim|apply step_wf|]; assumption.
Qed.

(* For every disciplined sequence of tracer calls the tracer hands out exactly the specification's answers - the same
   requests, to the same readers, with the same packets, in the same order - it holds the same pending requests and
   writes, and it never indexes out of range. *)
Theorem tracer_refines_spec ops : disciplined ops = true ->
  t_out (t_run ops) = s_out (s_run ops) /\ t_reads (t_run ops) = s_reads (s_run ops) /\
  t_writes (t_run ops) = s_writes (s_run ops) /\ t_crash (t_run ops) = false.
Proof.
  intros D. destruct (run_sim ops t_init s_init Sim_init WF_init D) as [Sm _].
  unfold t_run, s_run. split; [apply (sim_out _ _ _ Sm)|]. split; [apply (sim_reads _ _ _ Sm)|].
  split; [apply (sim_writes _ _ _ Sm)|apply (sim_crash _ _ _ Sm)].
Qed.

(* what the specification hands out: only complete rows, each answered with the join of its row *)
Lemma s_flush_out r : forall l s s' rest, s_flush s r l = (s', rest) ->
  exists done, l = done ++ rest /\
    s_out s' = s_out s ++ map (fun rd => (r, rd, join (answers (lst (nget rd (s_rows s)))))) done /\
    (forall rd, In rd done -> exists rw, nget rd (s_rows s) = Some rw /\ complete rw = true).
Proof.
  induction l as [|rd l IH]; intros s s' rest H; cbn [s_flush] in H.
  - injection H as <- <-. exists []. cbn. rewrite app_nil_r. split; [reflexivity|]. split; [reflexivity|]. intros k [].
  - destruct (nget rd (s_rows s)) as [rw|] eqn:R.
    2:{ injection H as <- <-. exists []. cbn. rewrite app_nil_r. split; [reflexivity|]. split; [reflexivity|]. intros k []. }
    destruct (complete rw) eqn:C.
    2:{ injection H as <- <-. exists []. cbn. rewrite app_nil_r. split; [reflexivity|]. split; [reflexivity|]. intros k []. }
    apply IH in H. destruct H as [done [E [O K]]]. proj.
    assert (Ne : forall k, In k done -> k <> rd).
    { intros k Ik Ek. subst k. destruct (K rd Ik) as [rw' [R' _]]. rewrite nget_ndel, Nat.eqb_refl in R'. discriminate. }
    exists (rd :: done). split; [cbn; rewrite E; reflexivity|]. split.
    + rewrite O. cbn [map]. rewrite R. cbn [lst]. rewrite <- app_assoc. cbn [app]. f_equal. f_equal.
      apply map_ext_in. intros k Ik. rewrite nget_ndel. destruct (Nat.eqb_spec k rd) as [Ek|Ek]; [exfalso; exact (Ne k Ik Ek)|reflexivity].
    + intros k [Ek|Ik]; [subst k; exists rw; auto|].
      destruct (K k Ik) as [rw' [R' C']]. rewrite nget_ndel in R'. destruct (Nat.eqb k rd); [discriminate|]. exists rw'. auto.
Qed.
