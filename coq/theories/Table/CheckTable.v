(* Correspondence checker for the symbol table (C06-C08). *)
From Coq Require Import List NArith ZArith Bool.
From Uf Require Import Table.Table.
Import ListNotations.

Fixpoint mismatches_from {A} (ok : A -> bool) (i : nat) (l : list A) : list nat :=
  match l with
  | [] => []
  | c :: t => if ok c then mismatches_from ok (S i) t else i :: mismatches_from ok (S i) t
  end.
Definition mismatches {A} (ok : A -> bool) (l : list A) : list nat := mismatches_from ok 0 l.

Fixpoint list_eqb {A} (f : A -> A -> bool) (l l' : list A) : bool :=
  match l, l' with
  | [], [] => true
  | a :: t, b :: t' => f a b && list_eqb f t t'
  | _, _ => false
  end.

Fixpoint ins_nat (x : nat) (l : list nat) : list nat :=
  match l with [] => [x] | y :: t => if Nat.leb x y then x :: l else y :: ins_nat x t end.
Definition sort_nat (l : list nat) : list nat := fold_right ins_nat [] l.

Definition link_leb (a b : nat * nat * nat * nat) : bool :=
  let '(a1, a2, a3, a4) := a in let '(b1, b2, b3, b4) := b in
  if Nat.ltb a1 b1 then true else if Nat.ltb b1 a1 then false else
  if Nat.ltb a2 b2 then true else if Nat.ltb b2 a2 then false else
  if Nat.ltb a3 b3 then true else if Nat.ltb b3 a3 then false else Nat.leb a4 b4.
Fixpoint ins_link (x : nat * nat * nat * nat) (l : list (nat * nat * nat * nat)) :=
  match l with [] => [x] | y :: t => if link_leb x y then x :: l else y :: ins_link x t end.
Definition sort_links (l : list (nat * nat * nat * nat)) := fold_right ins_link [] l.
Definition link_eqb (a b : nat * nat * nat * nat) : bool := link_leb a b && link_leb b a.

Definition ev_eqb (a b : ev) : bool :=
  match a, b with
  | ELoad x, ELoad y | EUnload x, EUnload y | ECloseNode x, ECloseNode y => Nat.eqb x y
  | EExec x p, EExec y q => Nat.eqb x y && Nat.eqb p q
  | _, _ => false
  end.

(* observed after every operation: ids present (sorted), wiring (sorted), the whole event log *)
Record obsT := mkobsT { o_res : tres; o_keys : list nat; o_links : list (nat * nat * nat * nat); o_events : list ev }.

Definition tres_eqb (a b : tres) : bool :=
  match a, b with
  | TDone x, TDone y => Bool.eqb x y
  | TFail x, TFail y => Nat.eqb x y
  | _, _ => false
  end.

Record cTcase := mkT { cT_ninst : nat; cT_steps : list (top * obsT) }.

(* When an operation is aborted by a failing lifecycle flow, which of several independent dependents were
   already notified depends on Go's map iteration order: from that operation on only "it failed" is compared. *)
Fixpoint cTrun (ninst : nat) (st : tstate) (steps : list (top * obsT)) : bool :=
  match steps with
  | [] => true
  | (op, ob) :: rest =>
      let '(st', r) := t_step_res st op in
      match r, o_res ob with
      | TFail _, TFail _ => true
      | _, _ =>
          tres_eqb r (o_res ob) &&
          list_eqb Nat.eqb (sort_nat (map s_id (syms st'))) (o_keys ob) &&
          list_eqb link_eqb (sort_links (links st')) (o_links ob) &&
          list_eqb Nat.eqb (sort_nat (active_insts (events st'))) (sort_nat (active_insts (o_events ob))) &&
          forallb (fun i => list_eqb ev_eqb (inst_events (events st') i) (inst_events (o_events ob) i)) (seq 0 ninst) &&
          cTrun ninst st' rest
      end
  end.

Definition cTok (c : cTcase) : bool := cTrun (cT_ninst c) t_init (cT_steps c).
