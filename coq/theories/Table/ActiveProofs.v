(* C07, the cross-operation half: along every well-formed history whose lifecycle flows succeed, the symbols for which a
   load notification has been sent without a matching unload are EXACTLY the present symbols whose reference closure is
   present.  Part A: the walk over the reference index is the backward closure of the references.  Part B: what adding
   or removing one symbol does to the closures of the others. *)
From Coq Require Import List Arith Bool Lia.
From Uf Require Import Table.Table Table.TableProofs Table.ClosureProofs Table.OrderProofs Table.RefsProofs.
Import ListNotations.

(* ---- Part A: index edges are references ---- *)
Definition refers (st : tstate) (s t : sym) : Prop :=
  In s (syms st) /\ In t (syms st) /\
  exists np p, In np (s_ports s) /\ In p (snd np) /\ RefP (s_ns s) p t /\ s_ns t = s_ns s.

Lemma find_key_unique {V} (rs : list (nat * V)) i m : NoDup (map fst rs) -> In (i, m) rs ->
  find (fun e : nat * V => Nat.eqb (fst e) i) rs = Some (i, m).
Proof.
  induction rs as [|[k v] rs IH]; intros ND I; [destruct I|]. inversion ND as [|? ? Nk ND']; subst. cbn [find fst].
  destruct I as [I|I].
  - injection I as -> ->. rewrite Nat.eqb_refl. reflexivity.
  - destruct (Nat.eqb_spec k i) as [E|E]; [|apply IH; assumption].
    subst k. exfalso. apply Nk. apply in_map_iff. exists (i, m). auto.
Qed.

Lemma nx_iff st i n : TI st ->
  (In n (nx st i) <-> In n (syms st) /\ exists q o, InRef (refs st) i q (s_id n) o).
Proof.
  intros T. unfold nx, get_refs. split.
  - intros H. apply in_flat_map in H. destruct H as [ir [Iir H]]. apply in_flat_map in H. destruct H as [r [Ir H]].
    destruct (find_sym st (rr_id r)) as [m|] eqn:F; [|destruct H]. destruct H as [H|[]]. subst m.
    destruct (find_sym_in _ _ _ F) as [In_ Eid]. split; [exact In_|].
    destruct (find (fun e : nat * list (nat * list rref) => Nat.eqb (fst e) i) (refs st)) as [e|] eqn:Fe; [|destruct Iir].
    apply find_some in Fe. destruct Fe as [Ie Ee]. apply Nat.eqb_eq in Ee. destruct e as [k m]. cbn [fst snd] in *. subst k.
    destruct ir as [q l]. exists q, (rr_port r). exists m, l, r. cbn [snd] in Ir. auto.
  - intros [In_ [q [o [m [l [x [A [B [C [D E]]]]]]]]]].
    rewrite (find_key_unique (refs st) i m (ti_keys _ T) A). cbn [snd].
    apply in_flat_map. exists (q, l). split; [exact B|]. apply in_flat_map. exists x. split; [exact C|].
    rewrite D. rewrite (proj2 (find_sym_iff st (s_id n) n (ti_ids _ T)) (conj In_ eq_refl)). left. reflexivity.
Qed.

Lemma nx_refers st t n : TI st -> In t (syms st) -> (In n (nx st (s_id t)) <-> refers st n t).
Proof.
  intros T It. rewrite (nx_iff st (s_id t) n T). split.
  - intros [In_ [q [o H]]]. apply (ti_refs _ T) in H. destruct H as [sr [tt [np [p [A [B [C [D [E [F [G [H [I J]]]]]]]]]]]]].
    assert (sr = n) by (apply (same_id_same st); auto using (ti_ids _ T)). subst sr.
    assert (tt = t) by (apply (same_id_same st); auto using (ti_ids _ T)). subst tt.
    split; [exact A|]. split; [exact B|]. exists np, p. auto.
  - intros [In_ [_ [np [p [A [B [C D]]]]]]]. split; [exact In_|]. exists (pr_port p), (fst np). apply (ti_refs _ T).
    exists n, t, np, p. repeat (split; [first [assumption|reflexivity]|]). exact D.
Qed.

Inductive reaches (st : tstate) : sym -> sym -> Prop :=
| rc_refl s : reaches st s s
| rc_step s m t : refers st s m -> reaches st m t -> reaches st s t.

Lemma reachable_reaches st sb i : TI st -> In sb (syms st) ->
  (reachable st sb i <-> exists s, In s (syms st) /\ s_id s = i /\ reaches st s sb).
Proof.
  intros T Isb. split.
  - intros H. induction H as [|j n Hj IH In_].
    + exists sb. split; [exact Isb|]. split; [reflexivity|constructor].
    + destruct IH as [m [Im [Em Rm]]]. subst j. apply (nx_refers st m n T Im) in In_.
      exists n. split; [apply In_|]. split; [reflexivity|]. econstructor; eassumption.
  - intros [s [Is [Es R]]]. subst i. clear Is. revert Isb. induction R as [s|s m t Rf R IH]; intros It.
    + constructor.
    + pose proof Rf as [_ [Im _]]. apply (r_next st t (s_id m)); [apply IH; exact It|].
      apply (nx_refers st m s T Im). exact Rf.
Qed.

(* ---- Part B: closures under the addition of one symbol ---- *)
Lemma in_nexts st s n : In n (nexts st s) <-> exists np p, In np (s_ports s) /\ In p (snd np) /\ resolve_sym st (s_ns s) p = Some n.
Proof.
  unfold nexts, targets. split.
  - intros H. apply in_flat_map in H. destruct H as [t [It H]]. destruct t as [m|]; [|destruct H]. destruct H as [H|[]]. subst m.
    apply in_flat_map in It. destruct It as [np [Inp It]]. apply in_map_iff in It. destruct It as [p [Ep Ip]]. exists np, p. auto.
  - intros [np [p [Inp [Ip R]]]]. apply in_flat_map. exists (Some n). split; [|left; reflexivity].
    apply in_flat_map. exists np. split; [exact Inp|]. apply in_map_iff. exists p. auto.
Qed.

Lemma good_iff st s : good st s = true <->
  s_node s = true /\ forall np p, In np (s_ports s) -> In p (snd np) -> exists t, resolve_sym st (s_ns s) p = Some t /\ s_ns t = s_ns s.
Proof.
  unfold good, targets. rewrite andb_true_iff, forallb_forall. split.
  - intros [N H]. split; [exact N|]. intros np p Inp Ip.
    assert (I : In (resolve_sym st (s_ns s) p) (flat_map (fun np : nat * list pref => map (fun p => resolve_sym st (s_ns s) p) (snd np)) (s_ports s))).
    { apply in_flat_map. exists np. split; [exact Inp|]. apply in_map. exact Ip. }
    specialize (H _ I). destruct (resolve_sym st (s_ns s) p) as [t|]; [|discriminate]. exists t. split; [reflexivity|apply Nat.eqb_eq; exact H].
  - intros [N H]. split; [exact N|]. intros t It. apply in_flat_map in It. destruct It as [np [Inp It]]. apply in_map_iff in It.
    destruct It as [p [Ep Ip]]. destruct (H np p Inp Ip) as [t' [R E]]. rewrite R in Ep. subst t. apply Nat.eqb_eq. exact E.
Qed.

(* st1 is st0 with the symbol sb added *)
Record Ext (st0 st1 : tstate) (sb : sym) : Prop := {
  x_t0 : TI st0;
  x_t1 : TI st1;
  x_syms : forall s, In s (syms st1) <-> In s (syms st0) \/ s = sb;
  x_new : ~ In sb (syms st0)
}.

Section Extension.
  Variables (st0 st1 : tstate) (sb : sym).
  Hypothesis X : Ext st0 st1 sb.

  Lemma ext_up ns p t : resolve_sym st0 ns p = Some t -> resolve_sym st1 ns p = Some t.
  Proof.
    intros R. apply (resolve_iff st0 ns p t (ti_ids _ (x_t0 _ _ _ X)) (ti_ns _ (x_t0 _ _ _ X))) in R. destruct R as [I P].
    apply (resolve_iff st1 ns p t (ti_ids _ (x_t1 _ _ _ X)) (ti_ns _ (x_t1 _ _ _ X))). split; [apply (x_syms _ _ _ X); left; exact I|exact P].
  Qed.

  Lemma ext_down ns p t : resolve_sym st1 ns p = Some t -> t <> sb -> resolve_sym st0 ns p = Some t.
  Proof.
    intros R N. apply (resolve_iff st1 ns p t (ti_ids _ (x_t1 _ _ _ X)) (ti_ns _ (x_t1 _ _ _ X))) in R. destruct R as [I P].
    apply (resolve_iff st0 ns p t (ti_ids _ (x_t0 _ _ _ X)) (ti_ns _ (x_t0 _ _ _ X))). split; [|exact P].
    apply (x_syms _ _ _ X) in I. destruct I as [I|I]; [exact I|contradiction].
  Qed.

  Lemma ext_new ns p : resolve_sym st1 ns p = Some sb -> resolve_sym st0 ns p = None.
  Proof.
    intros R. destruct (resolve_sym st0 ns p) as [t|] eqn:R0; [|reflexivity]. pose proof (ext_up _ _ _ R0) as R1.
    rewrite R in R1. injection R1 as <-. exfalso. apply (x_new _ _ _ X). apply (resolve_sym_in _ _ _ _ R0).
  Qed.

  (* a symbol whose closure was present keeps it, and none of its paths meets the new symbol *)
  Lemma closure_up s : closure_ok st0 s -> forall l, path st1 s l -> path st0 s l /\ good st1 (last_of s l) = true.
  Proof.
    intros C l. revert s C. induction l as [|y l IH]; intros s C P.
    - split; [exact I|]. cbn. specialize (C [] I). cbn in C. apply good_iff in C. destruct C as [N H]. apply good_iff. split; [exact N|].
      intros np p Inp Ip. destruct (H np p Inp Ip) as [t [R E]]. exists t. split; [apply ext_up; exact R|exact E].
    - destruct P as [Iy P]. assert (G : good st0 s = true) by (apply (C [] I)). apply good_iff in G. destruct G as [_ H].
      apply in_nexts in Iy. destruct Iy as [np [p [Inp [Ip R1]]]]. destruct (H np p Inp Ip) as [t [R0 _]].
      pose proof (ext_up _ _ _ R0) as R1'. rewrite R1 in R1'. injection R1' as <-.
      assert (Iy0 : In y (nexts st0 s)) by (apply in_nexts; exists np, p; auto).
      destruct (IH y (closure_next st0 s y C Iy0) P) as [P0 G0]. split; [cbn; auto|]. rewrite last_of_cons. exact G0.
  Qed.

  Lemma closure_up_ok s : closure_ok st0 s -> closure_ok st1 s.
  Proof. intros C l P. apply (closure_up s C l P). Qed.

  Lemma closure_up_avoids s : In s (syms st0) -> closure_ok st0 s -> forall l, path st1 s l -> ~ In sb (s :: l).
  Proof.
    intros Is C l P. destruct (closure_up s C l P) as [P0 _]. clear P. revert s Is C P0. induction l as [|y l IH]; intros s Is C P0 I.
    - destruct I as [I|[]]. subst s. exact (x_new _ _ _ X Is).
    - destruct I as [I|I]; [subst s; exact (x_new _ _ _ X Is)|]. destruct P0 as [Iy P0].
      assert (Iy0 : In y (syms st0)).
      { apply in_nexts in Iy. destruct Iy as [np [p [_ [_ R]]]]. apply (resolve_sym_in _ _ _ _ R). }
      exact (IH y Iy0 (closure_next st0 s y C Iy) P0 I).
  Qed.

  (* a symbol whose closure is present afterwards and none of whose paths meets the new symbol had it before *)
  Lemma closure_down s : closure_ok st1 s -> (forall l, path st1 s l -> ~ In sb l) -> closure_ok st0 s.
  Proof.
    intros C A l. revert s C A. induction l as [|y l IH]; intros s C A P.
    - cbn. assert (G : good st1 s = true) by (apply (C [] I)). apply good_iff in G. destruct G as [N H]. apply good_iff. split; [exact N|].
      intros np p Inp Ip. destruct (H np p Inp Ip) as [t [R E]]. exists t. split; [|exact E]. apply ext_down; [exact R|].
      intros Et. subst t. apply (A [sb]); [|left; reflexivity]. cbn. split; [|exact I]. apply in_nexts. exists np, p. auto.
    - destruct P as [Iy P]. rewrite last_of_cons.
      assert (Iy1 : In y (nexts st1 s)).
      { apply in_nexts in Iy. destruct Iy as [np [p [Inp [Ip R]]]]. apply in_nexts. exists np, p. split; [exact Inp|]. split; [exact Ip|]. apply ext_up. exact R. }
      apply (IH y (closure_next st1 s y C Iy1)); [|exact P].
      intros l' P' I'. apply (A (y :: l')); [cbn; auto|right; exact I'].
  Qed.

  (* a symbol that reaches the new symbol did not have its closure before *)
  Lemma closure_new s : In s (syms st0) -> forall l, path st1 s l -> In sb l -> ~ closure_ok st0 s.
  Proof.
    intros Is l. revert s Is. induction l as [|y l IH]; intros s Is P I C; [destruct I|].
    destruct P as [Iy P]. apply in_nexts in Iy. destruct Iy as [np [p [Inp [Ip R]]]].
    assert (G : good st0 s = true) by (apply (C [] Logic.I)). apply good_iff in G. destruct G as [_ H].
    destruct (H np p Inp Ip) as [t [R0 _]]. pose proof (ext_up _ _ _ R0) as R1. rewrite R in R1. injection R1 as <-.
    assert (Iy0 : In y (syms st0)) by (apply (resolve_sym_in _ _ _ _ R0)).
    destruct I as [I|I]; [subst y; exact (x_new _ _ _ X Iy0)|].
    assert (Iyn : In y (nexts st0 s)) by (apply in_nexts; exists np, p; auto).
    exact (IH y Iy0 P I (closure_next st0 s y C Iyn)).
  Qed.
End Extension.

(* ================= Part C: the notification log ================= *)
Definition act_step (acc : list nat) (e : ev) : list nat :=
  match e with
  | ELoad i => acc ++ [i]
  | EUnload i => filter (fun x => negb (Nat.eqb x i)) acc
  | _ => acc
  end.
Definition act_from (acc : list nat) (es : list ev) : list nat := fold_left act_step es acc.

Lemma active_app a b : active_insts (a ++ b) = act_from (active_insts a) b.
Proof. unfold active_insts, act_from. rewrite fold_left_app. reflexivity. Qed.

Definition not_unload (e : ev) : Prop := match e with EUnload _ => False | _ => True end.
Definition not_load (e : ev) : Prop := match e with ELoad _ => False | _ => True end.

Lemma act_loads es : Forall not_unload es -> forall acc i, In i (act_from acc es) <-> In i acc \/ In (ELoad i) es.
Proof.
  unfold act_from. induction es as [|e es IH]; intros F acc i; cbn [fold_left].
  - split; [auto|intros [H|[]]; exact H].
  - inversion F as [|? ? Fe F']; subst. rewrite (IH F'). destruct e as [j|j|j|j p]; cbn [act_step not_unload] in *; try contradiction.
    + rewrite in_app_iff. cbn [In]. split.
      * intros [[H|[H|[]]]|H]; [left; exact H|right; left; subst; reflexivity|right; right; exact H].
      * intros [H|[H|H]]; [left; left; exact H|injection H as ->; left; right; left; reflexivity|right; exact H].
    + split; [intros [H|H]; [left; exact H|right; right; exact H]|intros [H|[H|H]]; [left; exact H|discriminate|right; exact H]].
    + split; [intros [H|H]; [left; exact H|right; right; exact H]|intros [H|[H|H]]; [left; exact H|discriminate|right; exact H]].
Qed.

Lemma act_unloads es : Forall not_load es -> forall acc i, In i (act_from acc es) <-> In i acc /\ ~ In (EUnload i) es.
Proof.
  unfold act_from. induction es as [|e es IH]; intros F acc i; cbn [fold_left].
  - split; [intros H; split; [exact H|intros []]|tauto].
  - inversion F as [|? ? Fe F']; subst. rewrite (IH F'). destruct e as [j|j|j|j p]; cbn [act_step not_load] in *; try contradiction.
    + rewrite filter_In, negb_true_iff, Nat.eqb_neq. split.
      * intros [[H N] M]. split; [exact H|]. intros [E|E]; [injection E as ->; apply N; reflexivity|exact (M E)].
      * intros [H M]. split; [split; [exact H|]|]; [intros E; subst; apply M; left; reflexivity|intros E; apply M; right; exact E].
    + split; [intros [H M]; split; [exact H|]; intros [E|E]; [discriminate|exact (M E)]|intros [H M]; split; [exact H|]; intros E; apply M; right; exact E].
    + split; [intros [H M]; split; [exact H|]; intros [E|E]; [discriminate|exact (M E)]|intros [H M]; split; [exact H|]; intros E; apply M; right; exact E].
Qed.

(* the events one load (unload) adds are of one kind *)
Lemma life_fold_all (f : tstate -> sym -> tstate * option nat) (Q : ev -> Prop) l :
  (forall st s, exists es, events (fst (f st s)) = events st ++ es /\ Forall Q es) ->
  forall st0 e0, exists es, events (fst (life_fold_from f l (st0, e0))) = events st0 ++ es /\ Forall Q es.
Proof.
  intros Hf. unfold life_fold_from. induction l as [|s l IH]; intros st0 e0; cbn [fold_left fst].
  - exists []. rewrite app_nil_r. split; [reflexivity|constructor].
  - destruct e0 as [e|]; [apply IH|]. destruct (is_activated st0 s); [|apply IH].
    destruct (f st0 s) as [st1 e1] eqn:Ef. destruct (Hf st0 s) as [es1 [E1 Q1]]. rewrite Ef in E1. cbn [fst] in E1.
    destruct (IH st1 e1) as [es2 [E2 Q2]]. exists (es1 ++ es2). split; [rewrite E2, E1, app_assoc; reflexivity|apply Forall_app; auto].
Qed.

Lemma repeat_Forall {A} (Q : A -> Prop) x n : Q x -> Forall Q (repeat x n).
Proof. intros H. induction n; cbn; constructor; auto. Qed.

Lemma activate_no_unload st s : exists es, events (fst (activate st s)) = events st ++ es /\ Forall not_unload es.
Proof.
  destruct (activate_shape st s) as [i [b E]]. eexists. split; [exact E|]. apply Forall_app. split; [apply repeat_Forall; exact I|].
  destruct (snd (exec st s port_init)); [constructor|]. constructor; [exact I|apply repeat_Forall; exact I].
Qed.
Lemma deactivate_no_load st s : exists es, events (fst (deactivate st s)) = events st ++ es /\ Forall not_load es.
Proof.
  destruct (deactivate_shape st s) as [i [b E]]. eexists. split; [exact E|]. apply Forall_app. split; [apply repeat_Forall; exact I|].
  destruct (snd (exec st s port_term)); [constructor|]. constructor; [exact I|apply repeat_Forall; exact I].
Qed.

(* lifecycle flows that cannot fail *)
Definition NoFail (st : tstate) : Prop := forall s, In s (syms st) -> s_fail s = None.

Lemma exec_ok st sb pn : NoFail st -> snd (exec st sb pn) = None.
Proof.
  intros NF. unfold exec.
  generalize (match find (fun np : nat * list pref => Nat.eqb (fst np) pn) (s_ports sb) with Some np => snd np | None => [] end) as ps.
  assert (G : forall ps st0, syms st0 = syms st ->
    snd (fold_left (fun (acc : tstate * option nat) (p : pref) =>
      let '(st, err) := acc in
      match err with
      | Some _ => acc
      | None =>
          match resolve_sym st (s_ns sb) p with
          | Some ref => if Nat.eqb (s_ns ref) (s_ns sb) && s_node ref && mem (pr_port p) (s_ins ref)
                        then (log st (EExec (s_inst sb) pn), s_fail ref) else acc
          | None => acc
          end
      end) ps (st0, None)) = None).
  { induction ps as [|p ps IH]; intros st0 S0; cbn [fold_left]; [reflexivity|].
    destruct (resolve_sym st0 (s_ns sb) p) as [ref|] eqn:R; [|apply IH; exact S0].
    destruct (_ && _); [|apply IH; exact S0].
    assert (F : s_fail ref = None) by (apply NF; rewrite <- S0; apply (resolve_sym_in _ _ _ _ R)).
    rewrite F. apply IH. cbn [log syms]. exact S0. }
  intros ps. apply G. reflexivity.
Qed.

Lemma NoFail_same st st' : syms st' = syms st -> NoFail st -> NoFail st'.
Proof. intros E NF s Is. apply NF. rewrite <- E. exact Is. Qed.

Lemma activate_ok st s : NoFail st -> snd (activate st s) = None.
Proof.
  intros NF. unfold activate. pose proof (exec_ok st s port_init NF) as E1. pose proof (exec_same st s port_init) as S1.
  destruct (exec st s port_init) as [st1 e1]. cbn [snd fst] in *. subst e1.
  apply exec_ok. destruct S1 as [S1 _]. intros x Ix. apply NF. cbn [log syms] in Ix. rewrite S1 in Ix. exact Ix.
Qed.
Lemma deactivate_ok st s : NoFail st -> snd (deactivate st s) = None.
Proof.
  intros NF. unfold deactivate. pose proof (exec_ok st s port_term NF) as E1. pose proof (exec_same st s port_term) as S1.
  destruct (exec st s port_term) as [st1 e1]. cbn [snd fst] in *. subst e1.
  apply exec_ok. destruct S1 as [S1 _]. intros x Ix. apply NF. cbn [log syms] in Ix. rewrite S1 in Ix. exact Ix.
Qed.

Lemma life_fold_ok (f : tstate -> sym -> tstate * option nat) l :
  (forall st s, same_tab st (fst (f st s))) -> (forall st s, NoFail st -> snd (f st s) = None) ->
  forall st0, NoFail st0 -> snd (life_fold_from f l (st0, None)) = None.
Proof.
  intros Hs Hf. unfold life_fold_from. induction l as [|s l IH]; intros st0 NF; cbn [fold_left]; [reflexivity|].
  destruct (is_activated st0 s); [|apply IH; exact NF].
  pose proof (Hf st0 s NF) as E. pose proof (Hs st0 s) as S. destruct (f st0 s) as [st1 e1]. cbn [fst snd] in *. subst e1.
  apply IH. destruct S as [S _]. apply (NoFail_same st0); assumption.
Qed.

Lemma load_ok st sb : NoFail st -> snd (load st sb) = None.
Proof. intros NF. unfold load, life_fold. apply (life_fold_ok activate); [apply activate_same|apply activate_ok|exact NF]. Qed.
Lemma unload_ok st sb : NoFail st -> snd (unload st sb) = None.
Proof. intros NF. unfold unload, life_fold. apply (life_fold_ok deactivate); [apply deactivate_same|apply deactivate_ok|exact NF]. Qed.

(* ---- closures only look at the symbols and the name map ---- *)
Lemma targets_same st st' s : same_res st st' -> targets st' s = targets st s.
Proof.
  intros S. unfold targets. apply flat_map_ext. intros np. apply map_ext. intros p. apply resolve_sym_same. exact S.
Qed.
Lemma closure_same st st' s : same_res st st' -> (closure_ok st' s <-> closure_ok st s).
Proof.
  intros S.
  assert (G : forall x, good st' x = good st x) by (intros x; unfold good; rewrite (targets_same st st' x S); reflexivity).
  assert (N : forall x, nexts st' x = nexts st x) by (intros x; unfold nexts; rewrite (targets_same st st' x S); reflexivity).
  assert (P : forall l x, path st' x l <-> path st x l).
  { induction l as [|y l IH]; intros x; cbn [path]; [tauto|]. rewrite N, IH. tauto. }
  unfold closure_ok. split; intros C l Pl; [rewrite <- G; apply C; apply P; exact Pl|rewrite G; apply C; apply P; exact Pl].
Qed.

(* ---- paths of a closed symbol are chains of references, and conversely ---- *)
Lemma path_reaches st : TI st -> forall l s, In s (syms st) -> closure_ok st s -> path st s l -> forall t, In t l -> reaches st s t.
Proof.
  intros T. induction l as [|y l IH]; intros s Is C P t It; [destruct It|]. destruct P as [Iy P].
  assert (G : good st s = true) by (apply (C [] I)). apply good_iff in G. destruct G as [_ H].
  apply in_nexts in Iy. destruct Iy as [np [p [Inp [Ip R]]]]. destruct (H np p Inp Ip) as [t' [R' E']]. rewrite R in R'. injection R' as <-.
  apply (resolve_iff st _ _ _ (ti_ids _ T) (ti_ns _ T)) in R. destruct R as [Iys RP].
  assert (Rf : refers st s y) by (split; [exact Is|]; split; [exact Iys|]; exists np, p; auto).
  assert (Iyn : In y (nexts st s)).
  { apply in_nexts. exists np, p. split; [exact Inp|]. split; [exact Ip|]. apply (resolve_iff st _ _ _ (ti_ids _ T) (ti_ns _ T)). auto. }
  destruct It as [It|It].
  - subst t. econstructor; [exact Rf|constructor].
  - econstructor; [exact Rf|]. apply (IH y Iys (closure_next st s y C Iyn) P t It).
Qed.

Lemma reaches_path st : TI st -> forall s t, reaches st s t -> s = t \/ exists l, path st s l /\ In t l.
Proof.
  intros T s t R. induction R as [s|s m t Rf R IH]; [left; reflexivity|right].
  destruct Rf as [Is [Im [np [p [Inp [Ip [RP En]]]]]]].
  assert (Imn : In m (nexts st s)).
  { apply in_nexts. exists np, p. split; [exact Inp|]. split; [exact Ip|]. apply (resolve_iff st _ _ _ (ti_ids _ T) (ti_ns _ T)). auto. }
  destruct IH as [E|[l [P It]]].
  - subst t. exists [m]. cbn. auto.
  - exists (m :: l). cbn. auto.
Qed.

(* ================= Part D: the invariant ================= *)
Record AO (st : tstate) : Prop := {
  ao_iff : forall s, In s (syms st) -> (In (s_inst s) (active_insts (events st)) <-> closure_ok st s);
  ao_present : forall i, In i (active_insts (events st)) -> exists s, In s (syms st) /\ s_inst s = i
}.

Lemma same_inst_same st a b : NoDup (map s_inst (syms st)) -> In a (syms st) -> In b (syms st) -> s_inst a = s_inst b -> a = b.
Proof.
  intros ND. induction (syms st) as [|x l IH]; intros Ia Ib E; [destruct Ia|]. inversion ND as [|? ? Nx ND']; subst.
  destruct Ia as [Ia|Ia]; destruct Ib as [Ib|Ib]; try congruence.
  - subst x. exfalso. apply Nx. rewrite E. apply in_map. exact Ib.
  - subst x. exfalso. apply Nx. rewrite <- E. apply in_map. exact Ia.
  - apply IH; assumption.
Qed.

Lemma linked_in_syms st sb s : In sb (syms st) -> In s (linked st sb) -> In s (syms st).
Proof.
  intros Isb Is. unfold linked in Is.
  pose proof (topo_elems st sb (fuel_t st) [sb] [] (reach (fuel_t st) st [sb] [] [])) as TE.
  destruct (topo (fuel_t st) st [sb] [] (reach (fuel_t st) st [sb] [] [])) as [out deg'] eqn:TP. cbn [fst] in TE.
  apply in_app_or in Is. destruct Is as [Is|Is].
  - destruct (TE (fun x Hx => match Hx with or_introl E => or_introl (eq_sym E) | or_intror F => match F with end end) s Is) as [E|F].
    + subst s. exact Isb.
    + apply (find_sym_in _ _ _ F).
  - apply in_flat_map in Is. destruct Is as [e [_ Is]]. destruct (Nat.eqb (snd e) 0); [destruct Is|].
    destruct (find_sym st (fst e)) as [n|] eqn:F; [|destruct Is]. destruct (existsb _ out); [destruct Is|]. destruct Is as [<-|[]].
    apply (find_sym_in _ _ _ F).
Qed.

Lemma app_inv_head_ev (a b c : list ev) : a ++ b = a ++ c -> b = c.
Proof. apply app_inv_head. Qed.

(* ---- loading the symbol that was just added ---- *)
Theorem add_AO st0 sb :
  TI st0 -> NoDup (map s_inst (syms st0)) -> NoFail st0 -> AO st0 ->
  ~ In (s_id sb) (map s_id (syms st0)) -> ~ In (s_inst sb) (map s_inst (syms st0)) -> s_fail sb = None ->
  TI (linked_state st0 sb) ->
  AO (fst (load (linked_state st0 sb) sb)).
Proof.
  intros T0 NI0 NF0 A0 Fid Finst Fsb T2. set (st2 := linked_state st0 sb) in *.
  destruct (linked_state_shape st0 sb) as [Sy Ev]. fold st2 in Sy, Ev.
  assert (Isb : In sb (syms st2)) by (rewrite Sy; apply in_or_app; right; left; reflexivity).
  assert (X : Ext st0 st2 sb).
  { split; [exact T0|exact T2| |].
    - intros s. rewrite Sy, in_app_iff. cbn [In]. split; [intros [H|[H|[]]]; auto|intros [H|H]; auto].
    - intros I. apply Fid. apply in_map. exact I. }
  assert (NI2 : NoDup (map s_inst (syms st2))).
  { rewrite Sy, map_app. cbn [map]. clear -NI0 Finst. induction (map s_inst (syms st0)) as [|x l IH]; cbn.
    - constructor; [intros []|constructor].
    - inversion NI0 as [|? ? Nx ND']; subst. constructor.
      + intros I. apply in_app_or in I. destruct I as [I|[I|[]]]; [exact (Nx I)|]. apply Finst. left. symmetry. exact I.
      + apply IH; [exact ND'|]. intros I. apply Finst. right. exact I. }
  assert (NF2 : NoFail st2).
  { intros s Is. rewrite Sy in Is. apply in_app_or in Is. destruct Is as [Is|[Is|[]]]; [apply NF0; exact Is|subst s; exact Fsb]. }
  pose proof (load_ok st2 sb NF2) as LO. destruct (load_exactly st2 sb LO) as [es [E HL]].
  destruct (life_fold_all activate not_unload (linked st2 sb) activate_no_unload st2 None) as [es' [E' NU]].
  change (life_fold_from activate (linked st2 sb) (st2, None)) with (load st2 sb) in E'. rewrite E in E'. apply app_inv_head in E'. subst es'.
  pose proof (load_same st2 sb) as [LS1 [_ [LS3 _]]].
  assert (SR : same_res st2 (fst (load st2 sb))) by (split; assumption).
  assert (ACT : forall i, In i (active_insts (events (fst (load st2 sb)))) <-> In i (active_insts (events st0)) \/ In (ELoad i) es).
  { intros i. rewrite E, Ev, active_app. apply act_loads. exact NU. }
  assert (ISA : forall s, In s (syms st2) -> (is_activated st2 s = true <-> closure_ok st2 s)).
  { intros s Is. apply is_activated_iff_closure; [apply (ti_ids _ T2)|exact Is]. }
  assert (NOPATH : forall s, In s (syms st2) -> closure_ok st2 s -> ~ reachable st2 sb (s_id s) -> forall l, path st2 s l -> ~ In sb l).
  { intros s Is C NR l P I. apply NR. apply (reachable_reaches st2 sb (s_id s) T2 Isb). exists s. split; [exact Is|]. split; [reflexivity|].
    apply (path_reaches st2 T2 l s Is C P sb I). }
  split.
  - intros s Is. rewrite LS1 in Is. rewrite (closure_same st2 _ s SR), ACT. split.
    + intros [H|H].
      * destruct (ao_present _ A0 _ H) as [s' [Is' Es']].
        assert (s' = s) by (apply (same_inst_same st2); auto; apply (x_syms _ _ _ X); left; exact Is'). subst s'.
        apply (closure_up_ok st0 st2 sb X). apply (ao_iff _ A0 s Is'). exact H.
      * apply HL in H. destruct H as [s' [Il [Ei [_ Ac]]]].
        assert (Is' : In s' (syms st2)) by (apply (linked_in_syms st2 sb); assumption).
        assert (s' = s) by (apply (same_inst_same st2); auto). subst s'. apply ISA; assumption.
    + intros C. destruct (in_dec Nat.eq_dec (s_id s) (ids (linked st2 sb))) as [Il|Nl].
      * right. apply HL. apply in_map_iff in Il. destruct Il as [s' [Es' Il]].
        assert (Is' : In s' (syms st2)) by (apply (linked_in_syms st2 sb); assumption).
        assert (s' = s) by (apply (same_id_same st2); auto; apply (ti_ids _ T2)). subst s'.
        exists s. split; [exact Il|]. split; [reflexivity|]. split; [apply linked_members; apply in_map; exact Il|apply ISA; assumption].
      * left. assert (NR : ~ reachable st2 sb (s_id s)) by (intros R; apply Nl; apply linked_members; exact R).
        apply (x_syms _ _ _ X) in Is. destruct Is as [Is0|Es].
        -- apply (ao_iff _ A0 s Is0). apply (closure_down st0 st2 sb X s C).
           apply NOPATH; [apply (x_syms _ _ _ X); left; exact Is0|exact C|exact NR].
        -- subst s. exfalso. apply NR. constructor.
  - intros i Hi. apply ACT in Hi. rewrite LS1. destruct Hi as [H|H].
    + destruct (ao_present _ A0 _ H) as [s [Is Es]]. exists s. split; [apply (x_syms _ _ _ X); left; exact Is|exact Es].
    + apply HL in H. destruct H as [s [Il [Ei _]]]. exists s. split; [apply (linked_in_syms st2 sb); assumption|exact Ei].
Qed.

(* ---- removing a symbol ---- *)
Lemma free_shape st id sb : find_sym st id = Some sb -> NoFail st ->
  snd (free st id) = TDone true /\
  syms (fst (free st id)) = filter (fun s => negb (Nat.eqb (s_id s) id)) (syms st) /\
  exists es, events (fst (unload st sb)) = events st ++ es /\
             events (fst (free st id)) = events st ++ es ++ (if s_node sb then [ECloseNode (s_inst sb)] else []).
Proof.
  intros F NF. unfold free. rewrite F. pose proof (unload_ok st sb NF) as UO. pose proof (unload_same st sb) as US.
  destruct (unload_exactly st sb UO) as [es [E _]].
  destruct (unload st sb) as [st1 e1]. cbn [fst snd] in *. subst e1. destruct US as [U1 _].
  destruct (unlinks_spec st1 sb) as [[S1 _] _]. cbn [fst snd syms events].
  split; [reflexivity|]. split.
  - unfold close_sym. destruct (s_node sb); cbn [syms log]; rewrite S1, U1; reflexivity.
  - exists es. split; [exact E|]. unfold close_sym. destruct (s_node sb); cbn [events log]; rewrite unlinks_events, E.
    + rewrite <- app_assoc. reflexivity.
    + rewrite app_nil_r. reflexivity.
Qed.

Theorem free_AO st id : TI st -> NoDup (map s_inst (syms st)) -> NoFail st -> AO st -> AO (fst (free st id)).
Proof.
  intros T NI NF A. destruct (find_sym st id) as [sb|] eqn:F.
  2:{ unfold free. rewrite F. exact A. }
  destruct (find_sym_in _ _ _ F) as [Isb Eid]. subst id.
  pose proof (free_TI st (s_id sb) T) as T'. destruct (free_shape st (s_id sb) sb F NF) as [_ [Sy [es [EU EF]]]].
  set (st' := fst (free st (s_id sb))) in *.
  assert (InS : forall s, In s (syms st') <-> In s (syms st) /\ s <> sb).
  { intros s. rewrite Sy, filter_In, negb_true_iff, Nat.eqb_neq. split.
    - intros [I N]. split; [exact I|]. intros E. subst s. apply N. reflexivity.
    - intros [I N]. split; [exact I|]. intros E. apply N. apply (same_id_same st); auto. apply (ti_ids _ T). }
  assert (X : Ext st' st sb).
  { split; [exact T'|exact T| |].
    - intros s. rewrite InS. split; [intros I; destruct (Nat.eq_dec (s_id s) (s_id sb)) as [E|E]; [right; apply (same_id_same st); auto; apply (ti_ids _ T)|left; split; [exact I|intros E'; subst s; apply E; reflexivity]]|intros [[I _]|E]; [exact I|subst s; exact Isb]].
    - intros I. apply InS in I. destruct I as [_ N]. apply N. reflexivity. }
  pose proof (unload_ok st sb NF) as UO. destruct (unload_exactly st sb UO) as [es2 [E2 HU]]. rewrite EU in E2. apply app_inv_head in E2. subst es2.
  destruct (life_fold_all deactivate not_load (rev (linked st sb)) deactivate_no_load st None) as [es' [E' NL]].
  change (life_fold_from deactivate (rev (linked st sb)) (st, None)) with (unload st sb) in E'. rewrite EU in E'. apply app_inv_head in E'. subst es'.
  assert (ACT : forall i, In i (active_insts (events st')) <-> In i (active_insts (events st)) /\ ~ In (EUnload i) es).
  { intros i. rewrite EF, app_assoc, active_app, active_app. rewrite <- (act_unloads es NL (active_insts (events st)) i).
    destruct (s_node sb); reflexivity. }
  assert (ISA : forall s, In s (syms st) -> (is_activated st s = true <-> closure_ok st s)).
  { intros s Is. apply is_activated_iff_closure; [apply (ti_ids _ T)|exact Is]. }
  assert (UNL : forall s, In s (syms st) -> (In (EUnload (s_inst s)) es <-> reachable st sb (s_id s) /\ closure_ok st s)).
  { intros s Is. rewrite HU. split.
    - intros [s' [Il [Ei [R Ac]]]]. assert (Is' : In s' (syms st)) by (apply (linked_in_syms st sb); assumption).
      assert (s' = s) by (apply (same_inst_same st); auto). subst s'. split; [exact R|apply ISA; assumption].
    - intros [R C]. apply linked_members in R. apply in_map_iff in R. destruct R as [s' [Es' Il]].
      assert (Is' : In s' (syms st)) by (apply (linked_in_syms st sb); assumption).
      assert (s' = s) by (apply (same_id_same st); auto; apply (ti_ids _ T)). subst s'.
      exists s. split; [exact Il|]. split; [reflexivity|]. split; [apply linked_members; apply in_map; exact Il|apply ISA; assumption]. }
  assert (CL : forall s, In s (syms st') -> (closure_ok st' s <-> closure_ok st s /\ ~ reachable st sb (s_id s))).
  { intros s Is'. pose proof Is' as Is0. apply InS in Is'. destruct Is' as [Is Ns]. split.
    - intros C. split; [apply (closure_up_ok st' st sb X); exact C|]. intros R.
      apply (reachable_reaches st sb (s_id s) T Isb) in R. destruct R as [s2 [Is2 [E2 R]]].
      assert (s2 = s) by (apply (same_id_same st); auto; apply (ti_ids _ T)). subst s2.
      destruct (reaches_path st T s sb R) as [E|[l [P I]]]; [contradiction|].
      apply (closure_up_avoids st' st sb X s Is0 C l P). right. exact I.
    - intros [C NR]. apply (closure_down st' st sb X s C). intros l P I. apply NR.
      apply (reachable_reaches st sb (s_id s) T Isb). exists s. split; [exact Is|]. split; [reflexivity|].
      apply (path_reaches st T l s Is C P sb I). }
  split.
  - intros s Is'. pose proof Is' as Is0. apply InS in Is'. destruct Is' as [Is Ns].
    rewrite ACT, (CL s Is0), (ao_iff _ A s Is), (UNL s Is). tauto.
  - intros i Hi. apply ACT in Hi. destruct Hi as [H N]. destruct (ao_present _ A _ H) as [s [Is Es]]. exists s. split; [|exact Es].
    apply InS. split; [exact Is|]. intros E. subst s. subst i. apply N. apply (UNL sb Isb). split; [constructor|apply (ao_iff _ A sb Isb); exact H].
Qed.

(* ================= Part E: every reachable state ================= *)
Record HI (st : tstate) : Prop := {
  h_ti : TI st;
  h_inst : NoDup (map s_inst (syms st));
  h_nf : NoFail st;
  h_ao : AO st
}.

Lemma HI_init : HI t_init.
Proof.
  split; [apply TI_init|constructor|intros s []|]. split; cbn; [intros s []|intros i []].
Qed.

Lemma free_HI st id : HI st -> HI (fst (free st id)).
Proof.
  intros [T NI NF A]. split.
  - apply free_TI. exact T.
  - destruct (find_sym st id) as [sb|] eqn:F.
    + destruct (free_shape st id sb F NF) as [_ [Sy _]]. rewrite Sy. apply NoDup_map_filter. exact NI.
    + unfold free. rewrite F. exact NI.
  - intros s Is. apply NF. apply (free_syms_exact st id T s). exact Is.
  - apply free_AO; assumption.
Qed.

Definition ok2_insert (st : tstate) (sb : sym) : Prop :=
  ok_insert st sb /\ ~ In (s_inst sb) (map s_inst (syms st)) /\ s_fail sb = None.

Lemma insert_HI st sb : HI st -> ok2_insert st sb -> HI (fst (insert st sb)).
Proof.
  intros H [[OKsb NFr] [Fi Ff]]. rewrite insert_unfold. pose proof (free_HI st (s_id sb) H) as H0.
  pose proof (free_syms_exact st (s_id sb) (h_ti _ H)) as FS. pose proof (free_done_absent st (s_id sb) (h_ti _ H)) as FA.
  destruct (free st (s_id sb)) as [st0 [b|e]]; cbn [fst snd] in *; [|exact H0].
  specialize (FA (ex_intro _ b eq_refl)). destruct H0 as [T0 NI0 NF0 A0].
  assert (Fi0 : ~ In (s_inst sb) (map s_inst (syms st0))).
  { intros I. apply Fi. apply in_map_iff in I. destruct I as [s [Es Is]]. apply in_map_iff. exists s. split; [exact Es|]. apply FS in Is. tauto. }
  assert (T2 : TI (linked_state st0 sb)).
  { apply add_TI; auto. intros s n Is. apply NFr; [apply FS in Is; tauto|]. intros E. apply FA. rewrite <- E. apply in_map. exact Is. }
  pose proof (add_AO st0 sb T0 NI0 NF0 A0 FA Fi0 Ff T2) as A3.
  pose proof (load_same (linked_state st0 sb) sb) as L. destruct (linked_state_shape st0 sb) as [Sy _].
  assert (S3 : syms (fst (load (linked_state st0 sb) sb)) = syms st0 ++ [sb]) by (destruct L as [L1 _]; rewrite L1; exact Sy).
  assert (R : HI (fst (load (linked_state st0 sb) sb))).
  { split.
    - apply (TI_same_tab _ _ L T2).
    - rewrite S3, map_app. cbn [map]. clear -NI0 Fi0. induction (map s_inst (syms st0)) as [|x l IH]; cbn.
      + constructor; [intros []|constructor].
      + inversion NI0 as [|? ? Nx ND']; subst. constructor.
        * intros I. apply in_app_or in I. destruct I as [I|[I|[]]]; [exact (Nx I)|]. apply Fi0. left. symmetry. exact I.
        * apply IH; [exact ND'|]. intros I. apply Fi0. right. exact I.
    - intros s Is. rewrite S3 in Is. apply in_app_or in Is. destruct Is as [Is|[Is|[]]]; [apply NF0; exact Is|subst s; exact Ff].
    - exact A3. }
  destruct (load (linked_state st0 sb) sb) as [st3 [e|]]; exact R.
Qed.

Lemma close_HI st : HI st -> HI (fst (close_table st)).
Proof.
  intros T. unfold close_table.
  assert (G : forall ids acc, HI (fst acc) ->
    HI (fst (fold_left (fun (acc : tstate * tres) (id : nat) =>
      match snd acc with
      | TFail _ => acc
      | TDone _ => match free (fst acc) id with (st', TFail e) => (st', TFail e) | (st', TDone _) => (st', TDone true) end
      end) ids acc))).
  { induction ids as [|id ids IH]; intros acc Ta; cbn [fold_left]; [exact Ta|]. apply IH.
    destruct (snd acc); [|exact Ta]. pose proof (free_HI (fst acc) id Ta) as F. destruct (free (fst acc) id) as [st' [b|e]]; exact F. }
  apply G. exact T.
Qed.

Definition ok2_op (st : tstate) (op : top) : Prop := match op with TInsert sb => ok2_insert st sb | _ => True end.
Fixpoint wf2_from (st : tstate) (ops : list top) : Prop :=
  match ops with [] => True | op :: rest => ok2_op st op /\ wf2_from (t_step st op) rest end.

Lemma step_HI st op : HI st -> ok2_op st op -> HI (t_step st op).
Proof.
  intros T O. unfold t_step, t_step_res. destruct op as [sb|id|].
  - apply insert_HI; assumption.
  - apply free_HI; assumption.
  - apply close_HI; assumption.
Qed.

Theorem t_run_HI ops : wf2_from t_init ops -> HI (t_run ops).
Proof.
  unfold t_run. generalize HI_init. generalize t_init. induction ops as [|op ops IH]; intros st T W; cbn [fold_left]; [exact T|].
  destruct W as [O W]. apply IH; [apply step_HI; assumption|exact W].
Qed.

(* At every point of a well-formed history whose lifecycle flows succeed, the symbols with a load notification and no
   later unload are exactly the present symbols whose whole reference closure is present; and closing the table leaves
   none. *)
Theorem active_exactly ops : wf2_from t_init ops ->
  (forall s, In s (syms (t_run ops)) -> (In (s_inst s) (active_insts (events (t_run ops))) <-> closure_ok (t_run ops) s)) /\
  (forall i, In i (active_insts (events (t_run ops))) -> exists s, In s (syms (t_run ops)) /\ s_inst s = i).
Proof. intros W. destruct (t_run_HI ops W) as [_ _ _ [A B]]. split; assumption. Qed.

(* the computable form of the history condition *)
Definition ok2_op_b (st : tstate) (op : top) : bool :=
  match op with
  | TInsert sb => ok_op_b st (TInsert sb) && negb (existsb (fun s => Nat.eqb (s_inst s) (s_inst sb)) (syms st))
                  && match s_fail sb with None => true | Some _ => false end
  | _ => true
  end.
Fixpoint wf2_from_b (st : tstate) (ops : list top) : bool :=
  match ops with [] => true | op :: rest => ok2_op_b st op && wf2_from_b (t_step st op) rest end.

Lemma wf2_from_b_sound : forall ops st, wf2_from_b st ops = true -> wf2_from st ops.
Proof.
  induction ops as [|op ops IH]; intros st H; cbn [wf2_from_b wf2_from] in *; [exact I|].
  apply andb_prop in H. destruct H as [H1 H2]. split; [|apply IH; exact H2].
  destruct op as [sb|id|]; cbn [ok2_op_b ok2_op] in *; try exact I.
  apply andb_prop in H1. destruct H1 as [H1 H3]. apply andb_prop in H1. destruct H1 as [H1 H4].
  split; [apply (ok_op_b_sound st (TInsert sb)); exact H1|]. split.
  - intros I. apply in_map_iff in I. destruct I as [s [Es Is]]. apply negb_true_iff in H4.
    assert (X : existsb (fun s => Nat.eqb (s_inst s) (s_inst sb)) (syms st) = true) by (apply existsb_exists; exists s; split; [exact Is|apply Nat.eqb_eq; exact Es]).
    congruence.
  - destruct (s_fail sb); [discriminate|reflexivity].
Qed.

(* ---- closing the table ---- *)
Lemma close_order_all st id : In id (map s_id (syms st)) -> In id (close_order st).
Proof.
  assert (G : forall fuel remaining acc, In id (acc ++ map s_id remaining) ->
    In id ((fix order (fuel : nat) (remaining : list sym) (acc : list nat) : list nat :=
      match fuel with
      | O => acc ++ map s_id remaining
      | S f =>
          match find (fun s => forallb (fun ir : nat * list rref =>
                                 forallb (fun r => mem (rr_id r) acc || negb (existsb (fun x => Nat.eqb (s_id x) (rr_id r)) (syms st))) (snd ir))
                               (get_refs st (s_id s))) remaining with
          | Some s => order f (filter (fun x => negb (Nat.eqb (s_id x) (s_id s))) remaining) (acc ++ [s_id s])
          | None => acc ++ map s_id remaining
          end
      end) fuel remaining acc)).
  { induction fuel as [|f IH]; intros remaining acc H; [exact H|].
    destruct (find _ remaining) as [s|]; [|exact H]. apply IH.
    apply in_app_or in H. destruct H as [H|H].
    - apply in_or_app. left. apply in_or_app. left. exact H.
    - destruct (Nat.eq_dec id (s_id s)) as [E|E].
      + apply in_or_app. left. apply in_or_app. right. left. symmetry. exact E.
      + apply in_or_app. right. apply in_map_iff in H. destruct H as [x [Ex Ix]]. apply in_map_iff. exists x. split; [exact Ex|].
        apply filter_In. split; [exact Ix|]. apply negb_true_iff, Nat.eqb_neq. congruence. }
  intros H. exact (G (S (length (syms st))) (syms st) [] H).
Qed.

Lemma close_frees_all st : HI st -> syms (fst (close_table st)) = [].
Proof.
  intros H. unfold close_table.
  assert (G : forall ids acc, HI (fst acc) -> (exists b, snd acc = TDone b) ->
    forall s, In s (syms (fst (fold_left (fun (acc : tstate * tres) (id : nat) =>
      match snd acc with
      | TFail _ => acc
      | TDone _ => match free (fst acc) id with (st', TFail e) => (st', TFail e) | (st', TDone _) => (st', TDone true) end
      end) ids acc))) -> In s (syms (fst acc)) /\ ~ In (s_id s) ids).
  { induction ids as [|id ids IH]; intros acc Ha [b Eb] s Is; cbn [fold_left] in Is; [split; [exact Is|intros []]|].
    rewrite Eb in Is. pose proof (free_HI (fst acc) id Ha) as Hf. pose proof (free_syms_exact (fst acc) id (h_ti _ Ha)) as FS.
    assert (FD : snd (free (fst acc) id) = TDone true \/ (find_sym (fst acc) id = None /\ free (fst acc) id = (fst acc, TDone false))).
    { destruct (find_sym (fst acc) id) as [sb|] eqn:F.
      - left. apply (free_shape (fst acc) id sb F (h_nf _ Ha)).
      - right. split; [reflexivity|]. unfold free. rewrite F. reflexivity. }
    destruct (free (fst acc) id) as [st' r] eqn:Fr. cbn [fst snd] in *.
    assert (exists b', r = TDone b') by (destruct FD as [E|[_ E]]; [eauto|injection E as _ ->; eauto]).
    destruct H0 as [b' ->].
    destruct (IH (st', TDone true) Hf (ex_intro _ true eq_refl) s Is) as [I1 N1]. cbn [fst] in I1.
    apply FS in I1. destruct I1 as [I1 D]. split; [exact I1|]. intros [E|E]; [|exact (N1 E)].
    destruct FD as [E1|[F1 _]].
    + apply (D E1). symmetry. exact E.
    + assert (find_sym (fst acc) id = Some s) by (apply (find_sym_iff (fst acc) id s (ti_ids _ (h_ti _ Ha))); auto). congruence. }
  destruct (syms (fst (fold_left _ (close_order st) (st, TDone true)))) as [|s l] eqn:E; [reflexivity|exfalso].
  destruct (G (close_order st) (st, TDone true) H (ex_intro _ true eq_refl) s) as [I N]; [rewrite E; left; reflexivity|].
  apply N. apply close_order_all. apply in_map. exact I.
Qed.

Theorem close_unloads_all ops : wf2_from t_init ops ->
  syms (t_step (t_run ops) TClose) = [] /\ active_insts (events (t_step (t_run ops) TClose)) = [].
Proof.
  intros W. pose proof (t_run_HI ops W) as H. unfold t_step, t_step_res.
  pose proof (close_frees_all (t_run ops) H) as E. split; [exact E|].
  pose proof (close_HI (t_run ops) H) as Hc. destruct (active_insts (events (fst (close_table (t_run ops))))) as [|i l] eqn:A; [reflexivity|exfalso].
  destruct (ao_present _ (h_ao _ Hc) i) as [s [Is _]]; [rewrite A; left; reflexivity|]. rewrite E in Is. destruct Is.
Qed.

(* ================= Part F: load and unload notifications alternate ================= *)
Definition ev_ok (act : list nat) (e : ev) : Prop :=
  match e with ELoad i => ~ In i act | EUnload i => In i act | _ => True end.
(* every load notification finds the instance inactive, every unload notification finds it active *)
Definition wb (es : list ev) : Prop := forall p e q, es = p ++ e :: q -> ev_ok (active_insts p) e.

Lemma wb_app ev es : wb ev -> (forall p e q, es = p ++ e :: q -> ev_ok (active_insts (ev ++ p)) e) -> wb (ev ++ es).
Proof.
  intros W H p e q E. apply app_eq_app in E. destruct E as [l [[E1 E2]|[E1 E2]]].
  - destruct l as [|x l].
    + cbn in E2. rewrite app_nil_r in E1. subst p. specialize (H [] e q (eq_sym E2)). rewrite app_nil_r in H. exact H.
    + cbn in E2. injection E2 as <- E2. apply (W p e l). exact E1.
  - subst p. apply (H l e q). exact E2.
Qed.

Lemma in_loads i es : In (ELoad i) es -> In i (loads es).
Proof. intros H. unfold loads. apply in_flat_map. exists (ELoad i). split; [exact H|left; reflexivity]. Qed.
Lemma in_unloads i es : In (EUnload i) es -> In i (unloads es).
Proof. intros H. unfold unloads. apply in_flat_map. exists (EUnload i). split; [exact H|left; reflexivity]. Qed.
Lemma loads_app a b : loads (a ++ b) = loads a ++ loads b. Proof. apply flat_map_app. Qed.
Lemma unloads_app a b : unloads (a ++ b) = unloads a ++ unloads b. Proof. apply flat_map_app. Qed.

Lemma NoDup_app_mid {A} (a b : list A) x : NoDup (a ++ x :: b) -> ~ In x a.
Proof.
  induction a as [|y a IH]; cbn; intros ND; [intros []|]. inversion ND as [|? ? Ny ND']; subst. intros [E|I].
  - subst y. apply Ny. apply in_or_app. right. left. reflexivity.
  - exact (IH ND' I).
Qed.

Lemma subseq_nodup {A} (l' l : list A) : subseq l' l -> NoDup l -> NoDup l'.
Proof.
  induction 1 as [|x l' l S IH|x l' l S IH]; intros ND; [constructor| |]; inversion ND as [|? ? Nx ND']; subst; [apply IH; exact ND'|].
  constructor; [|apply IH; exact ND']. intros I. apply Nx. apply (subseq_in _ _ _ S). exact I.
Qed.

Lemma NoDup_map_inj {A B} (f : A -> B) l : NoDup l -> (forall a b, In a l -> In b l -> f a = f b -> a = b) -> NoDup (map f l).
Proof.
  induction l as [|x l IH]; intros ND Inj; [constructor|]. inversion ND as [|? ? Nx ND']; subst. cbn. constructor.
  - intros I. apply in_map_iff in I. destruct I as [y [E Iy]]. assert (y = x) by (apply Inj; [right; exact Iy|left; reflexivity|exact E]). subst y. contradiction.
  - apply IH; [exact ND'|]. intros a b Ia Ib. apply Inj; right; assumption.
Qed.

Lemma NoDup_of_map {A B} (f : A -> B) l : NoDup (map f l) -> NoDup l.
Proof.
  induction l as [|x l IH]; cbn; intros ND; [constructor|]. inversion ND as [|? ? Nx ND']; subst. constructor; [|apply IH; exact ND'].
  intros I. apply Nx. apply in_map. exact I.
Qed.

Lemma linked_insts_nodup st sb : NoDup (map s_inst (syms st)) -> In sb (syms st) -> NoDup (map s_inst (linked st sb)).
Proof.
  intros NI Isb. apply NoDup_map_inj.
  - apply (NoDup_of_map s_id). apply linked_nodup.
  - intros a b Ia Ib E. apply (same_inst_same st); auto; apply (linked_in_syms st sb); assumption.
Qed.

Lemma subseq_map {A B} (f : A -> B) l' l : subseq l' l -> subseq (map f l') (map f l).
Proof. induction 1; cbn; constructor; assumption. Qed.

Theorem add_wb st0 sb :
  TI st0 -> NoDup (map s_inst (syms st0)) -> NoFail st0 -> AO st0 ->
  ~ In (s_id sb) (map s_id (syms st0)) -> ~ In (s_inst sb) (map s_inst (syms st0)) -> s_fail sb = None ->
  TI (linked_state st0 sb) -> wb (events st0) ->
  wb (events (fst (load (linked_state st0 sb) sb))).
Proof.
  intros T0 NI0 NF0 A0 Fid Finst Fsb T2 W0. set (st2 := linked_state st0 sb) in *.
  destruct (linked_state_shape st0 sb) as [Sy Ev]. fold st2 in Sy, Ev.
  assert (Isb : In sb (syms st2)) by (rewrite Sy; apply in_or_app; right; left; reflexivity).
  assert (X : Ext st0 st2 sb).
  { split; [exact T0|exact T2| |].
    - intros s. rewrite Sy, in_app_iff. cbn [In]. split; [intros [H|[H|[]]]; auto|intros [H|H]; auto].
    - intros I. apply Fid. apply in_map. exact I. }
  assert (NI2 : NoDup (map s_inst (syms st2))).
  { rewrite Sy, map_app. cbn [map]. clear -NI0 Finst. induction (map s_inst (syms st0)) as [|x l IH]; cbn.
    - constructor; [intros []|constructor].
    - inversion NI0 as [|? ? Nx ND']; subst. constructor.
      + intros I. apply in_app_or in I. destruct I as [I|[I|[]]]; [exact (Nx I)|]. apply Finst. left. symmetry. exact I.
      + apply IH; [exact ND'|]. intros I. apply Finst. right. exact I. }
  assert (NF2 : NoFail st2).
  { intros s Is. rewrite Sy in Is. apply in_app_or in Is. destruct Is as [Is|[Is|[]]]; [apply NF0; exact Is|subst s; exact Fsb]. }
  pose proof (load_ok st2 sb NF2) as LO. destruct (load_exactly st2 sb LO) as [es [E HL]].
  destruct (life_fold_all activate not_unload (linked st2 sb) activate_no_unload st2 None) as [es' [E' NU]].
  change (life_fold_from activate (linked st2 sb) (st2, None)) with (load st2 sb) in E'. rewrite E in E'. apply app_inv_head in E'. subst es'.
  destruct (life_fold_sel activate loads (linked st2 sb) activate_sel st2 None) as [l' [SS EL]].
  change (life_fold_from activate (linked st2 sb) (st2, None)) with (load st2 sb) in EL. rewrite E, loads_app in EL. apply app_inv_head in EL.
  assert (NDL : NoDup (loads es)).
  { rewrite EL. apply (subseq_nodup _ _ (subseq_map s_inst _ _ SS)). apply linked_insts_nodup; assumption. }
  rewrite E, Ev. apply wb_app; [exact W0|]. intros p e q Es. destruct e as [i|i|i|i pn]; cbn [ev_ok]; try exact I.
  - assert (NUp : Forall not_unload p) by (rewrite Es in NU; apply Forall_app in NU; tauto).
    rewrite active_app, (act_loads p NUp). intros [H|H].
    + (* active before: then its closure was present before, and nothing it reaches is new *)
      destruct (ao_present _ A0 _ H) as [s' [Is' Es']].
      assert (IL : In (ELoad i) es) by (rewrite Es; apply in_or_app; right; left; reflexivity).
      apply HL in IL. destruct IL as [s [Il [Ei [R _]]]].
      assert (Is : In s (syms st2)) by (apply (linked_in_syms st2 sb); assumption).
      assert (s' = s) by (apply (same_inst_same st2); auto; [apply (x_syms _ _ _ X); left; exact Is'|congruence]). subst s'.
      assert (C0 : closure_ok st0 s) by (apply (ao_iff _ A0 s Is'); rewrite Ei; exact H).
      apply (reachable_reaches st2 sb (s_id s) T2 Isb) in R. destruct R as [s2 [Is2 [E2 R]]].
      assert (s2 = s) by (apply (same_id_same st2); auto; apply (ti_ids _ T2)). subst s2.
      destruct (reaches_path st2 T2 s sb R) as [Eq|[l [P Il']]].
      * subst s. exact (x_new _ _ _ X Is').
      * apply (closure_up_avoids st0 st2 sb X s Is' C0 l P). right. exact Il'.
    + apply in_loads in H. rewrite Es, loads_app in NDL. cbn [loads flat_map app] in NDL. exact (NoDup_app_mid _ _ _ NDL H).
  - rewrite Es in NU. apply Forall_app in NU. destruct NU as [_ NU]. inversion NU as [|? ? N _]. destruct N.
Qed.

Theorem free_wb st id : TI st -> NoDup (map s_inst (syms st)) -> NoFail st -> AO st -> wb (events st) -> wb (events (fst (free st id))).
Proof.
  intros T NI NF A W. destruct (find_sym st id) as [sb|] eqn:F.
  2:{ unfold free. rewrite F. exact W. }
  destruct (find_sym_in _ _ _ F) as [Isb Eid]. subst id.
  destruct (free_shape st (s_id sb) sb F NF) as [_ [_ [es [EU EF]]]].
  pose proof (unload_ok st sb NF) as UO. destruct (unload_exactly st sb UO) as [es2 [E2 HU]]. rewrite EU in E2. apply app_inv_head in E2. subst es2.
  destruct (life_fold_all deactivate not_load (rev (linked st sb)) deactivate_no_load st None) as [es' [E' NL]].
  change (life_fold_from deactivate (rev (linked st sb)) (st, None)) with (unload st sb) in E'. rewrite EU in E'. apply app_inv_head in E'. subst es'.
  destruct (life_fold_sel deactivate unloads (rev (linked st sb)) deactivate_sel st None) as [l' [SS EL]].
  change (life_fold_from deactivate (rev (linked st sb)) (st, None)) with (unload st sb) in EL. rewrite EU, unloads_app in EL. apply app_inv_head in EL.
  assert (NDU : NoDup (unloads es)).
  { rewrite EL. apply (subseq_nodup _ _ (subseq_map s_inst _ _ SS)). rewrite map_rev. apply NoDup_rev. apply linked_insts_nodup; assumption. }
  rewrite EF, app_assoc. apply wb_app.
  - apply wb_app; [exact W|]. intros p e q Es. destruct e as [i|i|i|i pn]; cbn [ev_ok]; try exact I.
    + rewrite Es in NL. apply Forall_app in NL. destruct NL as [_ NL]. inversion NL as [|? ? N _]. destruct N.
    + assert (NLp : Forall not_load p) by (rewrite Es in NL; apply Forall_app in NL; tauto).
      rewrite active_app, (act_unloads p NLp). split.
      * assert (IU : In (EUnload i) es) by (rewrite Es; apply in_or_app; right; left; reflexivity).
        apply HU in IU. destruct IU as [s [Il [Ei [_ Ac]]]].
        assert (Is : In s (syms st)) by (apply (linked_in_syms st sb); assumption).
        rewrite <- Ei. apply (ao_iff _ A s Is). apply is_activated_iff_closure; [apply (ti_ids _ T)|exact Is|exact Ac].
      * intros H. apply in_unloads in H. rewrite Es, unloads_app in NDU. cbn [unloads flat_map app] in NDU. exact (NoDup_app_mid _ _ _ NDU H).
  - intros p e q Es. destruct (s_node sb).
    + destruct p as [|x p]; [|destruct p; discriminate]. cbn in Es. injection Es as <- _. exact I.
    + destruct p; discriminate.
Qed.

Definition HW (st : tstate) : Prop := HI st /\ wb (events st).

Lemma free_HW st id : HW st -> HW (fst (free st id)).
Proof. intros [H W]. split; [apply free_HI; exact H|]. destruct H as [T NI NF A]. apply free_wb; assumption. Qed.

Lemma insert_HW st sb : HW st -> ok2_insert st sb -> HW (fst (insert st sb)).
Proof.
  intros HWs O. split; [apply insert_HI; [apply HWs|exact O]|].
  destruct O as [[OKsb NFr] [Fi Ff]]. pose proof (free_HW st (s_id sb) HWs) as [H0 W0]. destruct HWs as [H _].
  rewrite insert_unfold. pose proof (free_syms_exact st (s_id sb) (h_ti _ H)) as FS. pose proof (free_done_absent st (s_id sb) (h_ti _ H)) as FA.
  destruct (free st (s_id sb)) as [st0 [b|e]]; cbn [fst snd] in *; [|exact W0].
  specialize (FA (ex_intro _ b eq_refl)). destruct H0 as [T0 NI0 NF0 A0].
  assert (Fi0 : ~ In (s_inst sb) (map s_inst (syms st0))).
  { intros I. apply Fi. apply in_map_iff in I. destruct I as [s [Es Is]]. apply in_map_iff. exists s. split; [exact Es|]. apply FS in Is. tauto. }
  assert (T2 : TI (linked_state st0 sb)).
  { apply add_TI; auto. intros s n Is. apply NFr; [apply FS in Is; tauto|]. intros E. apply FA. rewrite <- E. apply in_map. exact Is. }
  pose proof (add_wb st0 sb T0 NI0 NF0 A0 FA Fi0 Ff T2 W0) as W3.
  destruct (load (linked_state st0 sb) sb) as [st3 [e|]]; exact W3.
Qed.

Lemma close_HW st : HW st -> HW (fst (close_table st)).
Proof.
  intros T. unfold close_table.
  assert (G : forall ids acc, HW (fst acc) ->
    HW (fst (fold_left (fun (acc : tstate * tres) (id : nat) =>
      match snd acc with
      | TFail _ => acc
      | TDone _ => match free (fst acc) id with (st', TFail e) => (st', TFail e) | (st', TDone _) => (st', TDone true) end
      end) ids acc))).
  { induction ids as [|id ids IH]; intros acc Ta; cbn [fold_left]; [exact Ta|]. apply IH.
    destruct (snd acc); [|exact Ta]. pose proof (free_HW (fst acc) id Ta) as F. destruct (free (fst acc) id) as [st' [b|e]]; exact F. }
  apply G. exact T.
Qed.

(* For every instance, along every well-formed history whose flows succeed: a load notification is only ever sent while
   the instance is inactive, an unload notification only while it is active - so its notifications alternate, starting
   with a load. *)
Theorem notifications_alternate ops : wf2_from t_init ops -> wb (events (t_run ops)).
Proof.
  intros W. assert (G : HW (t_run ops)); [|apply G].
  unfold t_run. assert (I0 : HW t_init) by (split; [apply HI_init|]; intros p e q E; destruct p; discriminate).
  revert W I0. generalize t_init. induction ops as [|op ops IH]; intros st W T; cbn [fold_left]; [exact T|].
  destruct W as [O W]. apply IH; [exact W|]. unfold t_step, t_step_res. destruct op as [sb|id|].
  - apply insert_HW; assumption.
  - apply free_HW; assumption.
  - apply close_HW; assumption.
Qed.
