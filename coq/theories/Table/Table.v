(* Model of pkg/symbol/table.go (repaired tree): symbols, namespaces, references, port wiring,
   load/unload with the reference closure, lifecycle flows.  Go map iteration order is fixed here
   (ports and symbols are visited in list order); the correspondence compares sets and per-symbol
   sequences, which do not depend on it. *)
From Coq Require Import List NArith ZArith Bool Lia.
Import ListNotations.

(* spec.Port inside a spec: a reference to an in-port of another symbol, by id or by name *)
Record pref := mkpref { pr_id : option nat; pr_name : option nat; pr_port : nat }.

(* a symbol instance: every Insert creates a new instance with its own node and ports *)
Record sym := mksym {
  s_inst : nat;
  s_id : nat;
  s_ns : nat;
  s_name : option nat;
  s_ports : list (nat * list pref);     (* spec ports: port name -> references *)
  s_node : bool;                        (* has a node *)
  s_outs : list nat;                    (* out-port names the node offers *)
  s_ins : list nat;                     (* in-port names the node offers *)
  s_fail : option nat                   (* as a lifecycle responder: the error it answers with (None = success) *)
}.

(* an entry of Table.references[target id][in-port]: who refers to it *)
Record rref := mkrref { rr_id : nat; rr_name : option nat; rr_port : nat }.

Inductive ev :=
| ELoad (inst : nat) | EUnload (inst : nat) | ECloseNode (inst : nat)
| EExec (inst : nat) (port : nat).       (* a lifecycle flow was run for the symbol *)

Record tstate := mkt {
  syms : list sym;                                   (* Table.symbols (by id; at most one per id) *)
  nsmap : list (nat * nat * nat);                    (* Table.namespaces: (namespace, name) -> id *)
  refs : list (nat * list (nat * list rref));        (* Table.references: target id -> in-port -> referrers *)
  links : list (nat * nat * nat * nat);              (* port wiring: (source inst, out-port, target inst, in-port) *)
  events : list ev
}.

Definition t_init : tstate := mkt [] [] [] [] [].

Definition find_sym (st : tstate) (id : nat) : option sym := find (fun s => Nat.eqb (s_id s) id) (syms st).

Definition ns_lookup (st : tstate) (ns name : nat) : option nat :=
  match find (fun e : nat * nat * nat => Nat.eqb (fst (fst e)) ns && Nat.eqb (snd (fst e)) name) (nsmap st) with
  | Some e => Some (snd e)
  | None => None
  end.

(* id := port.ID; if id == uuid.Nil { id = t.lookup(ns, port.Name) } *)
Definition resolve (st : tstate) (ns : nat) (p : pref) : option nat :=
  match pr_id p with
  | Some id => Some id
  | None => match pr_name p with Some n => ns_lookup st ns n | None => None end
  end.

Definition resolve_sym (st : tstate) (ns : nat) (p : pref) : option sym :=
  match resolve st ns p with Some id => find_sym st id | None => None end.

Definition opt_eqb (a b : option nat) : bool :=
  match a, b with Some x, Some y => Nat.eqb x y | None, None => true | _, _ => false end.

(* references[target][inport] += r *)
Definition add_ref (rs : list (nat * list (nat * list rref))) (target inport : nat) (r : rref)
  : list (nat * list (nat * list rref)) :=
  let upd_in := fix upd_in (l : list (nat * list rref)) : list (nat * list rref) :=
    match l with
    | [] => [(inport, [r])]
    | (p, rl) :: t => if Nat.eqb p inport then (p, rl ++ [r]) :: t else (p, rl) :: upd_in t
    end in
  (fix upd (l : list (nat * list (nat * list rref))) : list (nat * list (nat * list rref)) :=
     match l with
     | [] => [(target, upd_in [])]
     | (id, m) :: t => if Nat.eqb id target then (id, upd_in m) :: t else (id, m) :: upd t
     end) rs.

Definition get_refs (st : tstate) (id : nat) : list (nat * list rref) :=
  match find (fun e : nat * list (nat * list rref) => Nat.eqb (fst e) id) (refs st) with
  | Some e => snd e
  | None => []
  end.

Definition add_link (ls : list (nat * nat * nat * nat)) (l : nat * nat * nat * nat) : list (nat * nat * nat * nat) :=
  if existsb (fun x : nat * nat * nat * nat =>
                let '(a, b, c, d) := x in let '(a', b', c', d') := l in
                Nat.eqb a a' && Nat.eqb b b' && Nat.eqb c c' && Nat.eqb d d') ls
  then ls else ls ++ [l].

Definition mem (x : nat) (l : list nat) : bool := existsb (Nat.eqb x) l.

(* links(sb), first half: sb's own references *)
Definition link_own_ref (sb : sym) (outname : nat) (st : tstate) (p : pref) : tstate :=
  match resolve_sym st (s_ns sb) p with
  | Some ref =>
      if Nat.eqb (s_ns ref) (s_ns sb) then
        let ls := if mem outname (s_outs sb) && s_node sb && s_node ref && mem (pr_port p) (s_ins ref)
                  then add_link (links st) (s_inst sb, outname, s_inst ref, pr_port p) else links st in
        mkt (syms st) (nsmap st)
            (add_ref (refs st) (s_id ref) (pr_port p) (mkrref (s_id sb) (pr_name p) outname))
            ls (events st)
      else st
  | None => st
  end.

Definition links_own (st : tstate) (sb : sym) : tstate :=
  fold_left (fun st (np : nat * list pref) => fold_left (link_own_ref sb (fst np)) (snd np) st) (s_ports sb) st.

(* links(sb), second half: references of every present symbol of the namespace to sb *)
Definition link_in_ref (sb ref : sym) (outname : nat) (st : tstate) (p : pref) : tstate :=
  if opt_eqb (pr_id p) (Some (s_id sb)) ||
     (match pr_name p with Some n => opt_eqb (Some n) (s_name sb) | None => false end)
  then
    let ls := if mem outname (s_outs ref) && s_node ref && s_node sb && mem (pr_port p) (s_ins sb)
              then add_link (links st) (s_inst ref, outname, s_inst sb, pr_port p) else links st in
    mkt (syms st) (nsmap st)
        (add_ref (refs st) (s_id sb) (pr_port p) (mkrref (s_id ref) (pr_name p) outname))
        ls (events st)
  else st.

Definition link_in_sym (sb : sym) (st : tstate) (ref : sym) : tstate :=
  if negb (Nat.eqb (s_ns ref) (s_ns sb)) then st
  else fold_left (fun st (np : nat * list pref) => fold_left (link_in_ref sb ref (fst np)) (snd np) st) (s_ports ref) st.

Definition links_in (st : tstate) (sb : sym) : tstate := fold_left (link_in_sym sb) (syms st) st.

(* unlinks(sb) *)
Definition unlink_ref (sb : sym) (outname : nat) (st : tstate) (p : pref) : tstate :=
  match resolve_sym st (s_ns sb) p with
  | Some ref =>
      let ls := filter (fun x : nat * nat * nat * nat =>
                          let '(a, b, c, d) := x in
                          negb (Nat.eqb a (s_inst sb) && Nat.eqb b outname && Nat.eqb c (s_inst ref) && Nat.eqb d (pr_port p)))
                       (links st) in
      let rs := map (fun e : nat * list (nat * list rref) =>
                  if Nat.eqb (fst e) (s_id ref) then
                    (fst e, flat_map (fun ir : nat * list rref =>
                               if Nat.eqb (fst ir) (pr_port p) then
                                 match filter (fun r => negb (Nat.eqb (rr_id r) (s_id sb)) || negb (Nat.eqb (rr_port r) outname)) (snd ir) with
                                 | [] => []
                                 | keep => [(fst ir, keep)]
                                 end
                               else [ir]) (snd e))
                  else e) (refs st) in
      mkt (syms st) (nsmap st) rs ls (events st)
  | None => st
  end.

Definition unlinks (st : tstate) (sb : sym) : tstate :=
  let st1 := fold_left (fun st (np : nat * list pref) => fold_left (unlink_ref sb (fst np)) (snd np) st) (s_ports sb) st in
  mkt (syms st1) (nsmap st1) (filter (fun e => negb (Nat.eqb (fst e) (s_id sb))) (refs st1)) (links st1) (events st1).

(* linked(sb): sb and everything that (transitively) refers to it, referenced symbols first *)
Fixpoint reach (fuel : nat) (st : tstate) (queue : list sym) (visited : list nat) (deg : list (nat * nat))
  : list (nat * nat) :=
  match fuel with
  | O => deg
  | S f =>
      match queue with
      | [] => deg
      | curr :: q =>
          if mem (s_id curr) visited then reach f st q visited deg
          else
            let nexts := flat_map (fun ir : nat * list rref =>
                           flat_map (fun r => match find_sym st (rr_id r) with Some n => [n] | None => [] end) (snd ir))
                         (get_refs st (s_id curr)) in
            let deg' := fold_left (fun d (n : sym) =>
                          if existsb (fun e : nat * nat => Nat.eqb (fst e) (s_id n)) d
                          then map (fun e : nat * nat => if Nat.eqb (fst e) (s_id n) then (fst e, S (snd e)) else e) d
                          else d ++ [(s_id n, 1)]) nexts deg in
            reach f st (q ++ nexts) (s_id curr :: visited) deg'
      end
  end.

Fixpoint topo (fuel : nat) (st : tstate) (queue : list sym) (out : list sym) (deg : list (nat * nat))
  : list sym * list (nat * nat) :=
  match fuel with
  | O => (out, deg)
  | S f =>
      match queue with
      | [] => (out, deg)
      | curr :: q =>
          if existsb (fun s => Nat.eqb (s_id s) (s_id curr)) out then topo f st q out deg
          else
            let nexts := flat_map (fun ir : nat * list rref =>
                           flat_map (fun r => match find_sym st (rr_id r) with Some n => [n] | None => [] end) (snd ir))
                         (get_refs st (s_id curr)) in
            let '(deg', newq) := fold_left (fun (acc : list (nat * nat) * list sym) (n : sym) =>
                          let '(d, nq) := acc in
                          let d' := map (fun e : nat * nat => if Nat.eqb (fst e) (s_id n) then (fst e, pred (snd e)) else e) d in
                          let now := match find (fun e : nat * nat => Nat.eqb (fst e) (s_id n)) d' with Some e => snd e | None => 0 end in
                          (d', if Nat.eqb now 0 then nq ++ [n] else nq)) nexts (deg, []) in
            topo f st (q ++ newq) (out ++ [curr]) deg'
      end
  end.

Definition fuel_t (st : tstate) : nat :=
  let n := length (syms st) in
  let e := fold_left (fun k (x : nat * list (nat * list rref)) =>
             k + fold_left (fun k2 (ir : nat * list rref) => k2 + length (snd ir)) (snd x) 0) (refs st) 0 in
  S (n + e) * S (n + e).

Definition linked (st : tstate) (sb : sym) : list sym :=
  let deg := reach (fuel_t st) st [sb] [] [] in
  let '(out, deg') := topo (fuel_t st) st [sb] [] deg in
  out ++ flat_map (fun e : nat * nat =>
           if Nat.eqb (snd e) 0 then [] else
           match find_sym st (fst e) with
           | Some n => if existsb (fun s => Nat.eqb (s_id s) (s_id n)) out then [] else [n]
           | None => []
           end) deg'.

(* isActivated(sb): every port reference, followed transitively, reaches present symbols of the
   same namespace that have a node *)
Fixpoint activated (fuel : nat) (st : tstate) (stack : list sym) (visited : list nat) : bool :=
  match fuel with
  | O => true
  | S f =>
      match stack with
      | [] => true
      | curr :: rest =>
          if mem (s_id curr) visited then activated f st rest visited
          else if negb (s_node curr) then false
          else
            let targets := flat_map (fun np : nat * list pref => map (fun p => resolve_sym st (s_ns curr) p) (snd np)) (s_ports curr) in
            if forallb (fun t : option sym => match t with Some n => Nat.eqb (s_ns n) (s_ns curr) | None => false end) targets
            then activated f st (flat_map (fun t : option sym => match t with Some n => [n] | None => [] end) targets ++ rest)
                           (s_id curr :: visited)
            else false
      end
  end.

Definition is_activated (st : tstate) (sb : sym) : bool :=
  activated (S (length (syms st) + fold_left (fun k s => k + fold_left (fun k2 (np : nat * list pref) => k2 + length (snd np)) (s_ports s) 0) (syms st) 0) *
             S (length (syms st))) st [sb] [].

Definition log (st : tstate) (e : ev) : tstate := mkt (syms st) (nsmap st) (refs st) (links st) (events st ++ [e]).

(* exec(sb, port): the lifecycle flow attached to one of the symbol's init/begin/term/final ports.
   Every reference of that port that resolves to a present symbol of the namespace with that in-port
   receives the symbol's spec; an error answer aborts.  (The harness attaches at most one responder.) *)
Definition port_init := 10.
Definition port_begin := 11.
Definition port_term := 12.
Definition port_final := 13.

Definition exec (st : tstate) (sb : sym) (pname : nat) : tstate * option nat :=
  let prefs := match find (fun np : nat * list pref => Nat.eqb (fst np) pname) (s_ports sb) with
               | Some np => snd np | None => [] end in
  fold_left (fun (acc : tstate * option nat) (p : pref) =>
    let '(st, err) := acc in
    match err with
    | Some _ => acc
    | None =>
        match resolve_sym st (s_ns sb) p with
        | Some ref =>
            if Nat.eqb (s_ns ref) (s_ns sb) && s_node ref && mem (pr_port p) (s_ins ref)
            then (log st (EExec (s_inst sb) pname), s_fail ref)
            else acc
        | None => acc
        end
    end) prefs (st, None).

(* activation of one symbol: init flow, load hooks, begin flow; deactivation: term flow, unload hooks, final flow *)
Definition activate (st : tstate) (s : sym) : tstate * option nat :=
  match exec st s port_init with
  | (st1, Some e) => (st1, Some e)
  | (st1, None) => exec (log st1 (ELoad (s_inst s))) s port_begin
  end.

Definition deactivate (st : tstate) (s : sym) : tstate * option nat :=
  match exec st s port_term with
  | (st1, Some e) => (st1, Some e)
  | (st1, None) => exec (log st1 (EUnload (s_inst s))) s port_final
  end.

(* run f over the symbols in order, skipping those whose closure is incomplete, until the first error *)
Definition life_fold_from (f : tstate -> sym -> tstate * option nat) (l : list sym) (acc0 : tstate * option nat) : tstate * option nat :=
  fold_left (fun (acc : tstate * option nat) (s : sym) =>
    let '(st, err) := acc in
    match err with
    | Some _ => acc
    | None => if is_activated st s then f st s else acc
    end) l acc0.

Definition life_fold (f : tstate -> sym -> tstate * option nat) (l : list sym) (st : tstate) : tstate * option nat :=
  life_fold_from f l (st, None).

Definition load (st : tstate) (sb : sym) : tstate * option nat := life_fold activate (linked st sb) st.
Definition unload (st : tstate) (sb : sym) : tstate * option nat := life_fold deactivate (rev (linked st sb)) st.

(* Symbol.Close: the node closes; in-ports run their close hooks, which unlink every out-port that
   was linked to them; out-ports drop their links *)
Definition close_sym (st : tstate) (sb : sym) : tstate :=
  let st1 := if s_node sb then log st (ECloseNode (s_inst sb)) else st in
  mkt (syms st1) (nsmap st1) (refs st1)
      (filter (fun x : nat * nat * nat * nat => let '(a, _, c, _) := x in
               negb (Nat.eqb a (s_inst sb)) && negb (Nat.eqb c (s_inst sb))) (links st1))
      (events st1).

Inductive tres := TDone (found : bool) | TFail (e : nat).

Definition free (st : tstate) (id : nat) : tstate * tres :=
  match find_sym st id with
  | None => (st, TDone false)
  | Some sb =>
      match unload st sb with
      | (st1, Some e) => (st1, TFail e)
      | (st1, None) =>
          let st2 := unlinks st1 sb in
          let st3 := close_sym st2 sb in
          let nsm := match s_name sb with
                     | Some n => filter (fun e : nat * nat * nat => negb (Nat.eqb (fst (fst e)) (s_ns sb) && Nat.eqb (snd (fst e)) n)) (nsmap st3)
                     | None => nsmap st3
                     end in
          (mkt (filter (fun s => negb (Nat.eqb (s_id s) id)) (syms st3)) nsm (refs st3) (links st3) (events st3), TDone true)
      end
  end.

Definition insert (st : tstate) (sb : sym) : tstate * tres :=
  match free st (s_id sb) with
  | (st0, TFail e) => (st0, TFail e)
  | (st0, TDone _) =>
      let nsm := match s_name sb with
                 | Some n => (s_ns sb, n, s_id sb) ::
                             filter (fun e : nat * nat * nat => negb (Nat.eqb (fst (fst e)) (s_ns sb) && Nat.eqb (snd (fst e)) n)) (nsmap st0)
                 | None => nsmap st0
                 end in
      let st1 := mkt (syms st0 ++ [sb]) nsm (refs st0) (links st0) (events st0) in
      let st2 := links_in (links_own st1 sb) sb in
      match load st2 sb with
      | (st3, Some e) => (st3, TFail e)
      | (st3, None) => (st3, TDone true)
      end
  end.

(* Close: frees every symbol; symbols nobody refers to first; the first error aborts *)
Definition close_order (st : tstate) : list nat :=
  (fix order (fuel : nat) (remaining : list sym) (acc : list nat) : list nat :=
    match fuel with
    | O => acc ++ map s_id remaining
    | S f =>
        match find (fun s => forallb (fun ir : nat * list rref =>
                                 forallb (fun r => mem (rr_id r) acc || negb (existsb (fun x => Nat.eqb (s_id x) (rr_id r)) (syms st))) (snd ir))
                               (get_refs st (s_id s))) remaining with
        | Some s => order f (filter (fun x => negb (Nat.eqb (s_id x) (s_id s))) remaining) (acc ++ [s_id s])
        | None => acc ++ map s_id remaining
        end
    end) (S (length (syms st))) (syms st) [].

Definition close_table (st : tstate) : tstate * tres :=
  fold_left (fun (acc : tstate * tres) (id : nat) =>
    match snd acc with
    | TFail _ => acc
    | TDone _ => match free (fst acc) id with (st', TFail e) => (st', TFail e) | (st', TDone _) => (st', TDone true) end
    end) (close_order st) (st, TDone true).

Inductive top :=
| TInsert (sb : sym)
| TFree (id : nat)
| TClose.

Definition t_step_res (st : tstate) (op : top) : tstate * tres :=
  match op with
  | TInsert sb => insert st sb
  | TFree id => free st id
  | TClose => close_table st
  end.

Definition t_step (st : tstate) (op : top) : tstate := fst (t_step_res st op).

Definition t_run (ops : list top) : tstate := fold_left t_step ops t_init.

(* ---- observers ---- *)
(* the symbols for which load has run without a matching unload *)
Definition active_insts (es : list ev) : list nat :=
  fold_left (fun acc e =>
    match e with
    | ELoad i => acc ++ [i]
    | EUnload i => filter (fun x => negb (Nat.eqb x i)) acc
    | _ => acc
    end) es [].

Definition inst_events (es : list ev) (i : nat) : list ev :=
  filter (fun e => match e with ELoad j | EUnload j | ECloseNode j | EExec j _ => Nat.eqb i j end) es.
