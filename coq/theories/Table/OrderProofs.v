(* C08, first sentence: the order in which one table operation visits symbols.
   [linked st sb] (Table.linked in pkg/symbol/table.go) is a breadth-first count of in-degrees over "who refers to
   me" edges followed by Kahn's algorithm.  Proved here, for every table state and every start symbol:
   - both loops finish within the model's fuel (so the fuel never cuts them short);
   - the first loop visits exactly the symbols reachable from sb and counts, for each, the references it gets from them;
   - the second loop appends a symbol only when every reachable symbol it refers to has been appended before it;
   - when the reference graph is acyclic, every reachable symbol is appended that way (nothing is left for the
     unordered remainder), so in [linked st sb] every symbol comes after all the symbols of the list it refers to. *)
From Coq Require Import List Arith Bool Lia.
From Uf Require Import Table.Table Table.TableProofs Table.ClosureProofs.
Import ListNotations.

Definition ids (l : list sym) : list nat := map s_id l.

(* the symbols that refer to symbol [i] (with multiplicity), i.e. the edges the two loops follow *)
Definition nx (st : tstate) (i : nat) : list sym :=
  flat_map (fun ir : nat * list rref =>
     flat_map (fun r => match find_sym st (rr_id r) with Some n => [n] | None => [] end) (snd ir))
   (get_refs st i).

Definition cnt (d : list (nat * nat)) (i : nat) : nat :=
  match find (fun e : nat * nat => Nat.eqb (fst e) i) d with Some e => snd e | None => 0 end.

Definition bump (d : list (nat * nat)) (n : sym) : list (nat * nat) :=
  if existsb (fun e : nat * nat => Nat.eqb (fst e) (s_id n)) d
  then map (fun e : nat * nat => if Nat.eqb (fst e) (s_id n) then (fst e, S (snd e)) else e) d
  else d ++ [(s_id n, 1)].

Fixpoint occ (i : nat) (l : list sym) : nat :=
  match l with [] => 0 | n :: t => (if Nat.eqb (s_id n) i then 1 else 0) + occ i t end.

Fixpoint indeg (st : tstate) (L : list nat) (i : nat) : nat :=
  match L with [] => 0 | j :: t => occ i (nx st j) + indeg st t i end.

Lemma reach_step f st curr q V deg :
  reach (S f) st (curr :: q) V deg =
  if mem (s_id curr) V then reach f st q V deg
  else reach f st (q ++ nx st (s_id curr)) (s_id curr :: V) (fold_left bump (nx st (s_id curr)) deg).
Proof. reflexivity. Qed.

Lemma mem_In x l : mem x l = true <-> In x l.
Proof.
  unfold mem. rewrite existsb_exists. split.
  - intros [y [I E]]. apply Nat.eqb_eq in E. subst. exact I.
  - intros I. exists x. split; [exact I|apply Nat.eqb_refl].
Qed.
Lemma mem_nIn x l : mem x l = false <-> ~ In x l.
Proof. rewrite <- mem_In. destruct (mem x l); split; congruence. Qed.

Lemma occ_app i a b : occ i (a ++ b) = occ i a + occ i b.
Proof. induction a as [|n a IH]; cbn [occ app]; [reflexivity|rewrite IH; lia]. Qed.

Lemma occ_pos i l : occ i l > 0 <-> In i (ids l).
Proof.
  induction l as [|n l IH]; cbn [occ ids map In]; [lia|].
  destruct (Nat.eqb_spec (s_id n) i) as [E|E].
  - split; [intros _; left; exact E|lia].
  - rewrite <- IH. split; [intros H; right; lia|intros [H|H]; [contradiction|lia]].
Qed.

(* --- the degree table --- *)
Lemma cnt_cons e d i : cnt (e :: d) i = if Nat.eqb (fst e) i then snd e else cnt d i.
Proof. unfold cnt. cbn [find]. destruct (Nat.eqb (fst e) i); reflexivity. Qed.

Lemma cnt_absent d i : existsb (fun e : nat * nat => Nat.eqb (fst e) i) d = false -> cnt d i = 0.
Proof.
  induction d as [|e d IH]; cbn [existsb]; intros H; [reflexivity|].
  apply orb_false_iff in H. destruct H as [H1 H2]. rewrite cnt_cons, H1. apply IH, H2.
Qed.

Lemma cnt_map_other d i (g : nat * nat -> nat * nat) :
  (forall e, fst (g e) = fst e) -> (forall e, fst e = i -> snd (g e) = snd e) ->
  cnt (map g d) i = cnt d i.
Proof.
  intros G1 G2. induction d as [|e d IH]; [reflexivity|]. cbn [map]. rewrite !cnt_cons, G1.
  destruct (Nat.eqb_spec (fst e) i) as [E|E]; [apply G2, E|apply IH].
Qed.

Lemma cnt_map_hit d i (g : nat * nat -> nat * nat) (h : nat -> nat) :
  (forall e, fst (g e) = fst e) -> (forall e, fst e = i -> snd (g e) = h (snd e)) ->
  existsb (fun e : nat * nat => Nat.eqb (fst e) i) d = true ->
  cnt (map g d) i = h (cnt d i).
Proof.
  intros G1 G2. induction d as [|e d IH]; cbn [existsb]; intros H; [discriminate|]. cbn [map]. rewrite !cnt_cons, G1.
  destruct (Nat.eqb_spec (fst e) i) as [E|E]; [apply G2, E|]. cbn [orb] in H. apply IH, H.
Qed.

Lemma cnt_app_absent d e i : existsb (fun x : nat * nat => Nat.eqb (fst x) i) d = false -> cnt (d ++ [e]) i = cnt [e] i.
Proof.
  induction d as [|x d IH]; cbn [existsb app]; intros H; [reflexivity|].
  apply orb_false_iff in H. destruct H as [H1 H2]. rewrite cnt_cons, H1. apply IH, H2.
Qed.
Lemma cnt_app_other d e i : fst e <> i -> cnt (d ++ [e]) i = cnt d i.
Proof.
  intros N. induction d as [|x d IH]; cbn [app].
  - rewrite cnt_cons. destruct (Nat.eqb_spec (fst e) i); [contradiction|reflexivity].
  - rewrite !cnt_cons. destruct (Nat.eqb (fst x) i); [reflexivity|exact IH].
Qed.

Lemma cnt_bump d n i : cnt (bump d n) i = cnt d i + (if Nat.eqb (s_id n) i then 1 else 0).
Proof.
  unfold bump. destruct (existsb _ d) eqn:X.
  - destruct (Nat.eqb_spec (s_id n) i) as [E|E].
    + subst i. rewrite (cnt_map_hit d (s_id n) _ S).
      * lia.
      * intros e. destruct (Nat.eqb _ _); reflexivity.
      * intros e Ee. apply Nat.eqb_eq in Ee. rewrite Ee. reflexivity.
      * exact X.
    + rewrite cnt_map_other; [lia| |].
      * intros e. destruct (Nat.eqb _ _); reflexivity.
      * intros e Ee. destruct (Nat.eqb_spec (fst e) (s_id n)); [congruence|reflexivity].
  - destruct (Nat.eqb_spec (s_id n) i) as [E|E].
    + subst i. rewrite cnt_app_absent by exact X. rewrite cnt_cons. cbn [fst snd]. rewrite Nat.eqb_refl.
      rewrite (cnt_absent d _ X). reflexivity.
    + rewrite cnt_app_other by (cbn [fst]; exact E). lia.
Qed.

Lemma cnt_fold_bump l : forall d i, cnt (fold_left bump l d) i = cnt d i + occ i l.
Proof.
  induction l as [|n l IH]; intros d i; cbn [fold_left occ]; [lia|]. rewrite IH, cnt_bump. lia.
Qed.

Lemma bump_keys d n e : In e (bump d n) -> In (fst e) (map fst d) \/ fst e = s_id n.
Proof.
  unfold bump. destruct (existsb _ d).
  - intros I. apply in_map_iff in I. destruct I as [x [E I]]. left. apply in_map_iff. exists x. split; [|exact I].
    subst e. destruct (Nat.eqb _ _); reflexivity.
  - intros I. apply in_app_or in I. destruct I as [I|[I|[]]]; [left; apply in_map; exact I|right; subst e; reflexivity].
Qed.
Lemma fold_bump_keys l : forall d e, In e (fold_left bump l d) -> In (fst e) (map fst d) \/ In (fst e) (ids l).
Proof.
  induction l as [|n l IH]; intros d e; cbn [fold_left ids map]; [intros I; left; apply in_map; exact I|].
  intros I. destruct (IH _ _ I) as [K|K]; [|right; right; exact K].
  apply in_map_iff in K. destruct K as [x [Ex Ix]]. destruct (bump_keys _ _ _ Ix) as [K|K].
  - left. rewrite <- Ex. exact K.
  - right. left. rewrite <- Ex, K. reflexivity.
Qed.

(* --- the budget: both loops visit every symbol at most once and enqueue at most one symbol per reference --- *)
Definition esize (m : list (nat * list rref)) : nat := list_sum (map (fun ir : nat * list rref => length (snd ir)) m).
Definition phi_r (r : list (nat * list (nat * list rref))) (V : list nat) : nat :=
  list_sum (map (fun e : nat * list (nat * list rref) => if mem (fst e) V then 0 else esize (snd e)) r).
Definition phi (st : tstate) (V : list nat) : nat := phi_r (refs st) V.
Definition getr (r : list (nat * list (nat * list rref))) (c : nat) : list (nat * list rref) :=
  match find (fun e : nat * list (nat * list rref) => Nat.eqb (fst e) c) r with Some e => snd e | None => [] end.

Lemma phi_visit r V V' c :
  (forall x, mem x V' = Nat.eqb x c || mem x V) -> mem c V = false ->
  phi_r r V' + esize (getr r c) <= phi_r r V /\ phi_r r V' <= phi_r r V.
Proof.
  intros HV Hc. unfold phi_r, getr, list_sum. induction r as [|[k m] r IH]; cbn [map fold_right find fst snd]; [unfold esize; cbn; lia|].
  destruct IH as [I1 I2]. rewrite HV.
  destruct (Nat.eqb k c) eqn:E; cbn [orb snd].
  - apply Nat.eqb_eq in E. subst k. rewrite Hc. lia.
  - destruct (mem k V); lia.
Qed.

Lemma nx_le st c : length (nx st c) <= esize (get_refs st c).
Proof.
  unfold nx, esize, list_sum. induction (get_refs st c) as [|ir l IH]; cbn [flat_map map fold_right length]; [lia|].
  rewrite app_length. enough (length (flat_map (fun r => match find_sym st (rr_id r) with Some n => [n] | None => [] end) (snd ir)) <= length (snd ir)) by lia.
  induction (snd ir) as [|r rs IHr]; cbn [flat_map length]; [lia|]. rewrite app_length.
  destruct (find_sym st (rr_id r)); cbn [length]; lia.
Qed.

Lemma fold_add {A} (f : A -> nat) l : forall k, fold_left (fun k x => k + f x) l k = k + list_sum (map f l).
Proof. unfold list_sum. induction l as [|x l IH]; intros k; cbn [fold_left map fold_right]; [lia|]. rewrite IH. lia. Qed.

Lemma fuel_t_bound st : 1 + 2 * phi st [] <= fuel_t st.
Proof.
  unfold fuel_t, phi, phi_r. rewrite fold_add.
  assert (E : map (fun e : nat * list (nat * list rref) => if mem (fst e) [] then 0 else esize (snd e)) (refs st) =
              map (fun x : nat * list (nat * list rref) => fold_left (fun k2 (ir : nat * list rref) => k2 + length (snd ir)) (snd x) 0) (refs st)).
  { apply map_ext. intros e. cbn [mem existsb]. unfold esize. rewrite fold_add. reflexivity. }
  rewrite E. set (e := list_sum _). nia.
Qed.

(* --- first loop: in-degrees over the reachable symbols --- *)
Inductive reachable (st : tstate) (sb : sym) : nat -> Prop :=
| r_start : reachable st sb (s_id sb)
| r_next j n : reachable st sb j -> In n (nx st j) -> reachable st sb (s_id n).

Record RInv (st : tstate) (sb : sym) (queue : list sym) (V : list nat) (deg : list (nat * nat)) : Prop := {
  r_nodup : NoDup V;
  r_cnt : forall i, cnt deg i = indeg st V i;
  r_closed : forall j n, In j V -> In n (nx st j) -> In (s_id n) V \/ In (s_id n) (ids queue);
  r_sb : In (s_id sb) V \/ In (s_id sb) (ids queue);
  r_reach : forall i, In i V \/ In i (ids queue) -> reachable st sb i;
  r_keys : forall e, In e deg -> In (fst e) V \/ In (fst e) (ids queue)
}.

Lemma reach_inv st sb : forall fuel queue V deg,
  length queue + 2 * phi st V <= fuel -> RInv st sb queue V deg ->
  exists V', RInv st sb [] V' (reach fuel st queue V deg).
Proof.
  induction fuel as [|f IH]; intros queue V deg Hf R.
  - destruct queue; [|cbn [length] in Hf; lia]. exists V. exact R.
  - destruct queue as [|curr q]; [exists V; exact R|]. rewrite reach_step.
    destruct (mem (s_id curr) V) eqn:M.
    + apply IH; [cbn [length] in Hf; lia|]. apply mem_In in M. destruct R as [R1 R2 R3 R4 R5 R6]. split; auto.
      * intros j n Ij In_. destruct (R3 j n Ij In_) as [H|H]; [left; exact H|].
        cbn [ids map In] in H. destruct H as [H|H]; [left; rewrite <- H; exact M|right; exact H].
      * destruct R4 as [H|H]; [left; exact H|]. cbn [ids map In] in H. destruct H as [H|H]; [left; rewrite <- H; exact M|right; exact H].
      * intros i H. apply R5. destruct H as [H|H]; [left; exact H|right; right; exact H].
      * intros e Ie. destruct (R6 e Ie) as [H|H]; [left; exact H|].
        cbn [ids map In] in H. destruct H as [H|H]; [left; rewrite <- H; exact M|right; exact H].
    + destruct (phi_visit (refs st) V (s_id curr :: V) (s_id curr)) as [P1 _]; [intros x; reflexivity|exact M|].
      pose proof (nx_le st (s_id curr)) as NL. fold (phi st V) in P1. fold (phi st (s_id curr :: V)) in P1.
      change (getr (refs st) (s_id curr)) with (get_refs st (s_id curr)) in P1.
      apply IH; [rewrite app_length; cbn [length] in Hf; lia|].
      apply mem_nIn in M. destruct R as [R1 R2 R3 R4 R5 R6]. split.
      * constructor; assumption.
      * intros i. rewrite cnt_fold_bump, R2. cbn [indeg]. lia.
      * intros j n Ij In_. unfold ids. rewrite map_app. destruct Ij as [Ij|Ij].
        -- subst j. right. apply in_or_app. right. apply in_map. exact In_.
        -- destruct (R3 j n Ij In_) as [H|H]; [left; right; exact H|]. cbn [ids map In] in H.
           destruct H as [H|H]; [left; left; exact H|right; apply in_or_app; left; exact H].
      * destruct R4 as [H|H]; [left; right; exact H|]. cbn [ids map In] in H.
        destruct H as [H|H]; [left; left; exact H|right; unfold ids; rewrite map_app; apply in_or_app; left; exact H].
      * intros i H. destruct H as [[H|H]|H].
        -- subst i. apply R5. right. left. reflexivity.
        -- apply R5. left. exact H.
        -- unfold ids in H. rewrite map_app in H. apply in_app_or in H. destruct H as [H|H].
           ++ apply R5. right. right. exact H.
           ++ apply in_map_iff in H. destruct H as [n [En In_]]. subst i. apply (r_next st sb (s_id curr)); [|exact In_].
              apply R5. right. left. reflexivity.
      * intros e Ie. destruct (fold_bump_keys _ _ _ Ie) as [K|K].
        -- apply in_map_iff in K. destruct K as [x [Ex Ix]]. rewrite <- Ex. destruct (R6 x Ix) as [H|H]; [left; right; exact H|].
           cbn [ids map In] in H. destruct H as [H|H]; [left; left; exact H|right; unfold ids; rewrite map_app; apply in_or_app; left; exact H].
        -- right. unfold ids. rewrite map_app. apply in_or_app. right. exact K.
Qed.

Lemma RInv_init st sb : RInv st sb [sb] [] [].
Proof.
  split.
  - constructor.
  - intros i. reflexivity.
  - intros j n [].
  - right. left. reflexivity.
  - intros i [[]|[H|[]]]. subst i. constructor.
  - intros e [].
Qed.

(* what the first loop hands to the second *)
Record Reached (st : tstate) (sb : sym) (V : list nat) (deg : list (nat * nat)) : Prop := {
  rd_nodup : NoDup V;
  rd_iff : forall i, In i V <-> reachable st sb i;
  rd_cnt : forall i, cnt deg i = indeg st V i;
  rd_keys : forall e, In e deg -> In (fst e) V
}.

Lemma reach_final st sb : exists V, Reached st sb V (reach (fuel_t st) st [sb] [] []).
Proof.
  destruct (reach_inv st sb (fuel_t st) [sb] [] []) as [V R].
  - pose proof (fuel_t_bound st). cbn [length]. lia.
  - apply RInv_init.
  - exists V. destruct R as [R1 R2 R3 R4 R5 R6]. split.
    + exact R1.
    + intros i. split; [intros I; apply R5; left; exact I|].
      intros H. induction H as [|j n Hj IHj In_].
      * destruct R4 as [H|[]]. exact H.
      * destruct (R3 j n IHj In_) as [H|[]]. exact H.
    + exact R2.
    + intros e Ie. destruct (R6 e Ie) as [H|[]]. exact H.
Qed.

(* --- second loop: Kahn's algorithm over the counted degrees --- *)
Definition tf (acc : list (nat * nat) * list sym) (n : sym) : list (nat * nat) * list sym :=
  let '(d, nq) := acc in
  let d' := map (fun e : nat * nat => if Nat.eqb (fst e) (s_id n) then (fst e, pred (snd e)) else e) d in
  let now := match find (fun e : nat * nat => Nat.eqb (fst e) (s_id n)) d' with Some e => snd e | None => 0 end in
  (d', if Nat.eqb now 0 then nq ++ [n] else nq).

Lemma topo_step f st curr q out deg :
  topo (S f) st (curr :: q) out deg =
  if existsb (fun s => Nat.eqb (s_id s) (s_id curr)) out then topo f st q out deg
  else let '(deg', newq) := fold_left tf (nx st (s_id curr)) (deg, []) in
       topo f st (q ++ newq) (out ++ [curr]) deg'.
Proof. reflexivity. Qed.

Definition dec (d : list (nat * nat)) (n : sym) : list (nat * nat) :=
  map (fun e : nat * nat => if Nat.eqb (fst e) (s_id n) then (fst e, pred (snd e)) else e) d.

Lemma tf_eq d nq n : tf (d, nq) n = (dec d n, if Nat.eqb (cnt (dec d n) (s_id n)) 0 then nq ++ [n] else nq).
Proof. reflexivity. Qed.

Lemma cnt_map_gen d i (g : nat * nat -> nat * nat) (h : nat -> nat) :
  (forall e, fst (g e) = fst e) -> (forall e, fst e = i -> snd (g e) = h (snd e)) -> h 0 = 0 ->
  cnt (map g d) i = h (cnt d i).
Proof.
  intros G1 G2 H0. induction d as [|e d IH]; [cbn; symmetry; exact H0|]. cbn [map]. rewrite !cnt_cons, G1.
  destruct (Nat.eqb_spec (fst e) i) as [E|E]; [apply G2, E|apply IH].
Qed.

Lemma cnt_dec d n i : cnt (dec d n) i = if Nat.eqb (s_id n) i then pred (cnt d i) else cnt d i.
Proof.
  unfold dec. destruct (Nat.eqb_spec (s_id n) i) as [E|E].
  - subst i. apply (cnt_map_gen d (s_id n) _ pred); [| |reflexivity].
    + intros e. destruct (Nat.eqb _ _); reflexivity.
    + intros e Ee. apply Nat.eqb_eq in Ee. rewrite Ee. reflexivity.
  - apply cnt_map_other.
    + intros e. destruct (Nat.eqb _ _); reflexivity.
    + intros e Ee. destruct (Nat.eqb_spec (fst e) (s_id n)); [congruence|reflexivity].
Qed.

Lemma dec_keys d n : map fst (dec d n) = map fst d.
Proof. unfold dec. rewrite map_map. apply map_ext. intros e. destruct (Nat.eqb _ _); reflexivity. Qed.

Lemma tf_fold l : forall d nq,
  (forall i, cnt (fst (fold_left tf l (d, nq))) i = cnt d i - occ i l) /\
  map fst (fst (fold_left tf l (d, nq))) = map fst d /\
  (forall n, In n (snd (fold_left tf l (d, nq))) -> In n nq \/ (In n l /\ cnt (fst (fold_left tf l (d, nq))) (s_id n) = 0)) /\
  (forall n, In n nq -> In n (snd (fold_left tf l (d, nq)))) /\
  (forall i, occ i l > 0 -> cnt (fst (fold_left tf l (d, nq))) i = 0 -> In i (ids (snd (fold_left tf l (d, nq))))) /\
  length (snd (fold_left tf l (d, nq))) <= length nq + length l.
Proof.
  induction l as [|n l IH]; intros d nq; cbn [fold_left].
  - cbn [fst snd occ length]. repeat split; intros; try tauto; try lia.
  - rewrite tf_eq. set (d1 := dec d n). set (nq1 := if Nat.eqb (cnt d1 (s_id n)) 0 then nq ++ [n] else nq).
    destruct (IH d1 nq1) as [A [B [C [D [E F]]]]]. set (r := fold_left tf l (d1, nq1)) in *.
    assert (Hd1 : forall i, cnt d1 i = if Nat.eqb (s_id n) i then pred (cnt d i) else cnt d i) by (intros i; apply cnt_dec).
    split; [|split; [|split; [|split; [|split]]]].
    + intros i. rewrite A, Hd1. cbn [occ]. destruct (Nat.eqb (s_id n) i); lia.
    + rewrite B. apply dec_keys.
    + intros x Ix. destruct (C x Ix) as [H|[H1 H2]].
      * unfold nq1 in H. destruct (Nat.eqb_spec (cnt d1 (s_id n)) 0) as [Z|Z]; [|left; exact H].
        apply in_app_or in H. destruct H as [H|[H|[]]]; [left; exact H|]. subst x. right. split; [left; reflexivity|].
        rewrite A, Z. reflexivity.
      * right. split; [right; exact H1|exact H2].
    + intros x Ix. apply D. unfold nq1. destruct (Nat.eqb _ 0); [apply in_or_app; left; exact Ix|exact Ix].
    + intros i Oi Zi. cbn [occ] in Oi. destruct (Nat.eq_dec (occ i l) 0) as [O0|O0].
      * destruct (Nat.eqb_spec (s_id n) i) as [Ei|Ei]; [|lia]. subst i.
        rewrite A, O0, Nat.sub_0_r in Zi. apply in_map_iff. exists n. split; [reflexivity|]. apply D. unfold nq1.
        rewrite Zi. cbn [Nat.eqb]. apply in_or_app. right. left. reflexivity.
      * apply E; [lia|exact Zi].
    + cbn [length]. assert (length nq1 <= S (length nq)); [|lia]. unfold nq1. destruct (Nat.eqb _ 0); [rewrite app_length; cbn [length]; lia|lia].
Qed.

Definition allpreds (st : tstate) (V : list nat) (i : nat) (l : list sym) : Prop :=
  forall j, In j V -> occ i (nx st j) > 0 -> In j (ids l).

Fixpoint ordr (st : tstate) (V : list nat) (l : list sym) : Prop :=
  match l with
  | [] => True
  | v :: older => (older = [] \/ allpreds st V (s_id v) older) /\ ordr st V older
  end.

Definition notin (out : list sym) (j : nat) : bool := negb (mem j (ids out)).

Record TInv (st : tstate) (sb : sym) (V : list nat) (queue out : list sym) (deg : list (nat * nat)) : Prop := {
  t_nodup : NoDup (ids out);
  t_outV : forall s, In s out -> In (s_id s) V;
  t_qV : forall s, In s queue -> In (s_id s) V;
  t_cnt : forall i, cnt deg i = indeg st (filter (notin out) V) i;
  t_ord : ordr st V (rev out);
  t_first : out = [] -> queue = [sb];
  t_q : out <> [] -> forall n, In n queue -> allpreds st V (s_id n) out;
  t_zero : forall i, In i V -> i <> s_id sb -> cnt deg i = 0 -> In i (ids out) \/ In i (ids queue);
  t_sb : In (s_id sb) (ids out) \/ In (s_id sb) (ids queue);
  t_head : forall h t, out = h :: t -> h = sb;
  t_keys : forall e, In e deg -> In (fst e) V
}.

Lemma in_ids_existsb i out : existsb (fun s => Nat.eqb (s_id s) i) out = true <-> In i (ids out).
Proof.
  rewrite existsb_exists. unfold ids. rewrite in_map_iff. split.
  - intros [s [I E]]. apply Nat.eqb_eq in E. exists s. split; [exact E|exact I].
  - intros [s [E I]]. exists s. split; [exact I|apply Nat.eqb_eq; exact E].
Qed.

Lemma indeg_split st V c (p : nat -> bool) i : NoDup V -> In c V -> p c = true ->
  indeg st (filter p V) i = occ i (nx st c) + indeg st (filter (fun j => p j && negb (Nat.eqb j c)) V) i.
Proof.
  induction V as [|a V IH]; intros ND Ic Pc; [destruct Ic|]. inversion ND as [|? ? Na ND']; subst.
  cbn [filter]. destruct (Nat.eq_dec a c) as [E|E].
  - subst a. rewrite Pc, Nat.eqb_refl. cbn [andb negb indeg]. f_equal. f_equal. apply filter_ext_in.
    intros j Ij. destruct (Nat.eqb_spec j c) as [Ej|Ej]; [subst j; contradiction|]. cbn [negb]. rewrite andb_true_r. reflexivity.
  - destruct Ic as [Ic|Ic]; [contradiction|]. destruct (Nat.eqb_spec a c) as [Ea|_]; [contradiction|]. cbn [negb]. rewrite andb_true_r.
    destruct (p a); cbn [indeg]; rewrite (IH ND' Ic Pc); lia.
Qed.

Lemma indeg_zero st L i : indeg st L i = 0 -> forall j, In j L -> occ i (nx st j) = 0.
Proof. induction L as [|a L IH]; cbn [indeg]; intros H j Ij; [destruct Ij|]. destruct Ij as [Ij|Ij]; [subst; lia|apply IH; [lia|exact Ij]]. Qed.
Lemma indeg_all_zero st L i : (forall j, In j L -> occ i (nx st j) = 0) -> indeg st L i = 0.
Proof. induction L as [|a L IH]; cbn [indeg]; intros H; [reflexivity|]. rewrite (H a (or_introl eq_refl)), IH; [reflexivity|]. intros j Ij. apply H. right. exact Ij. Qed.
Lemma indeg_ge st L i j : In j L -> occ i (nx st j) <= indeg st L i.
Proof. induction L as [|a L IH]; cbn [indeg]; intros Ij; [destruct Ij|]. destruct Ij as [Ij|Ij]; [subst; lia|specialize (IH Ij); lia]. Qed.

Lemma allpreds_mono st V i a b : (forall x, In x (ids a) -> In x (ids b)) -> allpreds st V i a -> allpreds st V i b.
Proof. intros S H j Ij Oj. apply S, H; assumption. Qed.

Lemma ids_app a b : ids (a ++ b) = ids a ++ ids b.
Proof. apply map_app. Qed.

Lemma notin_snoc out c j : notin (out ++ [c]) j = notin out j && negb (Nat.eqb j (s_id c)).
Proof.
  unfold notin, mem. rewrite ids_app, existsb_app. cbn [ids map existsb]. rewrite orb_false_r, negb_orb. reflexivity.
Qed.

Lemma topo_inv st sb V deg0 : Reached st sb V deg0 -> forall fuel queue out deg,
  length queue + 2 * phi st (ids out) <= fuel -> TInv st sb V queue out deg ->
  TInv st sb V [] (fst (topo fuel st queue out deg)) (snd (topo fuel st queue out deg)).
Proof.
  intros RD. induction fuel as [|f IH]; intros queue out deg Hf T.
  - destruct queue; [|cbn [length] in Hf; lia]. exact T.
  - destruct queue as [|curr q]; [exact T|]. rewrite topo_step.
    destruct (existsb (fun s => Nat.eqb (s_id s) (s_id curr)) out) eqn:X.
    + apply IH; [cbn [length] in Hf; lia|]. apply in_ids_existsb in X.
      destruct T as [T1 T2 T3 T4 T5 T6 T7 T8 T9 T10 T11]. split; auto.
      * intros s Is. apply T3. right. exact Is.
      * intros E. subst out. destruct X.
      * intros N n In_. apply T7; [exact N|right; exact In_].
      * intros i Ii Ni Zi. destruct (T8 i Ii Ni Zi) as [H|H]; [left; exact H|]. cbn [ids map In] in H.
        destruct H as [H|H]; [left; rewrite <- H; exact X|right; exact H].
      * destruct T9 as [H|H]; [left; exact H|]. cbn [ids map In] in H. destruct H as [H|H]; [left; rewrite <- H; exact X|right; exact H].
    + assert (Nc : ~ In (s_id curr) (ids out)) by (rewrite <- in_ids_existsb, X; discriminate).
      destruct (fold_left tf (nx st (s_id curr)) (deg, [])) as [deg' newq] eqn:F.
      destruct (tf_fold (nx st (s_id curr)) deg []) as [A [B [C [D [E G]]]]]. rewrite F in A, B, C, D, E, G. cbn [fst snd length] in A, B, C, D, E, G.
      destruct T as [T1 T2 T3 T4 T5 T6 T7 T8 T9 T10 T11].
      assert (McV : In (s_id curr) V) by (apply T3; left; reflexivity).
      assert (Pc : notin out (s_id curr) = true) by (unfold notin; apply negb_true_iff, mem_nIn; exact Nc).
      assert (NV : forall n, In n (nx st (s_id curr)) -> In (s_id n) V).
      { intros n In_. apply (rd_iff _ _ _ _ RD). apply (r_next st sb (s_id curr)); [apply (rd_iff _ _ _ _ RD); exact McV|exact In_]. }
      assert (FE : forall i, indeg st (filter (notin (out ++ [curr])) V) i =
                             indeg st (filter (fun j => notin out j && negb (Nat.eqb j (s_id curr))) V) i).
      { intros i. f_equal. apply filter_ext. intros j. apply notin_snoc. }
      apply IH.
      * destruct (phi_visit (refs st) (ids out) (ids (out ++ [curr])) (s_id curr)) as [P1 _].
        -- intros x. rewrite ids_app. unfold mem. rewrite existsb_app. cbn [ids map existsb]. rewrite orb_false_r. apply orb_comm.
        -- apply mem_nIn. exact Nc.
        -- pose proof (nx_le st (s_id curr)) as NL. fold (phi st (ids out)) in P1. fold (phi st (ids (out ++ [curr]))) in P1.
           change (getr (refs st) (s_id curr)) with (get_refs st (s_id curr)) in P1.
           rewrite app_length. cbn [length] in Hf. lia.
      * split.
        -- rewrite ids_app. cbn [ids map]. apply NoDup_app_snoc; assumption.
        -- intros s Is. apply in_app_or in Is. destruct Is as [Is|[Is|[]]]; [apply T2; exact Is|subst s; exact McV].
        -- intros s Is. apply in_app_or in Is. destruct Is as [Is|Is]; [apply T3; right; exact Is|].
           destruct (C s Is) as [[]|[H _]]. apply NV, H.
        -- intros i. rewrite FE, A, T4. rewrite (indeg_split st V (s_id curr) (notin out) i (rd_nodup _ _ _ _ RD) McV Pc). lia.
        -- rewrite rev_app_distr. cbn [rev app ordr]. split; [|exact T5].
           destruct out as [|h t]; [left; reflexivity|right].
           assert (N : h :: t <> []) by discriminate.
           eapply allpreds_mono; [|apply (T7 N curr); left; reflexivity].
           intros x Ix. unfold ids in *. rewrite map_rev. apply in_rev. rewrite rev_involutive. exact Ix.
        -- intros E0. destruct out; discriminate.
        -- intros _ n In_. apply in_app_or in In_. destruct In_ as [In_|In_].
           ++ destruct out as [|h t].
              ** injection (T6 eq_refl) as _ Eq. subst q. destruct In_.
              ** assert (N : h :: t <> []) by discriminate.
                 eapply allpreds_mono; [|apply (T7 N n); right; exact In_]. intros x Ix. rewrite ids_app. apply in_or_app. left. exact Ix.
           ++ destruct (C n In_) as [[]|[H1 H2]].
              intros j Ij Oj. destruct (mem j (ids (out ++ [curr]))) eqn:Mj; [apply mem_In; exact Mj|].
              exfalso. pose proof (A (s_id n)) as An. rewrite H2 in An.
              assert (Z : indeg st (filter (notin (out ++ [curr])) V) (s_id n) = 0).
              { rewrite FE. rewrite T4, (indeg_split st V (s_id curr) (notin out) _ (rd_nodup _ _ _ _ RD) McV Pc) in An. lia. }
              pose proof (indeg_zero _ _ _ Z j) as Zj. rewrite Zj in Oj; [lia|].
              apply filter_In. split; [exact Ij|]. unfold notin. rewrite Mj. reflexivity.
        -- intros i Ii Ni Zi. destruct (Nat.eq_dec (cnt deg i) 0) as [Z0|Z0].
           ++ destruct (T8 i Ii Ni Z0) as [H|H]; [left; rewrite ids_app; apply in_or_app; left; exact H|].
              cbn [ids map In] in H. destruct H as [H|H].
              ** left. rewrite ids_app. apply in_or_app. right. left. exact H.
              ** right. rewrite ids_app. apply in_or_app. left. exact H.
           ++ right. rewrite ids_app. apply in_or_app. right. apply E; [|exact Zi]. rewrite A in Zi. lia.
        -- destruct T9 as [H|H]; [left; rewrite ids_app; apply in_or_app; left; exact H|].
           cbn [ids map In] in H. destruct H as [H|H].
           ++ left. rewrite ids_app. apply in_or_app. right. left. exact H.
           ++ right. rewrite ids_app. apply in_or_app. left. exact H.
        -- intros h t Eo. destruct out as [|h0 t0].
           ++ injection (T6 eq_refl) as Ec _. cbn [app] in Eo. injection Eo as Eh _. congruence.
           ++ cbn [app] in Eo. injection Eo as Eh _. subst h0. apply (T10 h t0). reflexivity.
        -- intros e Ie. assert (K : In (fst e) (map fst deg')) by (apply in_map; exact Ie). rewrite B in K.
           apply in_map_iff in K. destruct K as [x [Ex Ix]]. rewrite <- Ex. apply T11. exact Ix.
Qed.

Lemma filter_all {A} (p : A -> bool) l : (forall x, In x l -> p x = true) -> filter p l = l.
Proof.
  induction l as [|a l IH]; intros H; [reflexivity|]. cbn [filter]. rewrite (H a (or_introl eq_refl)), IH; [reflexivity|].
  intros x Ix. apply H. right. exact Ix.
Qed.

Lemma TInv_init st sb V deg0 : Reached st sb V deg0 -> TInv st sb V [sb] [] deg0.
Proof.
  intros RD. split.
  - constructor.
  - intros s [].
  - intros s [E|[]]. subst s. apply (rd_iff _ _ _ _ RD). constructor.
  - intros i. rewrite filter_all; [apply (rd_cnt _ _ _ _ RD)|reflexivity].
  - exact I.
  - reflexivity.
  - intros N. contradiction.
  - intros i Ii Ni Zi. exfalso. apply (rd_iff _ _ _ _ RD) in Ii. destruct Ii as [|j n Hj In_]; [contradiction|].
    apply (rd_iff _ _ _ _ RD) in Hj. pose proof (indeg_ge st V (s_id n) j Hj) as G. rewrite <- (rd_cnt _ _ _ _ RD), Zi in G.
    assert (occ (s_id n) (nx st j) > 0); [|lia]. apply occ_pos. apply in_map. exact In_.
  - right. left. reflexivity.
  - intros h t E. discriminate.
  - apply (rd_keys _ _ _ _ RD).
Qed.

(* the result of both loops *)
Lemma topo_final st sb :
  exists V, Reached st sb V (reach (fuel_t st) st [sb] [] []) /\
    TInv st sb V [] (fst (topo (fuel_t st) st [sb] [] (reach (fuel_t st) st [sb] [] [])))
                    (snd (topo (fuel_t st) st [sb] [] (reach (fuel_t st) st [sb] [] []))).
Proof.
  destruct (reach_final st sb) as [V RD]. exists V. split; [exact RD|].
  apply (topo_inv st sb V _ RD).
  - pose proof (fuel_t_bound st). cbn [length ids map]. lia.
  - apply TInv_init. exact RD.
Qed.

(* acyclic: references only go "up" some ranking *)
Definition acyclic (st : tstate) : Prop := exists rank : nat -> nat, forall j n, In n (nx st j) -> rank j < rank (s_id n).

Lemma reach_rank st sb rank : (forall j n, In n (nx st j) -> rank j < rank (s_id n)) ->
  forall i, reachable st sb i -> rank (s_id sb) <= rank i.
Proof. intros H i R. induction R as [|j n Hj IHj In_]; [lia|]. specialize (H j n In_). lia. Qed.

Lemma kahn_complete st sb V out deg rank :
  (forall j n, In n (nx st j) -> rank j < rank (s_id n)) -> NoDup V -> TInv st sb V [] out deg ->
  forall i, In i V -> In i (ids out).
Proof.
  intros HR ND T.
  assert (G : forall k i, rank i < k -> In i V -> In i (ids out)).
  { induction k as [|k IHk]; intros i Hk Ii; [lia|].
    destruct (Nat.eq_dec i (s_id sb)) as [E|E].
    - subst i. destruct (t_sb _ _ _ _ _ _ T) as [H|[]]. exact H.
    - destruct (t_zero _ _ _ _ _ _ T i Ii E) as [H|[]]; [|exact H].
      rewrite (t_cnt _ _ _ _ _ _ T). apply indeg_all_zero. intros j Ij. apply filter_In in Ij. destruct Ij as [Ij Nj].
      destruct (occ i (nx st j)) eqn:O; [reflexivity|exfalso].
      assert (P : occ i (nx st j) > 0) by lia. apply occ_pos in P. apply in_map_iff in P. destruct P as [m [En In_]].
      specialize (HR j m In_). rewrite En in HR.
      assert (In j (ids out)) by (apply IHk; [lia|exact Ij]).
      unfold notin in Nj. apply negb_true_iff, mem_nIn in Nj. contradiction. }
  intros i. apply (G (S (rank i))). lia.
Qed.

Lemma ordr_app st V a b : ordr st V (a ++ b) -> ordr st V b.
Proof. induction a as [|x a IH]; cbn [app ordr]; [tauto|]. intros [_ H]. apply IH, H. Qed.

Lemma ordr_split st V out pre v post : ordr st V (rev out) -> out = pre ++ v :: post -> pre = [] \/ allpreds st V (s_id v) pre.
Proof.
  intros O E. subst out. rewrite rev_app_distr in O. cbn [rev] in O. rewrite <- app_assoc in O. apply ordr_app in O.
  cbn [app ordr] in O. destruct O as [[O|O] _].
  - left. destruct pre as [|x pre]; [reflexivity|]. cbn [rev] in O. destruct (rev pre); discriminate.
  - right. eapply allpreds_mono; [|exact O]. intros x Ix. unfold ids in *. rewrite map_rev in Ix. apply in_rev in Ix. exact Ix.
Qed.

(* in the list, every symbol comes after all the symbols of the list it refers to *)
Definition dep_sorted (st : tstate) (l : list sym) : Prop :=
  forall pre v post, l = pre ++ v :: post ->
  forall u, In u l -> In (s_id v) (ids (nx st (s_id u))) -> In (s_id u) (ids pre).

Lemma flat_map_nil {A B} (f : A -> list B) l : (forall x, In x l -> f x = []) -> flat_map f l = [].
Proof. induction l as [|a l IH]; intros H; [reflexivity|]. cbn [flat_map]. rewrite (H a (or_introl eq_refl)), IH; [reflexivity|]. intros x Ix. apply H. right. exact Ix. Qed.

Lemma find_sym_id st i n : find_sym st i = Some n -> s_id n = i.
Proof. unfold find_sym. intros H. apply find_some in H. destruct H as [_ H]. apply Nat.eqb_eq in H. exact H. Qed.

Theorem linked_sorted st sb : acyclic st ->
  dep_sorted st (linked st sb) /\ NoDup (ids (linked st sb)) /\ (forall i, In i (ids (linked st sb)) <-> reachable st sb i).
Proof.
  intros [rank HR]. destruct (topo_final st sb) as [V [RD T]]. unfold linked.
  destruct (topo (fuel_t st) st [sb] [] (reach (fuel_t st) st [sb] [] [])) as [out deg'] eqn:TP. cbn [fst snd] in T.
  pose proof (kahn_complete st sb V out deg' rank HR (rd_nodup _ _ _ _ RD) T) as KC.
  rewrite flat_map_nil.
  - rewrite app_nil_r. split; [|split].
    + intros pre v post E u Iu Ref.
      destruct (ordr_split st V out pre v post (t_ord _ _ _ _ _ _ T) E) as [P|P].
      * exfalso. subst pre. cbn [app] in E. pose proof (t_head _ _ _ _ _ _ T v post E) as Ev. subst v.
        assert (Ru : reachable st sb (s_id u)) by (apply (rd_iff _ _ _ _ RD), (t_outV _ _ _ _ _ _ T); exact Iu).
        pose proof (reach_rank st sb rank HR _ Ru) as RK.
        apply in_map_iff in Ref. destruct Ref as [n [En In_]]. specialize (HR _ _ In_). rewrite En in HR. lia.
      * apply P; [apply (t_outV _ _ _ _ _ _ T); exact Iu|apply occ_pos; exact Ref].
    + apply (t_nodup _ _ _ _ _ _ T).
    + intros i. rewrite <- (rd_iff _ _ _ _ RD). split; [|apply KC].
      intros Ii. apply in_map_iff in Ii. destruct Ii as [s [Es Is]]. subst i. apply (t_outV _ _ _ _ _ _ T). exact Is.
  - intros e Ie. destruct (Nat.eqb (snd e) 0); [reflexivity|]. destruct (find_sym st (fst e)) as [n|] eqn:Fn; [|reflexivity].
    apply find_sym_id in Fn. assert (X : existsb (fun s => Nat.eqb (s_id s) (s_id n)) out = true).
    { apply in_ids_existsb. rewrite Fn. apply KC. apply (t_keys _ _ _ _ _ _ T). exact Ie. }
    rewrite X. reflexivity.
Qed.

(* without the acyclicity assumption: what Kahn's loop appends is ordered; only the remainder (symbols on or behind a
   reference cycle, appended in map order by the implementation) is not *)
Theorem linked_ordered_part st sb :
  exists out rest V, linked st sb = out ++ rest /\ (forall i, In i V <-> reachable st sb i) /\
    forall pre v post, out = pre ++ v :: post -> pre = [] \/ allpreds st V (s_id v) pre.
Proof.
  destruct (topo_final st sb) as [V [RD T]]. unfold linked.
  destruct (topo (fuel_t st) st [sb] [] (reach (fuel_t st) st [sb] [] [])) as [out deg'] eqn:TP. cbn [fst snd] in T.
  eexists out, _, V. split; [reflexivity|]. split; [apply (rd_iff _ _ _ _ RD)|].
  intros pre v post E. apply (ordr_split st V out pre v post (t_ord _ _ _ _ _ _ T) E).
Qed.

(* --- from the list to the notifications --- *)
Inductive subseq {A} : list A -> list A -> Prop :=
| ss_nil : subseq [] []
| ss_skip x l' l : subseq l' l -> subseq l' (x :: l)
| ss_take x l' l : subseq l' l -> subseq (x :: l') (x :: l).

Lemma subseq_in {A} (l' l : list A) x : subseq l' l -> In x l' -> In x l.
Proof. induction 1 as [|y l' l S IH|y l' l S IH]; intros I; [exact I|right; apply IH, I|]. destruct I as [I|I]; [left; exact I|right; apply IH, I]. Qed.

Lemma subseq_nil {A} (l : list A) : subseq [] l.
Proof. induction l; constructor; assumption. Qed.

Lemma subseq_split {A} (l : list A) : forall pre' v post', subseq (pre' ++ v :: post') l ->
  exists pre post, l = pre ++ v :: post /\ subseq pre' pre /\ subseq post' post.
Proof.
  induction l as [|x l IH]; intros pre' v post' S.
  - inversion S. destruct pre'; discriminate.
  - inversion S as [|y l1 l2 S' E1 E2|y l1 l2 S' E1 E2]; subst.
    + destruct (IH _ _ _ S') as [pre [post [E [S1 S2]]]]. exists (x :: pre), post. subst l. split; [reflexivity|]. split; [constructor; exact S1|exact S2].
    + destruct pre' as [|p pre'].
      * cbn [app] in E1. injection E1 as Ev El. subst. exists [], l. split; [reflexivity|]. split; [constructor|exact S'].
      * cbn [app] in E1. injection E1 as Ep El. subst. destruct (IH _ _ _ S') as [pre [post [E [S1 S2]]]].
        exists (p :: pre), post. subst l. split; [reflexivity|]. split; [constructor; exact S1|exact S2].
Qed.

Lemma subseq_app {A} (a b c d : list A) : subseq a b -> subseq c d -> subseq (a ++ c) (b ++ d).
Proof. intros S1 S2. induction S1 as [|x l' l S IH|x l' l S IH]; cbn [app]; [exact S2|apply ss_skip, IH|apply ss_take, IH]. Qed.

Lemma subseq_rev {A} (l' l : list A) : subseq l' l -> subseq (rev l') (rev l).
Proof.
  induction 1 as [|x l' l S IH|x l' l S IH]; cbn [rev]; [constructor| |].
  - rewrite <- (app_nil_r (rev l')). apply subseq_app; [exact IH|]. apply ss_skip, ss_nil.
  - apply subseq_app; [exact IH|]. apply ss_take, ss_nil.
Qed.

Lemma NoDup_app_disj {A} (a b : list A) x : NoDup (a ++ b) -> In x a -> In x b -> False.
Proof.
  induction a as [|y a IH]; cbn [app]; intros ND Ia Ib; [destruct Ia|]. inversion ND as [|? ? Ny ND']; subst.
  destruct Ia as [Ia|Ia]; [subst y; apply Ny, in_or_app; right; exact Ib|exact (IH ND' Ia Ib)].
Qed.

Lemma dep_sorted_subseq st l l' : dep_sorted st l -> NoDup (ids l) -> subseq l' l -> dep_sorted st l'.
Proof.
  intros D ND S pre' v post' E u Iu Ref. subst l'.
  destruct (subseq_split l pre' v post' S) as [pre [post [El [S1 S2]]]].
  assert (Iul : In u l) by (apply (subseq_in _ _ _ S); exact Iu).
  pose proof (D pre v post El u Iul Ref) as Ipre.
  subst l. rewrite ids_app in ND. cbn [ids map] in ND.
  apply in_app_or in Iu. destruct Iu as [Iu|[Iu|Iu]].
  - apply in_map. exact Iu.
  - subst u. exfalso. apply (NoDup_app_disj _ _ (s_id v) ND Ipre). left. reflexivity.
  - exfalso. apply (NoDup_app_disj _ _ (s_id u) ND Ipre). right. apply in_map. apply (subseq_in _ _ _ S2). exact Iu.
Qed.

Definition loads (es : list ev) : list nat := flat_map (fun e => match e with ELoad i => [i] | _ => [] end) es.
Definition unloads (es : list ev) : list nat := flat_map (fun e => match e with EUnload i => [i] | _ => [] end) es.

Lemma sel_repeat_exec (sel : ev -> list nat) a b k : sel (EExec a b) = [] -> flat_map sel (repeat (EExec a b) k) = [].
Proof. intros H. induction k as [|k IH]; cbn [repeat flat_map]; [reflexivity|]. rewrite H, IH. reflexivity. Qed.

Lemma activate_sel st s : exists x, (x = [] \/ x = [s_inst s]) /\ loads (events (fst (activate st s))) = loads (events st) ++ x.
Proof.
  destruct (activate_shape st s) as [i [b E]]. unfold loads. rewrite E, !flat_map_app, sel_repeat_exec by reflexivity.
  destruct (snd (exec st s port_init)).
  - exists []. split; [left; reflexivity|reflexivity].
  - exists [s_inst s]. split; [right; reflexivity|]. cbn [flat_map app]. rewrite sel_repeat_exec by reflexivity. reflexivity.
Qed.
Lemma deactivate_sel st s : exists x, (x = [] \/ x = [s_inst s]) /\ unloads (events (fst (deactivate st s))) = unloads (events st) ++ x.
Proof.
  destruct (deactivate_shape st s) as [i [b E]]. unfold unloads. rewrite E, !flat_map_app, sel_repeat_exec by reflexivity.
  destruct (snd (exec st s port_term)).
  - exists []. split; [left; reflexivity|reflexivity].
  - exists [s_inst s]. split; [right; reflexivity|]. cbn [flat_map app]. rewrite sel_repeat_exec by reflexivity. reflexivity.
Qed.

Lemma life_fold_sel (f : tstate -> sym -> tstate * option nat) (sel : list ev -> list nat) l :
  (forall st s, exists x, (x = [] \/ x = [s_inst s]) /\ sel (events (fst (f st s))) = sel (events st) ++ x) ->
  forall st0 e0, exists l', subseq l' l /\
    sel (events (fst (life_fold_from f l (st0, e0)))) = sel (events st0) ++ map s_inst l'.
Proof.
  intros Hf. unfold life_fold_from. induction l as [|s l IH]; intros st0 e0; cbn [fold_left fst].
  - exists []. split; [constructor|]. cbn [map]. rewrite app_nil_r. reflexivity.
  - destruct e0 as [e|].
    + destruct (IH st0 (Some e)) as [l' [S E]]. exists l'. split; [constructor; exact S|exact E].
    + destruct (is_activated st0 s).
      * destruct (f st0 s) as [st1 e1] eqn:Ef. destruct (Hf st0 s) as [x [Hx Ex]]. rewrite Ef in Ex. cbn [fst] in Ex.
        destruct (IH st1 e1) as [l' [S E]]. destruct Hx as [Hx|Hx]; subst x.
        -- exists l'. split; [constructor; exact S|]. rewrite E, Ex, app_nil_r. reflexivity.
        -- exists (s :: l'). split; [constructor; exact S|]. rewrite E, Ex, <- app_assoc. reflexivity.
      * destruct (IH st0 None) as [l' [S E]]. exists l'. split; [constructor; exact S|exact E].
Qed.

(* Within one load, the load notifications come in an order in which every symbol follows all the symbols (of this
   operation) it refers to; within one unload, every symbol precedes them. *)
Theorem load_dependencies_first st sb : acyclic st ->
  exists l', subseq l' (linked st sb) /\
    loads (events (fst (load st sb))) = loads (events st) ++ map s_inst l' /\ dep_sorted st l'.
Proof.
  intros AC. destruct (linked_sorted st sb AC) as [D [ND _]].
  destruct (life_fold_sel activate loads (linked st sb) activate_sel st None) as [l' [S E]].
  exists l'. split; [exact S|]. split; [exact E|]. apply (dep_sorted_subseq st _ _ D ND S).
Qed.

Theorem unload_dependents_first st sb : acyclic st ->
  exists l', subseq l' (linked st sb) /\
    unloads (events (fst (unload st sb))) = unloads (events st) ++ map s_inst (rev l') /\ dep_sorted st l'.
Proof.
  intros AC. destruct (linked_sorted st sb AC) as [D [ND _]].
  destruct (life_fold_sel deactivate unloads (rev (linked st sb)) deactivate_sel st None) as [l' [S E]].
  exists (rev l'). apply subseq_rev in S. rewrite rev_involutive in S. split; [exact S|]. split; [rewrite rev_involutive; exact E|].
  apply (dep_sorted_subseq st _ _ D ND S).
Qed.

(* a checkable certificate of acyclicity for a concrete table (used by the non-vacuity examples) *)
Definition acyc_check (st : tstate) (rank : nat -> nat) : bool :=
  forallb (fun e : nat * list (nat * list rref) => forallb (fun n => Nat.ltb (rank (fst e)) (rank (s_id n))) (nx st (fst e))) (refs st).

Lemma acyc_check_sound st rank : acyc_check st rank = true -> acyclic st.
Proof.
  intros H. exists rank. intros j n In_. unfold acyc_check in H. rewrite forallb_forall in H.
  unfold nx, get_refs in In_. destruct (find _ (refs st)) as [e|] eqn:F; [|destruct In_].
  pose proof F as F2. apply find_some in F. destruct F as [Ie Ee]. apply Nat.eqb_eq in Ee. specialize (H e Ie). rewrite forallb_forall in H.
  subst j. apply Nat.ltb_lt. apply H. unfold nx, get_refs. rewrite F2. exact In_.
Qed.

(* with or without cycles, the walk holds exactly the symbols that reach the start symbol through references *)
Lemma nx_canon st j n : In n (nx st j) -> find_sym st (s_id n) = Some n.
Proof.
  unfold nx. intros H. apply in_flat_map in H. destruct H as [ir [_ H]]. apply in_flat_map in H. destruct H as [r [_ H]].
  destruct (find_sym st (rr_id r)) as [m|] eqn:F; [|destruct H]. destruct H as [H|[]]. subst m.
  rewrite (find_sym_id _ _ _ F). exact F.
Qed.

Theorem linked_members st sb : forall i, In i (ids (linked st sb)) <-> reachable st sb i.
Proof.
  destruct (topo_final st sb) as [V [RD T]]. unfold linked.
  destruct (topo (fuel_t st) st [sb] [] (reach (fuel_t st) st [sb] [] [])) as [out deg'] eqn:TP. cbn [fst snd] in T.
  intros i. rewrite <- (rd_iff _ _ _ _ RD), ids_app, in_app_iff. split.
  - intros [H|H].
    + apply in_map_iff in H. destruct H as [s [Es Is]]. subst i. apply (t_outV _ _ _ _ _ _ T). exact Is.
    + apply in_map_iff in H. destruct H as [s [Es Is]]. apply in_flat_map in Is. destruct Is as [e [Ie Is]].
      destruct (Nat.eqb (snd e) 0); [destruct Is|]. destruct (find_sym st (fst e)) as [n|] eqn:F; [|destruct Is].
      destruct (existsb _ out); [destruct Is|]. destruct Is as [Is|[]]. subst s i.
      rewrite (find_sym_id _ _ _ F). apply (t_keys _ _ _ _ _ _ T). exact Ie.
  - intros Ii. destruct (existsb (fun s => Nat.eqb (s_id s) i) out) eqn:X; [left; apply in_ids_existsb; exact X|right].
    assert (Ni : ~ In i (ids out)) by (rewrite <- in_ids_existsb, X; discriminate).
    assert (Nsb : i <> s_id sb).
    { intros E. subst i. destruct (t_sb _ _ _ _ _ _ T) as [H|[]]. contradiction. }
    assert (Cz : cnt deg' i <> 0).
    { intros Z. destruct (t_zero _ _ _ _ _ _ T i Ii Nsb Z) as [H|[]]. contradiction. }
    unfold cnt in Cz. destruct (find (fun e : nat * nat => Nat.eqb (fst e) i) deg') as [e|] eqn:F; [|contradiction].
    apply find_some in F. destruct F as [Ie Ee]. apply Nat.eqb_eq in Ee.
    pose proof Ii as Ri. apply (rd_iff _ _ _ _ RD) in Ri. destruct Ri as [|j n Hj In_]; [contradiction|].
    apply in_map_iff. exists n. split; [reflexivity|]. apply in_flat_map. exists e. split; [exact Ie|].
    destruct (Nat.eqb_spec (snd e) 0) as [Z|Z]; [contradiction|]. rewrite Ee, (nx_canon _ _ _ In_), X. left. reflexivity.
Qed.

(* --- one load (unload) whose flows all succeed notifies EXACTLY the members of the walk that pass the activation
   test: with [linked_members] and [is_activated_iff_closure], exactly the symbols that reach the start symbol through
   references and whose reference closure is present --- *)
Lemma life_fold_exact (f : tstate -> sym -> tstate * option nat) (mk : nat -> ev) l :
  (forall st s, same_tab st (fst (f st s))) ->
  (forall st s, exists es, events (fst (f st s)) = events st ++ es /\ (forall i, In (mk i) es -> i = s_inst s) /\
                           (snd (f st s) = None -> In (mk (s_inst s)) es)) ->
  forall st0, exists es,
    events (fst (life_fold_from f l (st0, None))) = events st0 ++ es /\
    (forall i, In (mk i) es -> exists s, In s l /\ s_inst s = i /\ is_activated st0 s = true) /\
    (snd (life_fold_from f l (st0, None)) = None ->
     forall s, In s l -> is_activated st0 s = true -> In (mk (s_inst s)) es).
Proof.
  intros Hs Hf. unfold life_fold_from. induction l as [|s l IH]; intros st0; cbn [fold_left fst snd].
  - exists []. rewrite app_nil_r. split; [reflexivity|]. split; [intros i []|intros _ x []].
  - destruct (is_activated st0 s) eqn:A.
    + destruct (f st0 s) as [st1 e1] eqn:Ef. pose proof (Hs st0 s) as S1. rewrite Ef in S1. cbn [fst] in S1.
      destruct (Hf st0 s) as [es1 [E1 [H1 K1]]]. rewrite Ef in E1, K1. cbn [fst snd] in E1, K1.
      destruct e1 as [e|].
      * rewrite life_fold_abort. cbn [fst snd]. exists es1. split; [exact E1|]. split; [|discriminate].
        intros i Ii. exists s. split; [left; reflexivity|]. split; [symmetry; apply H1; exact Ii|exact A].
      * destruct (IH st1) as [es2 [E2 [H2 K2]]]. exists (es1 ++ es2). split; [rewrite E2, E1, app_assoc; reflexivity|]. split.
        -- intros i Ii. apply in_app_or in Ii. destruct Ii as [Ii|Ii].
           ++ exists s. split; [left; reflexivity|]. split; [symmetry; apply H1; exact Ii|exact A].
           ++ destruct (H2 i Ii) as [x [Ix [Ex Ax]]]. exists x. split; [right; exact Ix|]. split; [exact Ex|].
              rewrite <- (is_activated_same st0 st1 x S1). exact Ax.
        -- intros Fin x Ix Ax. apply in_or_app. destruct Ix as [Ix|Ix].
           ++ subst x. left. apply K1. reflexivity.
           ++ right. apply K2; [exact Fin|exact Ix|]. rewrite (is_activated_same st0 st1 x S1). exact Ax.
    + destruct (IH st0) as [es [E [H K]]]. exists es. split; [exact E|]. split.
      * intros i Ii. destruct (H i Ii) as [x [Ix R]]. exists x. split; [right; exact Ix|exact R].
      * intros Fin x Ix Ax. destruct Ix as [Ix|Ix]; [subst x; congruence|]. apply K; assumption.
Qed.

Lemma activate_exact st s : exists es, events (fst (activate st s)) = events st ++ es /\
  (forall i, In (ELoad i) es -> i = s_inst s) /\ (snd (activate st s) = None -> In (ELoad (s_inst s)) es).
Proof.
  destruct (activate_shape st s) as [i [b E]]. eexists. split; [exact E|]. split.
  - intros j Ij. apply in_app_or in Ij. destruct Ij as [Ij|Ij]; [apply in_repeat_inv in Ij; discriminate|].
    destruct (snd (exec st s port_init)); [contradiction|]. destruct Ij as [Ej|Ij]; [congruence|apply in_repeat_inv in Ij; discriminate].
  - intros N. unfold activate in N. destruct (exec st s port_init) as [st1 [e|]]; cbn [snd] in *; [discriminate|].
    apply in_or_app. right. left. reflexivity.
Qed.
Lemma deactivate_exact st s : exists es, events (fst (deactivate st s)) = events st ++ es /\
  (forall i, In (EUnload i) es -> i = s_inst s) /\ (snd (deactivate st s) = None -> In (EUnload (s_inst s)) es).
Proof.
  destruct (deactivate_shape st s) as [i [b E]]. eexists. split; [exact E|]. split.
  - intros j Ij. apply in_app_or in Ij. destruct Ij as [Ij|Ij]; [apply in_repeat_inv in Ij; discriminate|].
    destruct (snd (exec st s port_term)); [contradiction|]. destruct Ij as [Ej|Ij]; [congruence|apply in_repeat_inv in Ij; discriminate].
  - intros N. unfold deactivate in N. destruct (exec st s port_term) as [st1 [e|]]; cbn [snd] in *; [discriminate|].
    apply in_or_app. right. left. reflexivity.
Qed.

Theorem load_exactly st sb : snd (load st sb) = None ->
  exists es, events (fst (load st sb)) = events st ++ es /\
    forall i, In (ELoad i) es <->
      exists s, In s (linked st sb) /\ s_inst s = i /\ reachable st sb (s_id s) /\ is_activated st s = true.
Proof.
  intros Fin. unfold load, life_fold in *.
  destruct (life_fold_exact activate ELoad (linked st sb) activate_same activate_exact st) as [es [E [H K]]].
  exists es. split; [exact E|]. intros i. split.
  - intros Ii. destruct (H i Ii) as [s [Is [Es As]]]. exists s. split; [exact Is|]. split; [exact Es|]. split; [|exact As].
    apply linked_members. apply in_map. exact Is.
  - intros [s [Is [Es [_ As]]]]. subst i. apply K; assumption.
Qed.

Theorem unload_exactly st sb : snd (unload st sb) = None ->
  exists es, events (fst (unload st sb)) = events st ++ es /\
    forall i, In (EUnload i) es <->
      exists s, In s (linked st sb) /\ s_inst s = i /\ reachable st sb (s_id s) /\ is_activated st s = true.
Proof.
  intros Fin. unfold unload, life_fold in *.
  destruct (life_fold_exact deactivate EUnload (rev (linked st sb)) deactivate_same deactivate_exact st) as [es [E [H K]]].
  exists es. split; [exact E|]. intros i. split.
  - intros Ii. destruct (H i Ii) as [s [Is [Es As]]]. apply in_rev in Is. exists s. split; [exact Is|]. split; [exact Es|]. split; [|exact As].
    apply linked_members. apply in_map. exact Is.
  - intros [s [Is [Es [_ As]]]]. subst i. apply K; [exact Fin|apply in_rev; rewrite rev_involutive; exact Is|exact As].
Qed.

(* every element of the walk is the start symbol or a symbol the table holds under its id *)
Lemma topo_elems st sb : forall fuel queue out deg,
  (forall x, In x (queue ++ out) -> x = sb \/ find_sym st (s_id x) = Some x) ->
  forall x, In x (fst (topo fuel st queue out deg)) -> x = sb \/ find_sym st (s_id x) = Some x.
Proof.
  induction fuel as [|f IH]; intros queue out deg H x Ix.
  - cbn in Ix. apply H. apply in_or_app. right. exact Ix.
  - destruct queue as [|curr q]; [cbn in Ix; apply H; exact Ix|]. rewrite topo_step in Ix.
    destruct (existsb (fun s => Nat.eqb (s_id s) (s_id curr)) out).
    + apply (IH q out deg); [|exact Ix]. intros y Iy. apply H. cbn [app]. right. exact Iy.
    + destruct (fold_left tf (nx st (s_id curr)) (deg, [])) as [deg' newq] eqn:F.
      destruct (tf_fold (nx st (s_id curr)) deg []) as [_ [_ [C _]]]. rewrite F in C. cbn [fst snd] in C.
      apply (IH (q ++ newq) (out ++ [curr]) deg'); [|exact Ix]. intros y Iy.
      apply in_app_or in Iy. destruct Iy as [Iy|Iy].
      * apply in_app_or in Iy. destruct Iy as [Iy|Iy].
        -- apply H. cbn [app]. right. apply in_or_app. left. exact Iy.
        -- destruct (C y Iy) as [[]|[Iyn _]]. right. apply (nx_canon st (s_id curr)). exact Iyn.
      * apply in_app_or in Iy. destruct Iy as [Iy|[Iy|[]]].
        -- apply H. cbn [app]. right. apply in_or_app. right. exact Iy.
        -- subst y. apply H. left. reflexivity.
Qed.

(* ---- the walk never lists a symbol twice (cycles included) ---- *)
Lemma bump_nodup d n : NoDup (map fst d) -> NoDup (map fst (bump d n)).
Proof.
  intros ND. unfold bump. destruct (existsb (fun e : nat * nat => Nat.eqb (fst e) (s_id n)) d) eqn:X.
  - rewrite map_map. erewrite map_ext; [exact ND|]. intros e. cbn. destruct (Nat.eqb _ _); reflexivity.
  - rewrite map_app. cbn [map fst]. apply NoDup_app_snoc; [exact ND|]. intros I. apply in_map_iff in I. destruct I as [e [Ee Ie]].
    assert (existsb (fun e : nat * nat => Nat.eqb (fst e) (s_id n)) d = true) by (apply existsb_exists; exists e; split; [exact Ie|apply Nat.eqb_eq; exact Ee]).
    congruence.
Qed.

Lemma fold_bump_nodup l : forall d, NoDup (map fst d) -> NoDup (map fst (fold_left bump l d)).
Proof. induction l as [|n l IH]; intros d ND; cbn [fold_left]; [exact ND|]. apply IH, bump_nodup, ND. Qed.

Lemma reach_keys_nodup st : forall fuel queue V deg, NoDup (map fst deg) -> NoDup (map fst (reach fuel st queue V deg)).
Proof.
  induction fuel as [|f IH]; intros queue V deg ND; [exact ND|]. destruct queue as [|curr q]; [exact ND|]. rewrite reach_step.
  destruct (mem (s_id curr) V); [apply IH; exact ND|]. apply IH. apply fold_bump_nodup. exact ND.
Qed.

Lemma topo_keys st : forall fuel queue out deg, map fst (snd (topo fuel st queue out deg)) = map fst deg.
Proof.
  induction fuel as [|f IH]; intros queue out deg; [reflexivity|]. destruct queue as [|curr q]; [reflexivity|]. rewrite topo_step.
  destruct (existsb _ out); [apply IH|].
  destruct (fold_left tf (nx st (s_id curr)) (deg, [])) as [deg' newq] eqn:F.
  destruct (tf_fold (nx st (s_id curr)) deg []) as [_ [B _]]. rewrite F in B. cbn [fst] in B. rewrite IH. exact B.
Qed.

Theorem linked_nodup st sb : NoDup (ids (linked st sb)).
Proof.
  destruct (topo_final st sb) as [V [RD T]]. unfold linked.
  pose proof (topo_keys st (fuel_t st) [sb] [] (reach (fuel_t st) st [sb] [] [])) as TK.
  pose proof (reach_keys_nodup st (fuel_t st) [sb] [] [] (NoDup_nil _)) as RK.
  destruct (topo (fuel_t st) st [sb] [] (reach (fuel_t st) st [sb] [] [])) as [out deg'] eqn:TP. cbn [fst snd] in *.
  rewrite <- TK in RK. clear TK. pose proof (t_nodup _ _ _ _ _ _ T) as NO. clear T RD TP.
  rewrite ids_app. induction deg' as [|e d IH]; cbn [flat_map]; [rewrite app_nil_r; exact NO|].
  inversion RK as [|? ? Ne RK']; subst. specialize (IH RK').
  destruct (Nat.eqb (snd e) 0); [exact IH|]. destruct (find_sym st (fst e)) as [n|] eqn:F; [|exact IH].
  destruct (existsb (fun s => Nat.eqb (s_id s) (s_id n)) out) eqn:X; [exact IH|]. cbn [app].
  pose proof (find_sym_id _ _ _ F) as En.
  assert (Nout : ~ In (s_id n) (ids out)) by (rewrite <- in_ids_existsb, X; discriminate).
  assert (Nrest : ~ In (s_id n) (ids (flat_map (fun e0 : nat * nat =>
            if Nat.eqb (snd e0) 0 then [] else match find_sym st (fst e0) with
            | Some n0 => if existsb (fun s => Nat.eqb (s_id s) (s_id n0)) out then [] else [n0] | None => [] end) d))).
  { intros I. apply in_map_iff in I. destruct I as [m [Em Im]]. apply in_flat_map in Im. destruct Im as [e' [Ie' Im]].
    destruct (Nat.eqb (snd e') 0); [destruct Im|]. destruct (find_sym st (fst e')) as [n'|] eqn:F'; [|destruct Im].
    destruct (existsb (fun s => Nat.eqb (s_id s) (s_id n')) out); [destruct Im|]. destruct Im as [Im|[]]. subst m.
    apply Ne. rewrite <- En, <- Em, (find_sym_id _ _ _ F'). apply in_map. exact Ie'. }
  cbn [ids map]. clear -IH Nout Nrest NO.
  assert (G : forall (a b : list nat) (x : nat), NoDup (a ++ b) -> ~ In x a -> ~ In x b -> NoDup (a ++ x :: b)).
  { induction a as [|y a IHa]; cbn; intros b x ND Na Nb; [constructor; assumption|]. inversion ND as [|? ? Ny ND']; subst. constructor.
    - intros I. apply in_app_or in I. destruct I as [I|[I|I]]; [apply Ny, in_or_app; left; exact I|apply Na; left; symmetry; exact I|apply Ny, in_or_app; right; exact I].
    - apply IHa; auto. }
  apply G; assumption.
Qed.
