(* C06 / C07, the reference index: in every state reached by a well-formed history, Table.references is exactly the
   reverse of the resolved port references of the present symbols (Part 1: the index as a set of entries, and what
   the three procedures that edit it - links, unlinks, the drop of a freed symbol's entry - do to that set). *)
From Coq Require Import List Arith Bool Lia.
From Uf Require Import Table.Table Table.TableProofs.
Import ListNotations.

(* an entry of the index: under target [t], in-port [q], the referrer [r] through its out-port [o] *)
Definition InRef (rs : list (nat * list (nat * list rref))) (t q r o : nat) : Prop :=
  exists m l x, In (t, m) rs /\ In (q, l) m /\ In x l /\ rr_id x = r /\ rr_port x = o.

(* ---- add_ref ---- *)
Definition upd_in (inport : nat) (r : rref) : list (nat * list rref) -> list (nat * list rref) :=
  fix upd_in (l : list (nat * list rref)) : list (nat * list rref) :=
    match l with
    | [] => [(inport, [r])]
    | (p, rl) :: t => if Nat.eqb p inport then (p, rl ++ [r]) :: t else (p, rl) :: upd_in t
    end.

Lemma add_ref_eq rs target inport r :
  add_ref rs target inport r =
  (fix upd (l : list (nat * list (nat * list rref))) : list (nat * list (nat * list rref)) :=
     match l with
     | [] => [(target, upd_in inport r [])]
     | (id, m) :: t => if Nat.eqb id target then (id, upd_in inport r m) :: t else (id, m) :: upd t
     end) rs.
Proof. reflexivity. Qed.

Definition InM (m : list (nat * list rref)) (q r o : nat) : Prop :=
  exists l x, In (q, l) m /\ In x l /\ rr_id x = r /\ rr_port x = o.

Lemma upd_in_spec inport x m q r o :
  InM (upd_in inport x m) q r o <-> InM m q r o \/ (q = inport /\ r = rr_id x /\ o = rr_port x).
Proof.
  induction m as [|[p rl] m IH]; cbn [upd_in].
  - split.
    + intros [l [y [[E|[]] [Iy [E1 E2]]]]]. injection E as <- <-. destruct Iy as [<-|[]]. right. auto.
    + intros [[l [y [[] _]]]|[-> [-> ->]]]. exists [x], x. cbn. auto.
  - destruct (Nat.eqb_spec p inport) as [E|E].
    + subst p. split.
      * intros [l [y [[El|Il] [Iy [E1 E2]]]]].
        -- injection El as <- <-. apply in_app_or in Iy. destruct Iy as [Iy|[<-|[]]].
           ++ left. exists rl, y. cbn. auto.
           ++ right. auto.
        -- left. exists l, y. cbn. auto.
      * intros [[l [y [[El|Il] [Iy [E1 E2]]]]]|[-> [-> ->]]].
        -- injection El as <- <-. exists (rl ++ [x]), y. cbn. split; [left; reflexivity|]. split; [apply in_or_app; left; exact Iy|auto].
        -- exists l, y. cbn. auto.
        -- exists (rl ++ [x]), x. cbn. split; [left; reflexivity|]. split; [apply in_or_app; right; left; reflexivity|auto].
    + split.
      * intros [l [y [[El|Il] [Iy [E1 E2]]]]].
        -- injection El as <- <-. left. exists rl, y. cbn. auto.
        -- assert (H : InM (upd_in inport x m) q r o) by (exists l, y; auto). apply IH in H. destruct H as [[l' [y' [I1 R]]]|H]; [|right; exact H].
           left. exists l', y'. cbn. auto.
      * intros [[l [y [[El|Il] [Iy [E1 E2]]]]]|H].
        -- injection El as <- <-. exists rl, y. cbn. auto.
        -- assert (H : InM (upd_in inport x m) q r o) by (apply IH; left; exists l, y; auto).
           destruct H as [l' [y' [I1 R]]]. exists l', y'. cbn. auto.
        -- assert (H' : InM (upd_in inport x m) q r o) by (apply IH; right; exact H).
           destruct H' as [l' [y' [I1 R]]]. exists l', y'. cbn. auto.
Qed.

Lemma InRef_InM rs t q r o : InRef rs t q r o <-> exists m, In (t, m) rs /\ InM m q r o.
Proof.
  split.
  - intros [m [l [x [A [B C]]]]]. exists m. split; [exact A|]. exists l, x. auto.
  - intros [m [A [l [x [B C]]]]]. exists m, l, x. auto.
Qed.

Lemma add_ref_spec rs t q x t' q' r' o' :
  InRef (add_ref rs t q x) t' q' r' o' <-> InRef rs t' q' r' o' \/ (t' = t /\ q' = q /\ r' = rr_id x /\ o' = rr_port x).
Proof.
  rewrite add_ref_eq. rewrite !InRef_InM. induction rs as [|[id m] rs IH].
  - split.
    + intros [m [[E|[]] H]]. injection E as <- <-. change (InM (upd_in q x []) q' r' o') in H. apply upd_in_spec in H. destruct H as [[l [y [[] _]]]|H]. right. tauto.
    + intros [[m [[] _]]|[-> H]]. exists (upd_in q x []). split; [left; reflexivity|]. apply upd_in_spec. right. exact H.
  - destruct (Nat.eqb_spec id t) as [E|E].
    + subst id. split.
      * intros [m' [[Em|Im] H]].
        -- injection Em as <- <-. apply upd_in_spec in H. destruct H as [H|H]; [left; exists m; split; [left; reflexivity|exact H]|right; tauto].
        -- left. exists m'. split; [right; exact Im|exact H].
      * intros [[m' [[Em|Im] H]]|[-> H]].
        -- injection Em as <- <-. eexists. split; [left; reflexivity|]. apply upd_in_spec. left. exact H.
        -- exists m'. split; [right; exact Im|exact H].
        -- eexists. split; [left; reflexivity|]. apply upd_in_spec. right. exact H.
    + split.
      * intros [m' [[Em|Im] H]].
        -- injection Em as <- <-. left. exists m. split; [left; reflexivity|exact H].
        -- assert (H' : exists m0, In (t', m0) ((fix upd (l : list (nat * list (nat * list rref))) := match l with
                       | [] => [(t, upd_in q x [])]
                       | (id, m) :: t0 => if Nat.eqb id t then (id, upd_in q x m) :: t0 else (id, m) :: upd t0 end) rs) /\ InM m0 q' r' o') by (exists m'; auto).
           apply IH in H'. destruct H' as [[m0 [I0 H0]]|H']; [left; exists m0; split; [right; exact I0|exact H0]|right; exact H'].
      * intros [[m' [[Em|Im] H]]|H].
        -- injection Em as <- <-. exists m. split; [left; reflexivity|exact H].
        -- destruct (proj2 IH (or_introl (ex_intro _ m' (conj Im H)))) as [m0 [I0 H0]]. exists m0. split; [right; exact I0|exact H0].
        -- destruct (proj2 IH (or_intror H)) as [m0 [I0 H0]]. exists m0. split; [right; exact I0|exact H0].
Qed.

Lemma add_ref_keys rs t q x : forall k, In k (map fst (add_ref rs t q x)) <-> In k (map fst rs) \/ k = t.
Proof.
  rewrite add_ref_eq. induction rs as [|[id m] rs IH]; intros k.
  - cbn. split; [intros [H|[]]; auto|intros [[]|H]; auto].
  - destruct (Nat.eqb_spec id t) as [E|E]; cbn [map fst In].
    + subst id. split; [intros [H|H]; auto|intros [[H|H]|H]; auto].
    + rewrite IH. tauto.
Qed.

Lemma add_ref_nodup rs t q x : NoDup (map fst rs) -> NoDup (map fst (add_ref rs t q x)).
Proof.
  rewrite add_ref_eq. induction rs as [|[id m] rs IH]; intros ND.
  - cbn. constructor; [intros []|constructor].
  - inversion ND as [|? ? Ni ND']; subst. destruct (Nat.eqb_spec id t) as [E|E]; cbn [map fst].
    + constructor; assumption.
    + constructor; [|apply IH; exact ND']. intros I. apply (add_ref_keys rs t q x) in I. destruct I as [I|I]; [exact (Ni I)|exact (E I)].
Qed.

(* ---- the removal of one entry (unlink_ref) ---- *)
Definition keep_ref (r o : nat) (x : rref) : bool := negb (Nat.eqb (rr_id x) r) || negb (Nat.eqb (rr_port x) o).

Definition del_in (q r o : nat) (m : list (nat * list rref)) : list (nat * list rref) :=
  flat_map (fun ir : nat * list rref =>
              if Nat.eqb (fst ir) q then
                match filter (keep_ref r o) (snd ir) with
                | [] => []
                | keep => [(fst ir, keep)]
                end
              else [ir]) m.

Definition del_ref (rs : list (nat * list (nat * list rref))) (t q r o : nat) : list (nat * list (nat * list rref)) :=
  map (fun e : nat * list (nat * list rref) => if Nat.eqb (fst e) t then (fst e, del_in q r o (snd e)) else e) rs.

Lemma unlink_ref_refs sb o st p :
  refs (unlink_ref sb o st p) =
  match resolve_sym st (s_ns sb) p with
  | Some ref => del_ref (refs st) (s_id ref) (pr_port p) (s_id sb) o
  | None => refs st
  end.
Proof. unfold unlink_ref. destruct (resolve_sym st (s_ns sb) p); reflexivity. Qed.

Lemma keep_ref_false r o x : keep_ref r o x = false <-> rr_id x = r /\ rr_port x = o.
Proof.
  unfold keep_ref. rewrite orb_false_iff, !negb_false_iff, !Nat.eqb_eq. tauto.
Qed.

Lemma del_in_spec q r o m q' r' o' :
  InM (del_in q r o m) q' r' o' <-> InM m q' r' o' /\ ~ (q' = q /\ r' = r /\ o' = o).
Proof.
  unfold del_in. induction m as [|[p l] m IH]; cbn [flat_map].
  - split; [intros [l [y [[] _]]]|intros [[l [y [[] _]]] _]].
  - assert (Split : forall A, InM (A ++ flat_map (fun ir : nat * list rref =>
              if Nat.eqb (fst ir) q then match filter (keep_ref r o) (snd ir) with [] => [] | keep => [(fst ir, keep)] end else [ir]) m) q' r' o'
            <-> InM A q' r' o' \/ (InM m q' r' o' /\ ~ (q' = q /\ r' = r /\ o' = o))).
    { intros A. rewrite <- IH. split.
      - intros [l0 [y [I R]]]. apply in_app_or in I. destruct I as [I|I]; [left|right]; exists l0, y; auto.
      - intros [[l0 [y [I R]]]|[l0 [y [I R]]]]; exists l0, y; (split; [apply in_or_app; auto|exact R]). }
    rewrite Split. cbn [fst snd]. destruct (Nat.eqb_spec p q) as [E|E].
    + subst p. assert (HA : InM (match filter (keep_ref r o) l with [] => [] | keep => [(q, keep)] end) q' r' o'
                             <-> (q' = q /\ exists y, In y l /\ keep_ref r o y = true /\ rr_id y = r' /\ rr_port y = o')).
      { destruct (filter (keep_ref r o) l) as [|z k] eqn:F.
        - split; [intros [l0 [y [[] _]]]|]. intros [_ [y [Iy [Ky _]]]]. assert (In y (filter (keep_ref r o) l)) by (apply filter_In; auto). rewrite F in H. destruct H.
        - rewrite <- F. split.
          + intros [l0 [y [[El|[]] [Iy R]]]]. injection El as <- <-. apply filter_In in Iy. split; [reflexivity|]. exists y. tauto.
          + intros [-> [y [Iy [Ky R]]]]. exists (filter (keep_ref r o) l), y. split; [left; reflexivity|]. split; [apply filter_In; auto|exact R]. }
      rewrite HA. split.
      * intros [[-> [y [Iy [Ky [E1 E2]]]]]|[[l0 [y [I R]]] N]].
        -- split; [exists l, y; cbn; auto|]. intros [_ [Er Eo]]. subst r' o'.
           assert (keep_ref (rr_id y) (rr_port y) y = false) by (apply keep_ref_false; auto). congruence.
        -- split; [exists l0, y; cbn; auto|exact N].
      * intros [[l0 [y [[El|Il] [Iy [E1 E2]]]]] N].
        -- injection El as <- <-. left. split; [reflexivity|]. exists y. split; [exact Iy|]. split; [|auto].
           destruct (keep_ref r o y) eqn:K; [reflexivity|]. apply keep_ref_false in K. exfalso. apply N. destruct K. subst. auto.
        -- right. split; [exists l0, y; auto|exact N].
    + split.
      * intros [[l0 [y [[El|[]] [Iy R]]]]|[[l0 [y [I R]]] N]].
        -- injection El as <- <-. split; [exists l, y; cbn; auto|]. intros [Eq _]. congruence.
        -- split; [exists l0, y; cbn; auto|exact N].
      * intros [[l0 [y [[El|Il] [Iy R]]]] N].
        -- injection El as <- <-. left. exists l, y. cbn. auto.
        -- right. split; [exists l0, y; auto|exact N].
Qed.

Lemma del_ref_spec rs t q r o t' q' r' o' :
  InRef (del_ref rs t q r o) t' q' r' o' <-> InRef rs t' q' r' o' /\ ~ (t' = t /\ q' = q /\ r' = r /\ o' = o).
Proof.
  rewrite !InRef_InM. unfold del_ref. split.
  - intros [m [I H]]. apply in_map_iff in I. destruct I as [[k m0] [E I]]. cbn [fst snd] in E.
    destruct (Nat.eqb_spec k t) as [Ek|Ek].
    + injection E as <- <-. apply del_in_spec in H. destruct H as [H N]. split; [exists m0; auto|]. intros [_ N']. exact (N N').
    + injection E as <- <-. split; [exists m0; auto|]. intros [Et _]. congruence.
  - intros [[m [I H]] N]. destruct (Nat.eqb_spec t' t) as [Et|Et].
    + subst t'. exists (del_in q r o m). split.
      * apply in_map_iff. exists (t, m). cbn [fst snd]. rewrite Nat.eqb_refl. auto.
      * apply del_in_spec. split; [exact H|]. intros N'. apply N. tauto.
    + exists m. split; [|exact H]. apply in_map_iff. exists (t', m). cbn [fst snd].
      destruct (Nat.eqb_spec t' t); [contradiction|]. auto.
Qed.

Lemma del_ref_keys rs t q r o : map fst (del_ref rs t q r o) = map fst rs.
Proof. unfold del_ref. rewrite map_map. apply map_ext. intros e. destruct (Nat.eqb _ _); reflexivity. Qed.

(* ---- resolution only looks at the symbols and the name map ---- *)
Definition same_res (st0 st : tstate) : Prop := syms st = syms st0 /\ nsmap st = nsmap st0.

Lemma same_res_refl st : same_res st st. Proof. split; reflexivity. Qed.
Lemma same_res_trans a b c : same_res a b -> same_res b c -> same_res a c.
Proof. intros [A1 A2] [B1 B2]. split; congruence. Qed.

Lemma resolve_sym_same st0 st ns p : same_res st0 st -> resolve_sym st ns p = resolve_sym st0 ns p.
Proof.
  intros [A B]. unfold resolve_sym, resolve, ns_lookup, find_sym. rewrite A, B. reflexivity.
Qed.

(* ---- links(sb), first half ---- *)
Definition OwnE (st : tstate) (sb : sym) (t q o : nat) : Prop :=
  exists np p tt, In np (s_ports sb) /\ fst np = o /\ In p (snd np) /\ pr_port p = q /\
                  resolve_sym st (s_ns sb) p = Some tt /\ s_id tt = t /\ s_ns tt = s_ns sb.

Lemma link_own_ref_refs sb o st p :
  same_res st (link_own_ref sb o st p) /\
  refs (link_own_ref sb o st p) =
  match resolve_sym st (s_ns sb) p with
  | Some ref => if Nat.eqb (s_ns ref) (s_ns sb)
                then add_ref (refs st) (s_id ref) (pr_port p) (mkrref (s_id sb) (pr_name p) o) else refs st
  | None => refs st
  end.
Proof.
  unfold link_own_ref. destruct (resolve_sym st (s_ns sb) p) as [ref|]; [|split; [apply same_res_refl|reflexivity]].
  destruct (Nat.eqb (s_ns ref) (s_ns sb)); split; try apply same_res_refl; try reflexivity. split; reflexivity.
Qed.

Lemma links_own_prefs sb o st0 : forall ps st, same_res st0 st ->
  same_res st0 (fold_left (link_own_ref sb o) ps st) /\
  forall t q r o', InRef (refs (fold_left (link_own_ref sb o) ps st)) t q r o' <->
    InRef (refs st) t q r o' \/
    (r = s_id sb /\ o' = o /\ exists p tt, In p ps /\ pr_port p = q /\ resolve_sym st0 (s_ns sb) p = Some tt /\ s_id tt = t /\ s_ns tt = s_ns sb).
Proof.
  induction ps as [|p ps IH]; intros st S; cbn [fold_left].
  - split; [exact S|]. intros t q r o'. split; [auto|]. intros [H|[_ [_ [p [tt [[] _]]]]]]. exact H.
  - destruct (link_own_ref_refs sb o st p) as [S1 R1]. pose proof (same_res_trans _ _ _ S S1) as S2.
    destruct (IH _ S2) as [S3 H]. split; [exact S3|]. intros t q r o'. rewrite H, R1, (resolve_sym_same st0 st _ _ S).
    destruct (resolve_sym st0 (s_ns sb) p) as [ref|] eqn:Rs.
    + destruct (Nat.eqb_spec (s_ns ref) (s_ns sb)) as [En|En].
      * rewrite add_ref_spec. cbn [rr_id rr_port]. split.
        -- intros [[H1|[-> [-> [-> ->]]]]|[-> [-> [p' [tt [Ip R]]]]]].
           ++ left. exact H1.
           ++ right. split; [reflexivity|]. split; [reflexivity|]. exists p, ref. split; [left; reflexivity|]. auto.
           ++ right. split; [reflexivity|]. split; [reflexivity|]. exists p', tt. split; [right; exact Ip|exact R].
        -- intros [H1|[-> [-> [p' [tt [[Ep|Ip] [Eq [Er [Et En']]]]]]]]].
           ++ left. left. exact H1.
           ++ subst p'. rewrite Rs in Er. injection Er as <-. left. right. auto.
           ++ right. split; [reflexivity|]. split; [reflexivity|]. exists p', tt. auto.
      * split.
        -- intros [H1|[-> [-> [p' [tt [Ip R]]]]]]; [left; exact H1|]. right. split; [reflexivity|]. split; [reflexivity|]. exists p', tt. split; [right; exact Ip|exact R].
        -- intros [H1|[-> [-> [p' [tt [[Ep|Ip] [Eq [Er [Et En']]]]]]]]]; [left; exact H1| |].
           ++ subst p'. rewrite Rs in Er. injection Er as <-. contradiction.
           ++ right. split; [reflexivity|]. split; [reflexivity|]. exists p', tt. auto.
    + split.
      * intros [H1|[-> [-> [p' [tt [Ip R]]]]]]; [left; exact H1|]. right. split; [reflexivity|]. split; [reflexivity|]. exists p', tt. split; [right; exact Ip|exact R].
      * intros [H1|[-> [-> [p' [tt [[Ep|Ip] [Eq [Er R]]]]]]]]; [left; exact H1| |].
        -- subst p'. rewrite Rs in Er. discriminate.
        -- right. split; [reflexivity|]. split; [reflexivity|]. exists p', tt. auto.
Qed.

Lemma links_own_ports sb st0 : forall nps st, same_res st0 st ->
  same_res st0 (fold_left (fun st (np : nat * list pref) => fold_left (link_own_ref sb (fst np)) (snd np) st) nps st) /\
  forall t q r o, InRef (refs (fold_left (fun st (np : nat * list pref) => fold_left (link_own_ref sb (fst np)) (snd np) st) nps st)) t q r o <->
    InRef (refs st) t q r o \/
    (r = s_id sb /\ exists np p tt, In np nps /\ fst np = o /\ In p (snd np) /\ pr_port p = q /\
                                    resolve_sym st0 (s_ns sb) p = Some tt /\ s_id tt = t /\ s_ns tt = s_ns sb).
Proof.
  induction nps as [|np nps IH]; intros st S; cbn [fold_left].
  - split; [exact S|]. intros t q r o. split; [auto|]. intros [H|[_ [np [p [tt [[] _]]]]]]. exact H.
  - destruct (links_own_prefs sb (fst np) st0 (snd np) st S) as [S1 H1]. destruct (IH _ S1) as [S2 H2].
    split; [exact S2|]. intros t q r o. rewrite H2, H1. split.
    + intros [[H|[-> [-> [p [tt [Ip R]]]]]]|[-> [np' [p [tt [Inp R]]]]]].
      * left. exact H.
      * right. split; [reflexivity|]. exists np, p, tt. split; [left; reflexivity|]. split; [reflexivity|]. split; [exact Ip|exact R].
      * right. split; [reflexivity|]. exists np', p, tt. split; [right; exact Inp|exact R].
    + intros [H|[-> [np' [p [tt [[Enp|Inp] [Eo [Ip R]]]]]]]].
      * left. left. exact H.
      * subst np'. left. right. split; [reflexivity|]. split; [symmetry; exact Eo|]. exists p, tt. auto.
      * right. split; [reflexivity|]. exists np', p, tt. auto.
Qed.

Lemma links_own_spec st sb :
  same_res st (links_own st sb) /\
  forall t q r o, InRef (refs (links_own st sb)) t q r o <-> InRef (refs st) t q r o \/ (r = s_id sb /\ OwnE st sb t q o).
Proof.
  unfold links_own. destruct (links_own_ports sb st (s_ports sb) st (same_res_refl st)) as [S H]. split; [exact S|].
  intros t q r o. rewrite H. unfold OwnE. split; (intros [A|[-> [np [p [tt R]]]]]; [left; exact A|right; split; [reflexivity|exists np, p, tt; exact R]]).
Qed.

(* ---- links(sb), second half: what the other symbols of the namespace say about sb ---- *)
Definition matchp (sb : sym) (p : pref) : bool :=
  opt_eqb (pr_id p) (Some (s_id sb)) ||
  (match pr_name p with Some n => opt_eqb (Some n) (s_name sb) | None => false end).

Lemma link_in_ref_refs sb ref o st p :
  same_res st (link_in_ref sb ref o st p) /\
  refs (link_in_ref sb ref o st p) =
  if matchp sb p then add_ref (refs st) (s_id sb) (pr_port p) (mkrref (s_id ref) (pr_name p) o) else refs st.
Proof.
  unfold link_in_ref, matchp. destruct (_ || _); split; try apply same_res_refl; try reflexivity. split; reflexivity.
Qed.

Lemma links_in_prefs sb ref o : forall ps st,
  same_res st (fold_left (link_in_ref sb ref o) ps st) /\
  forall t q r o', InRef (refs (fold_left (link_in_ref sb ref o) ps st)) t q r o' <->
    InRef (refs st) t q r o' \/
    (t = s_id sb /\ r = s_id ref /\ o' = o /\ exists p, In p ps /\ pr_port p = q /\ matchp sb p = true).
Proof.
  induction ps as [|p ps IH]; intros st; cbn [fold_left].
  - split; [apply same_res_refl|]. intros t q r o'. split; [auto|]. intros [H|[_ [_ [_ [p [[] _]]]]]]. exact H.
  - destruct (link_in_ref_refs sb ref o st p) as [S1 R1]. destruct (IH (link_in_ref sb ref o st p)) as [S2 H].
    split; [eapply same_res_trans; eassumption|]. intros t q r o'. rewrite H, R1.
    destruct (matchp sb p) eqn:M.
    + rewrite add_ref_spec. cbn [rr_id rr_port]. split.
      * intros [[H1|[-> [-> [-> ->]]]]|[-> [-> [-> [p' [Ip R]]]]]].
        -- left. exact H1.
        -- right. repeat (split; [reflexivity|]). exists p. split; [left; reflexivity|]. auto.
        -- right. repeat (split; [reflexivity|]). exists p'. split; [right; exact Ip|exact R].
      * intros [H1|[-> [-> [-> [p' [[Ep|Ip] [Eq Mp]]]]]]].
        -- left. left. exact H1.
        -- subst p'. left. right. auto.
        -- right. repeat (split; [reflexivity|]). exists p'. auto.
    + split.
      * intros [H1|[-> [-> [-> [p' [Ip R]]]]]]; [left; exact H1|]. right. repeat (split; [reflexivity|]). exists p'. split; [right; exact Ip|exact R].
      * intros [H1|[-> [-> [-> [p' [[Ep|Ip] [Eq Mp]]]]]]]; [left; exact H1| |].
        -- subst p'. congruence.
        -- right. repeat (split; [reflexivity|]). exists p'. auto.
Qed.

Definition InE (sb ref : sym) (q o : nat) : Prop :=
  exists np p, In np (s_ports ref) /\ fst np = o /\ In p (snd np) /\ pr_port p = q /\ matchp sb p = true.

Lemma links_in_ports sb ref : forall nps st,
  same_res st (fold_left (fun st (np : nat * list pref) => fold_left (link_in_ref sb ref (fst np)) (snd np) st) nps st) /\
  forall t q r o, InRef (refs (fold_left (fun st (np : nat * list pref) => fold_left (link_in_ref sb ref (fst np)) (snd np) st) nps st)) t q r o <->
    InRef (refs st) t q r o \/
    (t = s_id sb /\ r = s_id ref /\ exists np p, In np nps /\ fst np = o /\ In p (snd np) /\ pr_port p = q /\ matchp sb p = true).
Proof.
  induction nps as [|np nps IH]; intros st; cbn [fold_left].
  - split; [apply same_res_refl|]. intros t q r o. split; [auto|]. intros [H|[_ [_ [np [p [[] _]]]]]]. exact H.
  - destruct (links_in_prefs sb ref (fst np) (snd np) st) as [S1 H1].
    destruct (IH (fold_left (link_in_ref sb ref (fst np)) (snd np) st)) as [S2 H2].
    split; [eapply same_res_trans; eassumption|]. intros t q r o. rewrite H2, H1. split.
    + intros [[H|[-> [-> [-> [p [Ip R]]]]]]|[-> [-> [np' [p [Inp R]]]]]].
      * left. exact H.
      * right. repeat (split; [reflexivity|]). exists np, p. split; [left; reflexivity|]. split; [reflexivity|]. split; [exact Ip|exact R].
      * right. repeat (split; [reflexivity|]). exists np', p. split; [right; exact Inp|exact R].
    + intros [H|[-> [-> [np' [p [[Enp|Inp] [Eo [Ip R]]]]]]]].
      * left. left. exact H.
      * subst np'. left. right. repeat (split; [reflexivity|]). split; [symmetry; exact Eo|]. exists p. auto.
      * right. repeat (split; [reflexivity|]). exists np', p. auto.
Qed.

Lemma link_in_sym_spec sb st ref :
  same_res st (link_in_sym sb st ref) /\
  forall t q r o, InRef (refs (link_in_sym sb st ref)) t q r o <->
    InRef (refs st) t q r o \/ (t = s_id sb /\ r = s_id ref /\ s_ns ref = s_ns sb /\ InE sb ref q o).
Proof.
  unfold link_in_sym. destruct (Nat.eqb_spec (s_ns ref) (s_ns sb)) as [E|E]; cbn [negb].
  - destruct (links_in_ports sb ref (s_ports ref) st) as [S H]. split; [exact S|]. intros t q r o. rewrite H. unfold InE.
    split; (intros [A|[-> [-> R]]]; [left; exact A|right; tauto]).
  - split; [apply same_res_refl|]. intros t q r o. split; [auto|]. intros [A|[_ [_ [E' _]]]]; [exact A|contradiction].
Qed.

Lemma links_in_syms sb : forall l st,
  same_res st (fold_left (link_in_sym sb) l st) /\
  forall t q r o, InRef (refs (fold_left (link_in_sym sb) l st)) t q r o <->
    InRef (refs st) t q r o \/ (t = s_id sb /\ exists ref, In ref l /\ s_id ref = r /\ s_ns ref = s_ns sb /\ InE sb ref q o).
Proof.
  induction l as [|ref l IH]; intros st; cbn [fold_left].
  - split; [apply same_res_refl|]. intros t q r o. split; [auto|]. intros [H|[_ [ref [[] _]]]]. exact H.
  - destruct (link_in_sym_spec sb st ref) as [S1 H1]. destruct (IH (link_in_sym sb st ref)) as [S2 H2].
    split; [eapply same_res_trans; eassumption|]. intros t q r o. rewrite H2, H1. split.
    + intros [[H|[-> [-> [En R]]]]|[-> [ref' [I' R]]]].
      * left. exact H.
      * right. split; [reflexivity|]. exists ref. split; [left; reflexivity|]. auto.
      * right. split; [reflexivity|]. exists ref'. split; [right; exact I'|exact R].
    + intros [H|[-> [ref' [[Er|I'] [Ei [En R]]]]]].
      * left. left. exact H.
      * subst ref'. left. right. auto.
      * right. split; [reflexivity|]. exists ref'. auto.
Qed.

Lemma links_in_spec st sb :
  same_res st (links_in st sb) /\
  forall t q r o, InRef (refs (links_in st sb)) t q r o <->
    InRef (refs st) t q r o \/ (t = s_id sb /\ exists ref, In ref (syms st) /\ s_id ref = r /\ s_ns ref = s_ns sb /\ InE sb ref q o).
Proof. unfold links_in. apply links_in_syms. Qed.

(* ---- unlinks(sb): sb's own entries go, and everything filed under sb ---- *)
Lemma unlink_ref_same sb o st p : same_res st (unlink_ref sb o st p).
Proof. unfold unlink_ref. destruct (resolve_sym st (s_ns sb) p); split; reflexivity. Qed.

Lemma unlinks_prefs sb o st0 : forall ps st, same_res st0 st ->
  same_res st0 (fold_left (unlink_ref sb o) ps st) /\
  forall t q r o', InRef (refs (fold_left (unlink_ref sb o) ps st)) t q r o' <->
    InRef (refs st) t q r o' /\
    ~ (r = s_id sb /\ o' = o /\ exists p tt, In p ps /\ pr_port p = q /\ resolve_sym st0 (s_ns sb) p = Some tt /\ s_id tt = t).
Proof.
  induction ps as [|p ps IH]; intros st S; cbn [fold_left].
  - split; [exact S|]. intros t q r o'. split; [intros H; split; [exact H|]; intros [_ [_ [p [tt [[] _]]]]]|tauto].
  - pose proof (same_res_trans _ _ _ S (unlink_ref_same sb o st p)) as S2. destruct (IH _ S2) as [S3 H].
    split; [exact S3|]. intros t q r o'. rewrite H, unlink_ref_refs, (resolve_sym_same st0 st _ _ S).
    destruct (resolve_sym st0 (s_ns sb) p) as [ref|] eqn:Rs.
    + rewrite del_ref_spec. split.
      * intros [[H1 N1] N2]. split; [exact H1|]. intros [-> [-> [p' [tt [[Ep|Ip] [Eq [Er Et]]]]]]].
        -- subst p'. rewrite Rs in Er. injection Er as <-. apply N1. auto.
        -- apply N2. split; [reflexivity|]. split; [reflexivity|]. exists p', tt. auto.
      * intros [H1 N]. split; [split; [exact H1|]|].
        -- intros [-> [-> [-> ->]]]. apply N. split; [reflexivity|]. split; [reflexivity|]. exists p, ref. split; [left; reflexivity|]. auto.
        -- intros [-> [-> [p' [tt [Ip R]]]]]. apply N. split; [reflexivity|]. split; [reflexivity|]. exists p', tt. split; [right; exact Ip|exact R].
    + split.
      * intros [H1 N2]. split; [exact H1|]. intros [-> [-> [p' [tt [[Ep|Ip] [Eq [Er Et]]]]]]].
        -- subst p'. rewrite Rs in Er. discriminate.
        -- apply N2. split; [reflexivity|]. split; [reflexivity|]. exists p', tt. auto.
      * intros [H1 N]. split; [exact H1|]. intros [-> [-> [p' [tt [Ip R]]]]]. apply N. split; [reflexivity|]. split; [reflexivity|].
        exists p', tt. split; [right; exact Ip|exact R].
Qed.

Definition OwnAny (st : tstate) (sb : sym) (t q o : nat) : Prop :=
  exists np p tt, In np (s_ports sb) /\ fst np = o /\ In p (snd np) /\ pr_port p = q /\
                  resolve_sym st (s_ns sb) p = Some tt /\ s_id tt = t.

Lemma unlinks_ports sb st0 : forall nps st, same_res st0 st ->
  same_res st0 (fold_left (fun st (np : nat * list pref) => fold_left (unlink_ref sb (fst np)) (snd np) st) nps st) /\
  forall t q r o, InRef (refs (fold_left (fun st (np : nat * list pref) => fold_left (unlink_ref sb (fst np)) (snd np) st) nps st)) t q r o <->
    InRef (refs st) t q r o /\
    ~ (r = s_id sb /\ exists np p tt, In np nps /\ fst np = o /\ In p (snd np) /\ pr_port p = q /\ resolve_sym st0 (s_ns sb) p = Some tt /\ s_id tt = t).
Proof.
  induction nps as [|np nps IH]; intros st S; cbn [fold_left].
  - split; [exact S|]. intros t q r o. split; [intros H; split; [exact H|]; intros [_ [np [p [tt [[] _]]]]]|tauto].
  - destruct (unlinks_prefs sb (fst np) st0 (snd np) st S) as [S1 H1]. destruct (IH _ S1) as [S2 H2].
    split; [exact S2|]. intros t q r o. rewrite H2, H1. split.
    + intros [[H N1] N2]. split; [exact H|]. intros [-> [np' [p [tt [[Enp|Inp] [Eo [Ip R]]]]]]].
      * subst np'. apply N1. split; [reflexivity|]. split; [symmetry; exact Eo|]. exists p, tt. auto.
      * apply N2. split; [reflexivity|]. exists np', p, tt. auto.
    + intros [H N]. split; [split; [exact H|]|].
      * intros [-> [-> [p [tt [Ip R]]]]]. apply N. split; [reflexivity|]. exists np, p, tt. split; [left; reflexivity|]. split; [reflexivity|]. auto.
      * intros [-> [np' [p [tt [Inp R]]]]]. apply N. split; [reflexivity|]. exists np', p, tt. split; [right; exact Inp|exact R].
Qed.

Lemma InRef_filter rs k t q r o :
  InRef (filter (fun e : nat * list (nat * list rref) => negb (Nat.eqb (fst e) k)) rs) t q r o <-> InRef rs t q r o /\ t <> k.
Proof.
  unfold InRef. split.
  - intros [m [l [x [A R]]]]. apply filter_In in A. destruct A as [A B]. cbn [fst] in B. apply negb_true_iff, Nat.eqb_neq in B.
    split; [exists m, l, x; auto|exact B].
  - intros [[m [l [x [A R]]]] N]. exists m, l, x. split; [|exact R]. apply filter_In. split; [exact A|]. cbn [fst]. apply negb_true_iff, Nat.eqb_neq. exact N.
Qed.

Lemma unlinks_spec st sb :
  same_res st (unlinks st sb) /\
  forall t q r o, InRef (refs (unlinks st sb)) t q r o <->
    InRef (refs st) t q r o /\ t <> s_id sb /\ ~ (r = s_id sb /\ OwnAny st sb t q o).
Proof.
  unfold unlinks. destruct (unlinks_ports sb st (s_ports sb) st (same_res_refl st)) as [S H]. split.
  - destruct S as [S1 S2]. split; cbn [syms nsmap]; assumption.
  - intros t q r o. cbn [refs]. rewrite InRef_filter, H. unfold OwnAny. tauto.
Qed.

(* ================= Part 2: what a reference resolves to, as a statement about the present symbols ================= *)
Definition pref_ok (p : pref) : Prop := pr_id p = None \/ pr_name p = None.
Definition sym_ok (s : sym) : Prop := forall np p, In np (s_ports s) -> In p (snd np) -> pref_ok p.

(* the reference [p], written in namespace [ns], denotes the symbol [t] *)
Definition RefP (ns : nat) (p : pref) (t : sym) : Prop :=
  pr_id p = Some (s_id t) \/ (pr_id p = None /\ exists n, pr_name p = Some n /\ s_ns t = ns /\ s_name t = Some n).

Definition NsOK (st : tstate) : Prop :=
  forall ns n id, ns_lookup st ns n = Some id <-> exists s, In s (syms st) /\ s_ns s = ns /\ s_name s = Some n /\ s_id s = id.

Lemma find_sym_iff st id s : NoDup (map s_id (syms st)) -> (find_sym st id = Some s <-> In s (syms st) /\ s_id s = id).
Proof.
  intros ND. split; [apply find_sym_in|]. intros [I E]. unfold find_sym. revert ND I. induction (syms st) as [|x l IH]; intros ND I; [destruct I|].
  cbn [find]. inversion ND as [|? ? Nx ND']; subst. destruct I as [I|I].
  - subst x. rewrite Nat.eqb_refl. reflexivity.
  - destruct (Nat.eqb_spec (s_id x) (s_id s)) as [Ex|Ex]; [|apply IH; assumption].
    exfalso. apply Nx. rewrite Ex. apply in_map. exact I.
Qed.

Lemma resolve_iff st ns p t : NoDup (map s_id (syms st)) -> NsOK st ->
  (resolve_sym st ns p = Some t <-> In t (syms st) /\ RefP ns p t).
Proof.
  intros ND NS. unfold resolve_sym, resolve, RefP. destruct (pr_id p) as [i|].
  - rewrite (find_sym_iff st i t ND). split.
    + intros [I E]. split; [exact I|]. left. rewrite E. reflexivity.
    + intros [I [E|[E _]]]; [|discriminate]. injection E as ->. auto.
  - destruct (pr_name p) as [n|].
    + destruct (ns_lookup st ns n) as [i|] eqn:L.
      * rewrite (find_sym_iff st i t ND). apply NS in L. destruct L as [s [Is [En [Em Ei]]]]. split.
        -- intros [I E]. split; [exact I|]. right. split; [reflexivity|]. exists n. split; [reflexivity|].
           assert (s = t); [|subst; auto].
           { clear -ND Is I Ei E. assert (s_id s = s_id t) by congruence. revert ND Is I H. induction (syms st) as [|x l IH]; intros ND Is I H; [destruct Is|].
             inversion ND as [|? ? Nx ND']; subst. destruct Is as [Is|Is]; destruct I as [I|I]; try congruence.
             - subst x. exfalso. apply Nx. rewrite H. apply in_map. exact I.
             - subst x. exfalso. apply Nx. rewrite <- H. apply in_map. exact Is.
             - apply IH; assumption. }
        -- intros [I [E|[_ [n' [En' [Ens Enm]]]]]]; [discriminate|]. injection En' as <-. split; [exact I|].
           assert (L2 : ns_lookup st ns n = Some (s_id t)) by (apply NS; exists t; auto).
           assert (L1 : ns_lookup st ns n = Some i) by (apply NS; exists s; auto). congruence.
      * split; [discriminate|]. intros [I [E|[_ [n' [En' [Ens Enm]]]]]]; [discriminate|]. injection En' as <-.
        assert (L2 : ns_lookup st ns n = Some (s_id t)) by (apply NS; exists t; auto). congruence.
    + split; [discriminate|]. intros [_ [E|[_ [n [E _]]]]]; discriminate.
Qed.

(* the forward references among the present symbols, as index entries *)
Definition Fwd (st : tstate) (t q r o : nat) : Prop :=
  exists sr tt np p, In sr (syms st) /\ In tt (syms st) /\ s_id sr = r /\ s_id tt = t /\
    In np (s_ports sr) /\ fst np = o /\ In p (snd np) /\ pr_port p = q /\ RefP (s_ns sr) p tt /\ s_ns tt = s_ns sr.

Definition RefsOK (st : tstate) : Prop := forall t q r o, InRef (refs st) t q r o <-> Fwd st t q r o.

Record TI (st : tstate) : Prop := {
  ti_ids : NoDup (map s_id (syms st));
  ti_ns : NsOK st;
  ti_syms : forall s, In s (syms st) -> sym_ok s;
  ti_refs : RefsOK st;
  ti_keys : NoDup (map fst (refs st))
}.

Lemma OwnE_iff st sb t q o : NoDup (map s_id (syms st)) -> NsOK st ->
  (OwnE st sb t q o <-> exists tt np p, In tt (syms st) /\ s_id tt = t /\ In np (s_ports sb) /\ fst np = o /\ In p (snd np) /\
                                        pr_port p = q /\ RefP (s_ns sb) p tt /\ s_ns tt = s_ns sb).
Proof.
  intros ND NS. unfold OwnE. split.
  - intros [np [p [tt [A [B [C [D [E [F G]]]]]]]]]. apply (resolve_iff st _ _ _ ND NS) in E. destruct E as [E1 E2]. exists tt, np, p. tauto.
  - intros [tt [np [p [A [B [C [D [E [F [G H]]]]]]]]]]. exists np, p, tt. repeat (split; [assumption|]). split; [|auto].
    apply (resolve_iff st _ _ _ ND NS). auto.
Qed.

Lemma matchp_iff sb p : pref_ok p -> (matchp sb p = true <-> RefP (s_ns sb) p sb \/ (pr_id p = None /\ exists n, pr_name p = Some n /\ s_name sb = Some n)).
Proof.
  intros OK. unfold pref_ok in OK. unfold matchp, RefP. rewrite orb_true_iff. destruct (pr_id p) as [i|]; cbn [opt_eqb].
  - destruct OK as [OK|OK]; [discriminate|]. rewrite OK. rewrite Nat.eqb_eq. split.
    + intros [E|E]; [subst; left; left; reflexivity|discriminate].
    + intros [[E|[E _]]|[E _]]; try discriminate. injection E as ->. left. reflexivity.
  - destruct (pr_name p) as [n|].
    + destruct (s_name sb) as [m|]; cbn [opt_eqb].
      * rewrite Nat.eqb_eq. split.
        -- intros [E|E]; [discriminate|]. subst m. right. split; [reflexivity|]. exists n. auto.
        -- intros [[E|[_ [n' [E1 [_ E2]]]]]|[_ [n' [E1 E2]]]]; try discriminate; injection E1 as <-; injection E2 as <-; right; reflexivity.
      * split; [intros [E|E]; discriminate|]. intros [[E|[_ [n' [_ [_ E2]]]]]|[_ [n' [_ E2]]]]; discriminate.
    + split; [intros [E|E]; discriminate|]. intros [[E|[_ [n' [E1 _]]]]|[_ [n' [E1 _]]]]; discriminate.
Qed.

(* ================= Part 3: Insert and Free keep the index exact ================= *)
Lemma fold_left_pres {A} (P : tstate -> Prop) (f : tstate -> A -> tstate) (l : list A) :
  (forall st x, P st -> P (f st x)) -> forall st, P st -> P (fold_left f l st).
Proof. intros H. induction l as [|x l IH]; intros st Hs; cbn [fold_left]; [exact Hs|]. apply IH, H, Hs. Qed.

Definition KeysND (st : tstate) : Prop := NoDup (map fst (refs st)).

Lemma links_own_keys st sb : KeysND st -> KeysND (links_own st sb).
Proof.
  unfold links_own. apply fold_left_pres. intros st1 np. apply fold_left_pres. intros st2 p H. unfold KeysND in *.
  destruct (link_own_ref_refs sb (fst np) st2 p) as [_ R]. rewrite R.
  destruct (resolve_sym st2 (s_ns sb) p); [|exact H]. destruct (Nat.eqb _ _); [apply add_ref_nodup; exact H|exact H].
Qed.
Lemma links_in_keys st sb : KeysND st -> KeysND (links_in st sb).
Proof.
  unfold links_in. apply fold_left_pres. intros st1 ref H. unfold link_in_sym. destruct (negb _); [exact H|].
  revert H. apply fold_left_pres. intros st2 np. apply fold_left_pres. intros st3 p H. unfold KeysND in *.
  destruct (link_in_ref_refs sb ref (fst np) st3 p) as [_ R]. rewrite R. destruct (matchp sb p); [apply add_ref_nodup; exact H|exact H].
Qed.
Lemma NoDup_map_filter {A B} (f : A -> B) (g : A -> bool) l : NoDup (map f l) -> NoDup (map f (filter g l)).
Proof.
  induction l as [|x l IH]; cbn; intros ND; [constructor|]. inversion ND as [|? ? Nx ND']; subst.
  destruct (g x); cbn; [constructor; [|apply IH; exact ND']|apply IH; exact ND'].
  intros I. apply Nx. apply in_map_iff in I. destruct I as [y [E I]]. apply filter_In in I. apply in_map_iff. exists y. tauto.
Qed.
Lemma unlinks_keys st sb : KeysND st -> KeysND (unlinks st sb).
Proof.
  intros H. unfold unlinks, KeysND. cbn [refs]. apply NoDup_map_filter.
  change (KeysND (fold_left (fun st (np : nat * list pref) => fold_left (unlink_ref sb (fst np)) (snd np) st) (s_ports sb) st)).
  revert H. apply fold_left_pres. intros st1 np. apply fold_left_pres. intros st2 p H. unfold KeysND in *.
  rewrite unlink_ref_refs. destruct (resolve_sym st2 (s_ns sb) p); [rewrite del_ref_keys; exact H|exact H].
Qed.

(* the name map as a function *)
Definition nl (m : list (nat * nat * nat)) (ns n : nat) : option nat :=
  match find (fun e : nat * nat * nat => Nat.eqb (fst (fst e)) ns && Nat.eqb (snd (fst e)) n) m with
  | Some e => Some (snd e)
  | None => None
  end.
Lemma ns_lookup_nl st ns n : ns_lookup st ns n = nl (nsmap st) ns n. Proof. reflexivity. Qed.

Lemma nl_filter m a b ns n :
  nl (filter (fun e : nat * nat * nat => negb (Nat.eqb (fst (fst e)) a && Nat.eqb (snd (fst e)) b)) m) ns n =
  if Nat.eqb ns a && Nat.eqb n b then None else nl m ns n.
Proof.
  unfold nl. induction m as [|[[x y] z] m IH]; cbn [filter find fst snd].
  - destruct (_ && _); reflexivity.
  - destruct (Nat.eqb_spec x a) as [Ex|Ex]; destruct (Nat.eqb_spec y b) as [Ey|Ey]; cbn [andb negb find fst snd].
    + subst x y. rewrite IH. destruct (Nat.eqb_spec a ns) as [E1|E1]; destruct (Nat.eqb_spec b n) as [E2|E2]; cbn [andb].
      * subst. rewrite !Nat.eqb_refl. reflexivity.
      * destruct (Nat.eqb ns a && Nat.eqb n b) eqn:C; [reflexivity|reflexivity].
      * destruct (Nat.eqb ns a && Nat.eqb n b) eqn:C; reflexivity.
      * destruct (Nat.eqb ns a && Nat.eqb n b) eqn:C; reflexivity.
    + destruct (Nat.eqb_spec x ns) as [E1|E1]; destruct (Nat.eqb_spec y n) as [E2|E2]; cbn [andb]; try exact IH.
      subst. destruct (Nat.eqb_spec n b); [contradiction|]. rewrite andb_false_r. reflexivity.
    + destruct (Nat.eqb_spec x ns) as [E1|E1]; destruct (Nat.eqb_spec y n) as [E2|E2]; cbn [andb]; try exact IH.
      subst. destruct (Nat.eqb_spec ns a); [contradiction|]. reflexivity.
    + destruct (Nat.eqb_spec x ns) as [E1|E1]; destruct (Nat.eqb_spec y n) as [E2|E2]; cbn [andb]; try exact IH.
      subst. destruct (Nat.eqb_spec ns a); [contradiction|]. reflexivity.
Qed.

Lemma in_filter_id l id s : NoDup (map s_id l) -> In id (map s_id l) ->
  (In s (filter (fun x => negb (Nat.eqb (s_id x) id)) l) <-> In s l /\ s_id s <> id).
Proof.
  intros _ _. rewrite filter_In, negb_true_iff, Nat.eqb_neq. tauto.
Qed.

Lemma same_id_same st a b : NoDup (map s_id (syms st)) -> In a (syms st) -> In b (syms st) -> s_id a = s_id b -> a = b.
Proof.
  intros ND. induction (syms st) as [|x l IH]; intros Ia Ib E; [destruct Ia|]. inversion ND as [|? ? Nx ND']; subst.
  destruct Ia as [Ia|Ia]; destruct Ib as [Ib|Ib]; try congruence.
  - subst x. exfalso. apply Nx. rewrite E. apply in_map. exact Ib.
  - subst x. exfalso. apply Nx. rewrite <- E. apply in_map. exact Ia.
  - apply IH; assumption.
Qed.

(* ---- Free ---- *)
Lemma TI_same_tab st st' : same_tab st st' -> TI st -> TI st'.
Proof.
  intros [A [_ [B C]]] [T1 T2 T3 T4 T5]. split.
  - rewrite A. exact T1.
  - intros ns n id. rewrite ns_lookup_nl, B, <- ns_lookup_nl, A. apply T2.
  - rewrite A. exact T3.
  - intros t q r o. rewrite C. unfold Fwd. rewrite A. apply T4.
  - rewrite C. exact T5.
Qed.

Theorem free_TI st id : TI st -> TI (fst (free st id)).
Proof.
  intros T. unfold free. destruct (find_sym st id) as [sb|] eqn:F; [|exact T].
  pose proof (unload_same st sb) as US. destruct (unload st sb) as [st1 [e|]]; cbn [fst] in *; [apply (TI_same_tab _ _ US T)|].
  pose proof (TI_same_tab _ _ US T) as T1. clear T. destruct US as [U1 [_ [U3 U4]]].
  destruct (find_sym_in _ _ _ F) as [Isb Eid]. rewrite <- U1 in Isb. subst id.
  destruct (unlinks_spec st1 sb) as [[S1 S2] HR]. pose proof T1 as [ND NS OK RO KN].
  set (nsm := match s_name sb with
              | Some n => filter (fun e : nat * nat * nat => negb (Nat.eqb (fst (fst e)) (s_ns sb) && Nat.eqb (snd (fst e)) n)) (nsmap (close_sym (unlinks st1 sb) sb))
              | None => nsmap (close_sym (unlinks st1 sb) sb) end).
  assert (Sy : syms (close_sym (unlinks st1 sb) sb) = syms st1) by (unfold close_sym; destruct (s_node sb); cbn [syms log]; exact S1).
  assert (Nm : nsmap (close_sym (unlinks st1 sb) sb) = nsmap st1) by (unfold close_sym; destruct (s_node sb); cbn [nsmap log]; exact S2).
  assert (Rf : refs (close_sym (unlinks st1 sb) sb) = refs (unlinks st1 sb)) by (unfold close_sym; destruct (s_node sb); reflexivity).
  assert (InS : forall s, In s (filter (fun x => negb (Nat.eqb (s_id x) (s_id sb))) (syms st1)) <-> In s (syms st1) /\ s <> sb).
  { intros s. rewrite filter_In, negb_true_iff, Nat.eqb_neq. split.
    - intros [I N]. split; [exact I|]. intros E. subst s. apply N. reflexivity.
    - intros [I N]. split; [exact I|]. intros E. apply N. apply (same_id_same st1); assumption. }
  split; cbn [syms nsmap refs]; rewrite ?Sy, ?Rf.
  - apply NoDup_map_filter. exact ND.
  - intros ns n id. unfold ns_lookup. cbn [nsmap]. fold (nl nsm ns n). unfold nsm. rewrite Nm. destruct (s_name sb) as [n0|] eqn:En.
    + rewrite nl_filter. destruct (Nat.eqb_spec ns (s_ns sb)) as [E1|E1]; destruct (Nat.eqb_spec n n0) as [E2|E2]; cbn [andb].
      * subst ns n. split; [discriminate|]. intros [s [Is [E3 [E4 E5]]]]. apply InS in Is. destruct Is as [Is Ns]. exfalso. apply Ns.
        assert (L1 : ns_lookup st1 (s_ns sb) n0 = Some (s_id s)) by (apply NS; exists s; auto).
        assert (L2 : ns_lookup st1 (s_ns sb) n0 = Some (s_id sb)) by (apply NS; exists sb; auto).
        apply (same_id_same st1); try assumption. congruence.
      * rewrite <- ns_lookup_nl, (NS ns n id). split; intros [s [Is R]]; exists s; (split; [|exact R]); [apply InS; split; [exact Is|]; intros E; subst s; destruct R as [_ [R _]]; congruence|apply InS in Is; tauto].
      * rewrite <- ns_lookup_nl, (NS ns n id). split; intros [s [Is R]]; exists s; (split; [|exact R]); [apply InS; split; [exact Is|]; intros E; subst s; destruct R as [R _]; congruence|apply InS in Is; tauto].
      * rewrite <- ns_lookup_nl, (NS ns n id). split; intros [s [Is R]]; exists s; (split; [|exact R]); [apply InS; split; [exact Is|]; intros E; subst s; destruct R as [R _]; congruence|apply InS in Is; tauto].
    + rewrite <- ns_lookup_nl, (NS ns n id). split; intros [s [Is R]]; exists s; (split; [|exact R]); [apply InS; split; [exact Is|]; intros E; subst s; destruct R as [_ [R _]]; congruence|apply InS in Is; tauto].
  - intros s Is. apply InS in Is. apply OK. tauto.
  - intros t q r o. rewrite HR, (RO t q r o). unfold Fwd. cbn [syms]. split.
    + intros [[sr [tt [np [p [A [B [C [D [E [G [H [I [J K]]]]]]]]]]]]] [Nt Nr]]. exists sr, tt, np, p.
      assert (Ntt : tt <> sb) by (intros E0; subst tt; congruence).
      assert (Nsr : sr <> sb).
      { intros E0. subst sr. apply Nr. split; [auto|]. exists np, p, tt. repeat (split; [assumption|]). split; [|exact D].
        apply (resolve_iff st1 _ _ _ ND NS). auto. }
      repeat (split; [first [apply InS; auto|assumption]|]). exact K.
    + intros [sr [tt [np [p [A [B R]]]]]]. apply InS in A. apply InS in B. destruct A as [A Nsr]. destruct B as [B Ntt]. destruct R as [C [D R]].
      split; [exists sr, tt, np, p; tauto|]. split.
      * intros E0. apply Ntt. apply (same_id_same st1); try assumption. congruence.
      * intros [E0 _]. apply Nsr. apply (same_id_same st1); try assumption. congruence.
  - apply unlinks_keys. exact KN.
Qed.

(* ---- Insert ---- *)
(* what a history has to respect: references carry an id or a name, not both; a name is used by one symbol of a
   namespace at a time *)
Definition ok_insert (st : tstate) (sb : sym) : Prop :=
  sym_ok sb /\
  forall s n, In s (syms st) -> s_id s <> s_id sb -> s_ns s = s_ns sb -> s_name s = Some n -> s_name sb <> Some n.

Lemma free_syms_exact st id : TI st ->
  forall s, In s (syms (fst (free st id))) <-> In s (syms st) /\ (snd (free st id) = TDone true -> s_id s <> id).
Proof.
  intros T s. unfold free. destruct (find_sym st id) as [sb|] eqn:F; cbn [fst snd].
  - pose proof (unload_same st sb) as US. destruct (unload st sb) as [st1 [e|]]; cbn [fst snd] in *.
    + destruct US as [U1 _]. rewrite U1. split; [intros I; split; [exact I|discriminate]|tauto].
    + destruct US as [U1 _]. destruct (unlinks_spec st1 sb) as [[S1 _] _].
      assert (Sy : syms (close_sym (unlinks st1 sb) sb) = syms st) by (unfold close_sym; destruct (s_node sb); cbn [syms log]; congruence).
      cbn [syms]. rewrite Sy, filter_In, negb_true_iff, Nat.eqb_neq. tauto.
  - split; [intros I; split; [exact I|discriminate]|tauto].
Qed.

Lemma free_done_absent st id : TI st -> (exists b, snd (free st id) = TDone b) -> ~ In id (map s_id (syms (fst (free st id)))).
Proof.
  intros T [b Eb] I. apply in_map_iff in I. destruct I as [s [Es Is]]. unfold free in *.
  destruct (find_sym st id) as [sb|] eqn:F; cbn [fst snd] in *.
  - pose proof (unload_same st sb) as US. destruct (unload st sb) as [st1 [e|]]; cbn [fst snd] in *; [discriminate|].
    apply filter_In in Is. destruct Is as [_ N]. rewrite Es, Nat.eqb_refl in N. discriminate.
  - assert (find_sym st id = Some s) by (apply (find_sym_iff st id s (ti_ids _ T)); auto). congruence.
Qed.

(* the state Insert builds before it loads: the symbol added, its name registered, both halves of links done *)
Definition add_state (st0 : tstate) (sb : sym) : tstate :=
  mkt (syms st0 ++ [sb])
      (match s_name sb with
       | Some n => (s_ns sb, n, s_id sb) :: filter (fun e : nat * nat * nat => negb (Nat.eqb (fst (fst e)) (s_ns sb) && Nat.eqb (snd (fst e)) n)) (nsmap st0)
       | None => nsmap st0 end)
      (refs st0) (links st0) (events st0).
Definition linked_state (st0 : tstate) (sb : sym) : tstate := links_in (links_own (add_state st0 sb) sb) sb.

Lemma insert_unfold st sb :
  insert st sb =
  match free st (s_id sb) with
  | (st0, TFail e) => (st0, TFail e)
  | (st0, TDone _) => match load (linked_state st0 sb) sb with (st3, Some e) => (st3, TFail e) | (st3, None) => (st3, TDone true) end
  end.
Proof. reflexivity. Qed.

Lemma linked_state_shape st0 sb :
  syms (linked_state st0 sb) = syms st0 ++ [sb] /\ events (linked_state st0 sb) = events st0.
Proof.
  unfold linked_state. destruct (links_own_spec (add_state st0 sb) sb) as [[A _] _].
  destruct (links_in_spec (links_own (add_state st0 sb) sb) sb) as [[B _] _]. split; [rewrite B, A; reflexivity|].
  assert (E1 : forall st, events (links_own st sb) = events st).
  { intros st. unfold links_own. apply (fold_left_pres (fun x => events x = events st)); [|reflexivity].
    intros st1 np H1. apply (fold_left_pres (fun x => events x = events st)); [|exact H1].
    intros st2 p H2. unfold link_own_ref. destruct (resolve_sym st2 (s_ns sb) p); [|exact H2]. destruct (Nat.eqb _ _); [cbn [events]|]; exact H2. }
  assert (E2 : forall st, events (links_in st sb) = events st).
  { intros st. unfold links_in. apply (fold_left_pres (fun x => events x = events st)); [|reflexivity].
    intros st1 ref H1. unfold link_in_sym. destruct (negb _); [exact H1|].
    apply (fold_left_pres (fun x => events x = events st)); [|exact H1]. intros st2 np H2.
    apply (fold_left_pres (fun x => events x = events st)); [|exact H2]. intros st3 p H3.
    unfold link_in_ref. destruct (_ || _); [cbn [events]|]; exact H3. }
  rewrite E2, E1. reflexivity.
Qed.

Theorem add_TI st0 sb : TI st0 -> ~ In (s_id sb) (map s_id (syms st0)) -> sym_ok sb ->
  (forall s n, In s (syms st0) -> s_ns s = s_ns sb -> s_name s = Some n -> s_name sb <> Some n) ->
  TI (linked_state st0 sb).
Proof.
  intros T0 FA OKsb NF0. unfold linked_state, add_state.
  set (nsm := match s_name sb with
              | Some n => (s_ns sb, n, s_id sb) :: filter (fun e : nat * nat * nat => negb (Nat.eqb (fst (fst e)) (s_ns sb) && Nat.eqb (snd (fst e)) n)) (nsmap st0)
              | None => nsmap st0 end).
  set (st1 := mkt (syms st0 ++ [sb]) nsm (refs st0) (links st0) (events st0)).
  pose proof T0 as [ND0 NS0 OK0 RO0 KN0].
  assert (ND1 : NoDup (map s_id (syms st1))).
  { unfold st1. cbn [syms]. rewrite map_app. cbn [map]. clear -ND0 FA. induction (map s_id (syms st0)) as [|x l IH]; cbn.
    - constructor; [intros []|constructor].
    - inversion ND0 as [|? ? Nx ND']; subst. constructor.
      + intros I. apply in_app_or in I. destruct I as [I|[I|[]]]; [exact (Nx I)|]. apply FA. left. symmetry. exact I.
      + apply IH; [|exact ND']. intros I. apply FA. right. exact I. }
  assert (NS1 : NsOK st1).
  { intros ns n id. unfold ns_lookup, st1. cbn [nsmap syms]. fold (nl nsm ns n). unfold nsm. destruct (s_name sb) as [n0|] eqn:En.
    - unfold nl. cbn [find fst snd].
      assert (Old : forall X, ~ (s_ns sb = ns /\ n0 = n) ->
                (nl (nsmap st0) ns n = X <-> nl (filter (fun e : nat * nat * nat => negb (Nat.eqb (fst (fst e)) (s_ns sb) && Nat.eqb (snd (fst e)) n0)) (nsmap st0)) ns n = X)).
      { intros X N. rewrite nl_filter. destruct (Nat.eqb_spec ns (s_ns sb)) as [A1|A1]; destruct (Nat.eqb_spec n n0) as [A2|A2]; cbn [andb]; try tauto.
        exfalso. apply N. auto. }
      destruct (Nat.eqb_spec (s_ns sb) ns) as [E1|E1]; destruct (Nat.eqb_spec n0 n) as [E2|E2]; cbn [andb snd].
      + subst ns n. split.
        * intros E. injection E as <-. exists sb. split; [apply in_or_app; right; left; reflexivity|auto].
        * intros [s [Is [E3 [E4 E5]]]]. apply in_app_or in Is. destruct Is as [Is|[Is|[]]]; [|subst s; congruence].
          exfalso. exact (NF0 s n0 Is E3 E4 eq_refl).
      + change (nl (filter (fun e : nat * nat * nat => negb (Nat.eqb (fst (fst e)) (s_ns sb) && Nat.eqb (snd (fst e)) n0)) (nsmap st0)) ns n = Some id <-> (exists s, In s (syms st0 ++ [sb]) /\ s_ns s = ns /\ s_name s = Some n /\ s_id s = id)).
        rewrite <- (Old (Some id)) by tauto. rewrite <- ns_lookup_nl, (NS0 ns n id). split; intros [s [Is R]]; exists s; (split; [|exact R]);
          [apply in_or_app; left; exact Is|apply in_app_or in Is; destruct Is as [Is|[Is|[]]]; [exact Is|subst s; destruct R as [_ [R _]]; congruence]].
      + change (nl (filter (fun e : nat * nat * nat => negb (Nat.eqb (fst (fst e)) (s_ns sb) && Nat.eqb (snd (fst e)) n0)) (nsmap st0)) ns n = Some id <-> (exists s, In s (syms st0 ++ [sb]) /\ s_ns s = ns /\ s_name s = Some n /\ s_id s = id)).
        rewrite <- (Old (Some id)) by tauto. rewrite <- ns_lookup_nl, (NS0 ns n id). split; intros [s [Is R]]; exists s; (split; [|exact R]);
          [apply in_or_app; left; exact Is|apply in_app_or in Is; destruct Is as [Is|[Is|[]]]; [exact Is|subst s; destruct R as [R _]; congruence]].
      + change (nl (filter (fun e : nat * nat * nat => negb (Nat.eqb (fst (fst e)) (s_ns sb) && Nat.eqb (snd (fst e)) n0)) (nsmap st0)) ns n = Some id <-> (exists s, In s (syms st0 ++ [sb]) /\ s_ns s = ns /\ s_name s = Some n /\ s_id s = id)).
        rewrite <- (Old (Some id)) by tauto. rewrite <- ns_lookup_nl, (NS0 ns n id). split; intros [s [Is R]]; exists s; (split; [|exact R]);
          [apply in_or_app; left; exact Is|apply in_app_or in Is; destruct Is as [Is|[Is|[]]]; [exact Is|subst s; destruct R as [R _]; congruence]].
    - rewrite <- ns_lookup_nl, (NS0 ns n id). split; intros [s [Is R]]; exists s; (split; [|exact R]);
        [apply in_or_app; left; exact Is|apply in_app_or in Is; destruct Is as [Is|[Is|[]]]; [exact Is|subst s; destruct R as [_ [R _]]; congruence]]. }
  destruct (links_own_spec st1 sb) as [SO HO]. destruct (links_in_spec (links_own st1 sb) sb) as [SI HI].
  set (st2 := links_in (links_own st1 sb) sb) in *.
  assert (S12 : same_res st1 st2) by (eapply same_res_trans; eassumption).
  destruct S12 as [Sy Nm]. destruct SO as [SyO _].
  split.
  - rewrite Sy. exact ND1.
  - intros ns n id. rewrite ns_lookup_nl, Nm, <- ns_lookup_nl, Sy. apply NS1.
  - rewrite Sy. unfold st1. cbn [syms]. intros s Is. apply in_app_or in Is. destruct Is as [Is|[Is|[]]]; [apply OK0; exact Is|subst s; exact OKsb].
  - intros t q r o. rewrite HI, HO, SyO. unfold Fwd. rewrite Sy. change (refs st1) with (refs st0). rewrite (RO0 t q r o).
    rewrite (OwnE_iff st1 sb t q o ND1 NS1). unfold Fwd, st1. cbn [syms]. split.
    + intros [[[sr [tt [np [p [A [B R]]]]]]|[-> [tt [np [p [A R]]]]]]|[-> [ref [A [B [C [np [p [D [E [F [G H]]]]]]]]]]]].
      * exists sr, tt, np, p. split; [apply in_or_app; left; exact A|]. split; [apply in_or_app; left; exact B|exact R].
      * exists sb, tt, np, p. split; [apply in_or_app; right; left; reflexivity|]. split; [exact A|]. tauto.
      * exists ref, sb, np, p. split; [exact A|]. split; [apply in_or_app; right; left; reflexivity|].
        repeat (split; [first [assumption|reflexivity]|]). split; [|symmetry; exact C].
        assert (Pk : pref_ok p).
        { apply in_app_or in A. destruct A as [A|[A|[]]]; [exact (OK0 ref A np p D F)|subst ref; exact (OKsb np p D F)]. }
        apply (matchp_iff sb p Pk) in H. destruct H as [H|[H1 [n [H2 H3]]]].
        -- destruct H as [H|[H1 [n [H2 [_ H4]]]]]; [left; exact H|right; split; [exact H1|exists n; auto]].
        -- right. split; [exact H1|]. exists n. auto.
    + intros [sr [tt [np [p [A [B [C [D [E [F [G [H [I J]]]]]]]]]]]]].
      apply in_app_or in A. apply in_app_or in B.
      destruct B as [B|[B|[]]].
      * destruct A as [A|[A|[]]].
        -- left. left. exists sr, tt, np, p. tauto.
        -- subst sr. left. right. split; [auto|]. exists tt, np, p. split; [apply in_or_app; left; exact B|]. tauto.
      * subst tt. right. split; [auto|]. exists sr. split; [apply in_or_app; exact A|]. split; [exact C|]. split; [auto|].
        exists np, p. repeat (split; [assumption|]).
        assert (Pk : pref_ok p).
        { destruct A as [A|[A|[]]]; [exact (OK0 sr A np p E G)|subst sr; exact (OKsb np p E G)]. }
        apply (matchp_iff sb p Pk). destruct I as [I|[I1 [n [I2 [I3 I4]]]]]; [left; left; exact I|].
        right. split; [exact I1|]. exists n. auto.
  - apply links_in_keys, links_own_keys. exact KN0.
Qed.


Theorem insert_TI st sb : TI st -> ok_insert st sb -> TI (fst (insert st sb)).
Proof.
  intros T [OKsb NF]. rewrite insert_unfold. pose proof (free_TI st (s_id sb) T) as T0.
  pose proof (free_syms_exact st (s_id sb) T) as FS. pose proof (free_done_absent st (s_id sb) T) as FA.
  destruct (free st (s_id sb)) as [st0 [b|e]]; cbn [fst snd] in *; [|exact T0].
  specialize (FA (ex_intro _ b eq_refl)).
  assert (T2 : TI (linked_state st0 sb)).
  { apply add_TI; auto. intros s n Is. apply NF; [apply FS in Is; tauto|]. intros E. apply FA. rewrite <- E. apply in_map. exact Is. }
  pose proof (load_same (linked_state st0 sb) sb) as L.
  destruct (load (linked_state st0 sb) sb) as [st3 [e|]]; cbn [fst] in *; apply (TI_same_tab _ _ L T2).
Qed.

(* ---- every reachable state ---- *)
Lemma TI_init : TI t_init.
Proof.
  split; cbn.
  - constructor.
  - intros ns n id. split; [discriminate|]. intros [s [[] _]].
  - intros s [].
  - intros t q r o. split.
    + intros [m [l [x [[] _]]]].
    + intros [sr [tt [np [p [[] _]]]]].
  - constructor.
Qed.

Lemma close_TI st : TI st -> TI (fst (close_table st)).
Proof.
  intros T. unfold close_table.
  assert (G : forall ids acc, TI (fst acc) ->
    TI (fst (fold_left (fun (acc : tstate * tres) (id : nat) =>
      match snd acc with
      | TFail _ => acc
      | TDone _ => match free (fst acc) id with (st', TFail e) => (st', TFail e) | (st', TDone _) => (st', TDone true) end
      end) ids acc))).
  { induction ids as [|id ids IH]; intros acc Ta; cbn [fold_left]; [exact Ta|]. apply IH.
    destruct (snd acc); [|exact Ta]. pose proof (free_TI (fst acc) id Ta) as F. destruct (free (fst acc) id) as [st' [b|e]]; exact F. }
  apply G. exact T.
Qed.

Definition ok_op (st : tstate) (op : top) : Prop := match op with TInsert sb => ok_insert st sb | _ => True end.
Fixpoint wf_from (st : tstate) (ops : list top) : Prop :=
  match ops with [] => True | op :: rest => ok_op st op /\ wf_from (t_step st op) rest end.

Lemma step_TI st op : TI st -> ok_op st op -> TI (t_step st op).
Proof.
  intros T O. unfold t_step, t_step_res. destruct op as [sb|id|].
  - apply insert_TI; assumption.
  - apply free_TI; assumption.
  - apply close_TI; assumption.
Qed.

(* In every state reached by a well-formed history the reference index holds exactly the resolved port references of
   the present symbols, reversed: (target, in-port, referrer, out-port) is recorded iff the referrer is present, has
   a reference on that out-port to that in-port which denotes the target, the target is present and of the same
   namespace. *)
Theorem t_run_TI ops : wf_from t_init ops -> TI (t_run ops).
Proof.
  unfold t_run. generalize TI_init. generalize t_init. induction ops as [|op ops IH]; intros st T W; cbn [fold_left]; [exact T|].
  destruct W as [O W]. apply IH; [apply step_TI; assumption|exact W].
Qed.

(* a computable form of the history condition *)
Definition pref_ok_b (p : pref) : bool := match pr_id p, pr_name p with Some _, Some _ => false | _, _ => true end.
Definition sym_ok_b (s : sym) : bool := forallb (fun np : nat * list pref => forallb pref_ok_b (snd np)) (s_ports s).
Definition name_free_b (st : tstate) (sb : sym) : bool :=
  forallb (fun s => Nat.eqb (s_id s) (s_id sb) || negb (Nat.eqb (s_ns s) (s_ns sb)) ||
                    match s_name s, s_name sb with Some n, Some m => negb (Nat.eqb n m) | _, _ => true end) (syms st).
Definition ok_op_b (st : tstate) (op : top) : bool :=
  match op with TInsert sb => sym_ok_b sb && name_free_b st sb | _ => true end.
Fixpoint wf_from_b (st : tstate) (ops : list top) : bool :=
  match ops with [] => true | op :: rest => ok_op_b st op && wf_from_b (t_step st op) rest end.

Lemma ok_op_b_sound st op : ok_op_b st op = true -> ok_op st op.
Proof.
  destruct op as [sb|id|]; cbn [ok_op_b ok_op]; [|exact (fun _ => I)|exact (fun _ => I)].
  intros H. apply andb_prop in H. destruct H as [H1 H2]. split.
  - intros np p Inp Ip. unfold sym_ok_b in H1. rewrite forallb_forall in H1. specialize (H1 np Inp). rewrite forallb_forall in H1.
    specialize (H1 p Ip). unfold pref_ok_b, pref_ok in *. destruct (pr_id p); [destruct (pr_name p); [discriminate|right; reflexivity]|left; reflexivity].
  - intros s n Is Nid Ens Enm. unfold name_free_b in H2. rewrite forallb_forall in H2. specialize (H2 s Is).
    destruct (Nat.eqb_spec (s_id s) (s_id sb)); [contradiction|]. rewrite Ens, Nat.eqb_refl, Enm in H2. cbn [negb orb] in H2.
    destruct (s_name sb) as [m|]; [|discriminate]. apply negb_true_iff, Nat.eqb_neq in H2. congruence.
Qed.

Lemma wf_from_b_sound : forall ops st, wf_from_b st ops = true -> wf_from st ops.
Proof.
  induction ops as [|op ops IH]; intros st H; cbn [wf_from_b wf_from] in *; [exact I|].
  apply andb_prop in H. destruct H as [H1 H2]. split; [apply ok_op_b_sound; exact H1|apply IH; exact H2].
Qed.
