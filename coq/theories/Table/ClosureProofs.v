(* The activation test of the symbol table (isActivated: a depth-first walk over the port references
   with a visited set) decides exactly "the reference closure is present": every symbol reachable
   through resolved port references has a node and all of its references resolve to present symbols
   of its namespace.  Completeness holds for any amount of fuel; soundness needs the walk not to run
   out of fuel, which the fuel of is_activated guarantees (every iteration pops the stack, and every
   symbol pushes its successors at most once). *)
From Coq Require Import List Arith NArith ZArith Bool Lia.
From Uf Require Import Table.Table Table.TableProofs.
Import ListNotations.

Definition targets (st : tstate) (s : sym) : list (option sym) :=
  flat_map (fun np : nat * list pref => map (fun p => resolve_sym st (s_ns s) p) (snd np)) (s_ports s).

Definition good (st : tstate) (s : sym) : bool :=
  s_node s && forallb (fun t : option sym => match t with Some n => Nat.eqb (s_ns n) (s_ns s) | None => false end) (targets st s).

Definition nexts (st : tstate) (s : sym) : list sym :=
  flat_map (fun t : option sym => match t with Some n => [n] | None => [] end) (targets st s).

(* a path: consecutive symbols are joined by a resolved port reference *)
Fixpoint path (st : tstate) (x : sym) (l : list sym) : Prop :=
  match l with
  | [] => True
  | y :: l' => In y (nexts st x) /\ path st y l'
  end.
Definition last_of (x : sym) (l : list sym) : sym := last l x.

(* the reference closure of s is present *)
Definition closure_ok (st : tstate) (s : sym) : Prop :=
  forall l, path st s l -> good st (last_of s l) = true.

Lemma activated_step fuel st curr rest visited :
  activated (S fuel) st (curr :: rest) visited =
  if mem (s_id curr) visited then activated fuel st rest visited
  else if good st curr then activated fuel st (nexts st curr ++ rest) (s_id curr :: visited) else false.
Proof.
  cbn [activated]. destruct (mem (s_id curr) visited); [reflexivity|].
  unfold good, nexts, targets. destruct (s_node curr); cbn [negb andb]; [|reflexivity].
  destruct (forallb _ _); reflexivity.
Qed.

Lemma last_default {A} (l : list A) a b : l <> [] -> last l a = last l b.
Proof. induction l as [|x l IH]; intros N; [congruence|]. destruct l as [|y l]; [reflexivity|]. cbn in *. apply IH. discriminate. Qed.

Lemma last_of_cons x y l : last_of x (y :: l) = last_of y l.
Proof.
  unfold last_of. destruct l as [|z l]; [reflexivity|]. change (last (y :: z :: l) x) with (last (z :: l) x). apply last_default. discriminate.
Qed.

Lemma closure_next st s n : closure_ok st s -> In n (nexts st s) -> closure_ok st n.
Proof. intros C I l P. specialize (C (n :: l)). rewrite last_of_cons in C. apply C. cbn. auto. Qed.

(* completeness: a symbol whose closure is present passes the test, whatever the fuel *)
Lemma activated_complete st fuel : forall stack visited,
  (forall x, In x stack -> closure_ok st x) -> activated fuel st stack visited = true.
Proof.
  induction fuel as [|fuel IH]; intros stack visited H; [reflexivity|].
  destruct stack as [|curr rest]; [reflexivity|]. rewrite activated_step.
  destruct (mem (s_id curr) visited); [apply IH; intros x I; apply H; right; exact I|].
  assert (G : good st curr = true) by (apply (H curr (or_introl eq_refl) []); exact I).
  rewrite G. apply IH. intros x I. apply in_app_or in I. destruct I as [I|I].
  - eapply closure_next; [apply H; left; reflexivity|exact I].
  - apply H. right. exact I.
Qed.

(* ---- soundness ---- *)
(* symbols are identified by their ids: a canonical symbol is the one the table finds for its id *)
Definition canon (st : tstate) (s : sym) : Prop := find_sym st (s_id s) = Some s.

Lemma nexts_canon st s n : In n (nexts st s) -> canon st n.
Proof.
  unfold nexts, targets. intros I. apply in_flat_map in I. destruct I as [t [It In1]].
  destruct t as [m|]; [|contradiction]. destruct In1 as [<-|[]].
  apply in_flat_map in It. destruct It as [np [_ Im]]. apply in_map_iff in Im. destruct Im as [p [E _]].
  unfold resolve_sym in E. destruct (resolve st (s_ns s) p) as [id|]; [|discriminate].
  unfold canon. destruct (find_sym_in st id m E) as [_ Eid]. rewrite Eid. exact E.
Qed.

Lemma canon_eq st a b : canon st a -> canon st b -> s_id a = s_id b -> a = b.
Proof. unfold canon. intros A B E. rewrite E in A. congruence. Qed.

Lemma mem_in x l : mem x l = true <-> In x l.
Proof.
  unfold mem. rewrite existsb_exists. split.
  - intros [y [I E]]. apply Nat.eqb_eq in E. subst. exact I.
  - intros I. exists x. split; auto. apply Nat.eqb_refl.
Qed.

(* a path none of whose symbols (start included) has its id in V *)
Fixpoint avoids (V : list nat) (x : sym) (l : list sym) : Prop :=
  ~ In (s_id x) V /\ match l with [] => True | y :: l' => avoids V y l' end.

Lemma avoids_head V x l : avoids V x l -> ~ In (s_id x) V.
Proof. destruct l; cbn; tauto. Qed.

(* split a path at the last occurrence of id c *)
Lemma split_last st c : forall l x,
  path st x l -> canon st x ->
  (forall y, In y (x :: l) -> s_id y <> c) \/
  exists pre y suf, x :: l = pre ++ y :: suf /\ s_id y = c /\ canon st y /\ path st y suf /\ (forall z, In z suf -> s_id z <> c).
Proof.
  induction l as [|y l IH]; intros x P Cx.
  - destruct (Nat.eq_dec (s_id x) c) as [E|N].
    + right. exists [], x, []. cbn. repeat split; auto.
    + left. intros z [<-|[]]. exact N.
  - destruct P as [I P]. pose proof (nexts_canon st x y I) as Cy.
    destruct (IH y P Cy) as [A|[pre [z [suf [E [Ez [Cz [Pz Az]]]]]]]].
    + destruct (Nat.eq_dec (s_id x) c) as [Ex|N].
      * right. exists [], x, (y :: l). cbn. repeat split; auto.
      * left. intros z [<-|Iz]; [exact N|apply A; exact Iz].
    + right. exists (x :: pre), z, suf. split; [cbn; rewrite E; reflexivity|]. auto.
Qed.

Lemma avoids_suffix V pre y suf x l : x :: l = pre ++ y :: suf -> avoids V x l -> avoids V y suf.
Proof.
  revert x l. induction pre as [|a pre IH]; intros x l E A; cbn in E.
  - inversion E; subst. exact A.
  - inversion E; subst. destruct (pre ++ y :: suf) as [|b r] eqn:R; [destruct pre; discriminate|].
    apply (IH b r); auto. destruct A as [_ A]. exact A.
Qed.

Lemma avoids_cons_id V c x l : avoids V x l -> (forall z, In z (x :: l) -> s_id z <> c) -> avoids (c :: V) x l.
Proof.
  revert x. induction l as [|y l IH]; intros x A H; cbn in *.
  - split; auto. intros [E|I]; [apply (H x); auto|tauto].
  - destruct A as [Nx A]. split.
    + intros [E|I]; [apply (H x); auto|tauto].
    + apply IH; auto.
Qed.


Lemma last_of_split x l pre y suf : x :: l = pre ++ y :: suf -> last_of x l = last_of y suf.
Proof.
  revert x l. induction pre as [|a pre IH]; intros x l E; cbn in E.
  - inversion E; subst. reflexivity.
  - inversion E; subst. destruct (pre ++ y :: suf) as [|b r] eqn:R; [destruct pre; discriminate|].
    rewrite last_of_cons. apply IH. reflexivity.
Qed.

(* the fuel argument: every iteration pops the stack; a symbol pushes its successors only when it is first visited *)
Definition wt (st : tstate) (V : list nat) (s : sym) : nat := if mem (s_id s) V then 0 else length (nexts st s).
Definition wsum (st : tstate) (V : list nat) : nat := list_sum (map (wt st V) (syms st)).

Lemma wt_other st V c s : s_id s <> c -> wt st (c :: V) s = wt st V s.
Proof.
  intros N. unfold wt, mem. cbn [existsb]. destruct (Nat.eqb (s_id s) c) eqn:E; [apply Nat.eqb_eq in E; congruence|]. reflexivity.
Qed.

Lemma wsum_visit_list st V c l :
  NoDup (map s_id l) -> In c l -> ~ In (s_id c) V ->
  list_sum (map (wt st (s_id c :: V)) l) + length (nexts st c) = list_sum (map (wt st V) l).
Proof.
  unfold list_sum. induction l as [|a l IH]; intros N I NV; [contradiction|].
  cbn [map fold_right]. inversion N as [|? ? Na N']; subst.
  destruct I as [->|I].
  - assert (T : map (wt st (s_id c :: V)) l = map (wt st V) l).
    { apply map_ext_in. intros s Is. apply wt_other. intros E. apply Na. rewrite <- E. apply in_map. exact Is. }
    rewrite T. unfold wt at 1. unfold mem at 1. cbn [existsb]. rewrite Nat.eqb_refl. cbn [orb].
    unfold wt at 2. destruct (mem (s_id c) V) eqn:M; [apply mem_in in M; contradiction|]. lia.
  - rewrite wt_other by (intros E; apply Na; rewrite E; apply in_map; exact I).
    specialize (IH N' I NV). lia.
Qed.

Lemma canon_in st s : NoDup (map s_id (syms st)) -> In s (syms st) -> canon st s.
Proof.
  unfold canon, find_sym. intros N I. induction (syms st) as [|a l IH]; [contradiction|].
  cbn [find]. inversion N as [|? ? Na N']; subst. destruct I as [->|I].
  - rewrite Nat.eqb_refl. reflexivity.
  - destruct (Nat.eqb (s_id a) (s_id s)) eqn:E; [apply Nat.eqb_eq in E; exfalso; apply Na; rewrite E; apply in_map; exact I|].
    apply IH; auto.
Qed.

Lemma canon_in_syms st s : canon st s -> In s (syms st).
Proof. intros C. apply (find_sym_in st (s_id s) s C). Qed.

Lemma activated_sound st (ND : NoDup (map s_id (syms st))) fuel : forall stack V,
  (forall x, In x stack -> canon st x) ->
  length stack + wsum st V <= fuel ->
  activated fuel st stack V = true ->
  forall x, In x stack -> forall l, path st x l -> avoids V x l -> good st (last_of x l) = true.
Proof.
  induction fuel as [|fuel IH]; intros stack V Cs Phi A x Ix l P Av.
  - destruct stack; [contradiction|cbn in Phi; lia].
  - destruct stack as [|curr rest]; [contradiction|]. rewrite activated_step in A.
    destruct (mem (s_id curr) V) eqn:M.
    + destruct Ix as [<-|Ix].
      * exfalso. apply (avoids_head V curr l Av). apply mem_in. exact M.
      * apply (IH rest V); auto; [intros y Iy; apply Cs; right; exact Iy|cbn in Phi; lia].
    + destruct (good st curr) eqn:G; [|discriminate].
      assert (Cc : canon st curr) by (apply Cs; left; reflexivity).
      assert (NV : ~ In (s_id curr) V) by (intros I; apply mem_in in I; congruence).
      pose proof (wsum_visit_list st V curr (syms st) ND (canon_in_syms st curr Cc) NV) as W. fold (wsum st (s_id curr :: V)) in W. fold (wsum st V) in W.
      assert (IHn : forall y, In y (nexts st curr ++ rest) -> forall l', path st y l' -> avoids (s_id curr :: V) y l' -> good st (last_of y l') = true).
      { apply (IH (nexts st curr ++ rest) (s_id curr :: V)); auto.
        - intros y Iy. apply in_app_or in Iy. destruct Iy as [Iy|Iy]; [eapply nexts_canon; eauto|apply Cs; right; exact Iy].
        - rewrite app_length. cbn in Phi. lia. }
      assert (Cx : canon st x) by (apply Cs; exact Ix).
      destruct (split_last st (s_id curr) l x P Cx) as [NoC|[pre [y [suf [E [Ey [Cy [Py Ns]]]]]]]].
      * (* the path never meets curr *)
        destruct Ix as [<-|Ix]; [exfalso; apply (NoC curr); [left; reflexivity|reflexivity]|].
        apply (IHn x); [apply in_or_app; right; exact Ix|exact P|apply avoids_cons_id; auto].
      * (* after its last visit to curr the path stays away from it *)
        assert (y = curr) by (apply (canon_eq st); auto). subst y.
        rewrite (last_of_split x l pre curr suf E).
        pose proof (avoids_suffix V pre curr suf x l E Av) as Avs.
        destruct suf as [|n suf']; [exact G|].
        rewrite last_of_cons. destruct Py as [In1 Pn]. cbn in Avs. destruct Avs as [_ Avn].
        apply (IHn n); [apply in_or_app; left; exact In1|exact Pn|].
        apply avoids_cons_id; [exact Avn|]. intros z Iz. apply Ns. exact Iz.
Qed.

(* the fuel of is_activated is enough *)
Lemma nexts_le_targets st s : length (nexts st s) <= length (targets st s).
Proof.
  unfold nexts. induction (targets st s) as [|t ts IH]; cbn; [lia|]. destruct t; cbn; rewrite ?app_length; cbn; lia.
Qed.
Lemma targets_len st s :
  length (targets st s) = fold_left (fun k2 (np : nat * list pref) => k2 + length (snd np)) (s_ports s) 0.
Proof.
  unfold targets. generalize (s_ports s). intros ps.
  assert (G : forall k, fold_left (fun k2 (np : nat * list pref) => k2 + length (snd np)) ps k =
                   k + length (flat_map (fun np : nat * list pref => map (fun p => resolve_sym st (s_ns s) p) (snd np)) ps)).
  { induction ps as [|np ps IH]; intros k; cbn; [lia|]. rewrite IH, app_length, map_length. lia. }
  rewrite G. lia.
Qed.

Lemma wsum_bound st :
  wsum st [] <= fold_left (fun k s => k + fold_left (fun k2 (np : nat * list pref) => k2 + length (snd np)) (s_ports s) 0) (syms st) 0.
Proof.
  unfold wsum, list_sum. generalize (syms st). intros ss.
  assert (G : forall k, k + fold_right Nat.add 0 (map (wt st []) ss) <=
                   fold_left (fun k s => k + fold_left (fun k2 (np : nat * list pref) => k2 + length (snd np)) (s_ports s) 0) ss k).
  { induction ss as [|s ss IH]; intros k; cbn [map fold_right fold_left]; [lia|].
    specialize (IH (k + fold_left (fun k2 (np : nat * list pref) => k2 + length (snd np)) (s_ports s) 0)).
    unfold wt at 1. cbn [mem existsb]. pose proof (nexts_le_targets st s). rewrite targets_len in H. lia. }
  specialize (G 0). lia.
Qed.

(* isActivated decides "the reference closure is present" *)
Theorem is_activated_iff_closure st s :
  NoDup (map s_id (syms st)) -> In s (syms st) ->
  (is_activated st s = true <-> closure_ok st s).
Proof.
  intros ND I. unfold is_activated. split.
  - intros A l P. eapply (activated_sound st ND _ [s] []) with (x := s); [| |exact A| | |].
    + intros x [<-|[]]. apply canon_in; auto.
    + cbn [length]. pose proof (wsum_bound st) as B.
      set (E := fold_left (fun k s0 => k + fold_left (fun k2 (np : nat * list pref) => k2 + length (snd np)) (s_ports s0) 0) (syms st) 0) in *.
      nia.
    + left. reflexivity.
    + exact P.
    + clear A. revert s I P. induction l as [|y l IHl]; intros s I P; cbn; [tauto|].
      split; [tauto|]. destruct P as [In1 P]. apply IHl; auto. apply canon_in_syms. eapply nexts_canon; eauto.
  - intros C. apply activated_complete. intros x [<-|[]]. exact C.
Qed.

(* ---- the activation test only looks at the symbols and the name index ---- *)
Lemma is_activated_same st st' s : same_tab st st' -> is_activated st' s = is_activated st s.
Proof.
  intros [E1 [_ [E3 _]]]. unfold is_activated. rewrite E1.
  set (F := S (length (syms st) + _) * S (length (syms st))).
  assert (R : forall ns p, resolve_sym st' ns p = resolve_sym st ns p).
  { intros ns p. unfold resolve_sym, resolve, ns_lookup, find_sym. rewrite E1, E3. reflexivity. }
  generalize F. clear F. intros F. generalize [s] as stack, (@nil nat) as V.
  induction F as [|F IH]; intros stack V; [reflexivity|].
  destruct stack as [|c rest]; [reflexivity|]. cbn [activated].
  destruct (mem (s_id c) V); [apply IH|]. destruct (negb (s_node c)); [reflexivity|].
  assert (T : flat_map (fun np : nat * list pref => map (fun p => resolve_sym st' (s_ns c) p) (snd np)) (s_ports c) =
              flat_map (fun np : nat * list pref => map (fun p => resolve_sym st (s_ns c) p) (snd np)) (s_ports c)).
  { induction (s_ports c) as [|np ps IHp]; cbn; [reflexivity|]. rewrite IHp. f_equal. apply map_ext. intros p. apply R. }
  rewrite T. destruct (forallb _ _); [apply IH|reflexivity].
Qed.

(* the events one run over a list of symbols adds: every load (unload) notification is for a symbol of the list
   that passed the activation test *)
Lemma life_fold_events (f : tstate -> sym -> tstate * option nat) (mk : nat -> ev) l :
  (forall st s, same_tab st (fst (f st s))) ->
  (forall st s, exists es, events (fst (f st s)) = events st ++ es /\ forall i, In (mk i) es -> i = s_inst s) ->
  forall st0 e0, exists es,
    events (fst (life_fold_from f l (st0, e0))) = events st0 ++ es /\
    forall i, In (mk i) es -> exists s, In s l /\ s_inst s = i /\ is_activated st0 s = true.
Proof.
  intros Hs Hf. unfold life_fold_from. induction l as [|s l IH]; intros st0 e0; cbn [fold_left fst].
  - exists []. rewrite app_nil_r. split; [reflexivity|intros i []].
  - destruct e0 as [e|].
    + destruct (IH st0 (Some e)) as [es [E H]]. exists es. split; [exact E|].
      intros i Ii. destruct (H i Ii) as [x [Ix R]]. exists x. split; [right; exact Ix|exact R].
    + destruct (is_activated st0 s) eqn:A.
      * destruct (f st0 s) as [st1 e1] eqn:Ef. pose proof (Hs st0 s) as S1. rewrite Ef in S1. cbn [fst] in S1.
        destruct (Hf st0 s) as [es1 [E1 H1]]. rewrite Ef in E1. cbn [fst] in E1.
        destruct (IH st1 e1) as [es2 [E2 H2]]. exists (es1 ++ es2). split; [rewrite E2, E1, app_assoc; reflexivity|].
        intros i Ii. apply in_app_or in Ii. destruct Ii as [Ii|Ii].
        -- exists s. split; [left; reflexivity|]. split; [symmetry; apply H1; exact Ii|exact A].
        -- destruct (H2 i Ii) as [x [Ix [Ex Ax]]]. exists x. split; [right; exact Ix|]. split; [exact Ex|].
           rewrite <- (is_activated_same st0 st1 x S1). exact Ax.
      * destruct (IH st0 None) as [es [E H]]. exists es. split; [exact E|].
        intros i Ii. destruct (H i Ii) as [x [Ix R]]. exists x. split; [right; exact Ix|exact R].
Qed.

Lemma in_repeat_inv {A} (x y : A) n : In x (repeat y n) -> x = y.
Proof. induction n; cbn; intros H; [contradiction|]. destruct H; auto. Qed.

Lemma activate_loads st s : exists es, events (fst (activate st s)) = events st ++ es /\ forall i, In (ELoad i) es -> i = s_inst s.
Proof.
  destruct (activate_shape st s) as [i [b E]]. eexists. split; [exact E|].
  intros j Ij. apply in_app_or in Ij. destruct Ij as [Ij|Ij]; [apply in_repeat_inv in Ij; discriminate|].
  destruct (snd (exec st s port_init)); [contradiction|]. destruct Ij as [Ej|Ij]; [congruence|apply in_repeat_inv in Ij; discriminate].
Qed.
Lemma deactivate_unloads st s : exists es, events (fst (deactivate st s)) = events st ++ es /\ forall i, In (EUnload i) es -> i = s_inst s.
Proof.
  destruct (deactivate_shape st s) as [i [b E]]. eexists. split; [exact E|].
  intros j Ij. apply in_app_or in Ij. destruct Ij as [Ij|Ij]; [apply in_repeat_inv in Ij; discriminate|].
  destruct (snd (exec st s port_term)); [contradiction|]. destruct Ij as [Ej|Ij]; [congruence|apply in_repeat_inv in Ij; discriminate].
Qed.

(* a load hook only ever fires for a symbol whose reference closure is present at that moment, an unload hook
   only for one whose closure is (still) present: load and unload run over the symbol and its referrers and skip
   everything the activation test rejects *)
Theorem load_only_closed st sb :
  NoDup (map s_id (syms st)) ->
  exists es, events (fst (load st sb)) = events st ++ es /\
    forall i, In (ELoad i) es -> exists s, In s (linked st sb) /\ s_inst s = i /\ (In s (syms st) -> closure_ok st s).
Proof.
  intros ND. unfold load, life_fold.
  destruct (life_fold_events activate ELoad (linked st sb) activate_same activate_loads st None) as [es [E H]].
  exists es. split; [exact E|]. intros i Ii. destruct (H i Ii) as [s [Is [Es As]]].
  exists s. split; [exact Is|]. split; [exact Es|]. intros Iss. apply is_activated_iff_closure; auto.
Qed.

Theorem unload_only_closed st sb :
  NoDup (map s_id (syms st)) ->
  exists es, events (fst (unload st sb)) = events st ++ es /\
    forall i, In (EUnload i) es -> exists s, In s (linked st sb) /\ s_inst s = i /\ (In s (syms st) -> closure_ok st s).
Proof.
  intros ND. unfold unload, life_fold.
  destruct (life_fold_events deactivate EUnload (rev (linked st sb)) deactivate_same deactivate_unloads st None) as [es [E H]].
  exists es. split; [exact E|]. intros i Ii. destruct (H i Ii) as [s [Is [Es As]]].
  exists s. split; [apply in_rev; exact Is|]. split; [exact Es|]. intros Iss. apply is_activated_iff_closure; auto.
Qed.
