(* C06, the wiring itself: in every state reached by a well-formed history the port links are exactly the resolved port
   references of the present symbols whose two nodes offer the ports - every such reference is linked, and nothing else. *)
From Coq Require Import List Arith Bool Lia.
From Uf Require Import Table.Table Table.TableProofs Table.RefsProofs.
Import ListNotations.

Definition lk := (nat * nat * nat * nat)%type.

Lemma add_link_in ls (l x : lk) : In x (add_link ls l) <-> In x ls \/ x = l.
Proof.
  unfold add_link. destruct (existsb _ ls) eqn:X.
  - split; [auto|]. intros [H|H]; [exact H|]. subst x. apply existsb_exists in X. destruct X as [y [Iy Ey]].
    destruct y as [[[a b] c] d]. destruct l as [[[a' b'] c'] d'].
    apply andb_prop in Ey. destruct Ey as [Ey E4]. apply andb_prop in Ey. destruct Ey as [Ey E3]. apply andb_prop in Ey. destruct Ey as [E1 E2].
    apply Nat.eqb_eq in E1, E2, E3, E4. subst. exact Iy.
  - rewrite in_app_iff. cbn [In]. split; [intros [H|[H|[]]]; auto|intros [H|H]; auto].
Qed.

(* the condition under which a reference becomes a link *)
Definition lcond (src tgt : sym) (o i : nat) : bool :=
  mem o (s_outs src) && s_node src && s_node tgt && mem i (s_ins tgt).

Lemma link_own_ref_links sb o st p :
  links (link_own_ref sb o st p) =
  match resolve_sym st (s_ns sb) p with
  | Some ref => if Nat.eqb (s_ns ref) (s_ns sb)
                then (if lcond sb ref o (pr_port p) then add_link (links st) (s_inst sb, o, s_inst ref, pr_port p) else links st)
                else links st
  | None => links st
  end.
Proof.
  unfold link_own_ref, lcond. destruct (resolve_sym st (s_ns sb) p) as [ref|]; [|reflexivity].
  destruct (Nat.eqb (s_ns ref) (s_ns sb)); reflexivity.
Qed.

Lemma link_in_ref_links sb ref o st p :
  links (link_in_ref sb ref o st p) =
  if matchp sb p then (if lcond ref sb o (pr_port p) then add_link (links st) (s_inst ref, o, s_inst sb, pr_port p) else links st)
  else links st.
Proof. unfold link_in_ref, matchp, lcond. destruct (_ || _); reflexivity. Qed.

(* ---- links(sb), first half ---- *)
Lemma lown_prefs sb o st0 : forall ps st, same_res st0 st ->
  forall x, In x (links (fold_left (link_own_ref sb o) ps st)) <->
    In x (links st) \/
    exists p tt, In p ps /\ resolve_sym st0 (s_ns sb) p = Some tt /\ s_ns tt = s_ns sb /\ lcond sb tt o (pr_port p) = true /\
                 x = (s_inst sb, o, s_inst tt, pr_port p).
Proof.
  induction ps as [|p ps IH]; intros st S x; cbn [fold_left].
  - split; [auto|]. intros [H|[p [tt [[] _]]]]. exact H.
  - destruct (link_own_ref_refs sb o st p) as [S1 _]. pose proof (same_res_trans _ _ _ S S1) as S2.
    rewrite (IH _ S2), link_own_ref_links, (resolve_sym_same st0 st _ _ S).
    destruct (resolve_sym st0 (s_ns sb) p) as [ref|] eqn:Rs.
    + destruct (Nat.eqb_spec (s_ns ref) (s_ns sb)) as [En|En].
      * destruct (lcond sb ref o (pr_port p)) eqn:C.
        -- rewrite add_link_in. split.
           ++ intros [[H|H]|[p' [tt [Ip R]]]]; [left; exact H| |right; exists p', tt; split; [right; exact Ip|exact R]].
              right. exists p, ref. split; [left; reflexivity|]. auto.
           ++ intros [H|[p' [tt [[Ep|Ip] [Er [E1 [E2 E3]]]]]]]; [left; left; exact H| |right; exists p', tt; auto].
              subst p'. rewrite Rs in Er. injection Er as <-. left. right. exact E3.
        -- split.
           ++ intros [H|[p' [tt [Ip R]]]]; [left; exact H|right; exists p', tt; split; [right; exact Ip|exact R]].
           ++ intros [H|[p' [tt [[Ep|Ip] [Er [E1 [E2 E3]]]]]]]; [left; exact H| |right; exists p', tt; auto].
              subst p'. rewrite Rs in Er. injection Er as <-. congruence.
      * split.
        -- intros [H|[p' [tt [Ip R]]]]; [left; exact H|right; exists p', tt; split; [right; exact Ip|exact R]].
        -- intros [H|[p' [tt [[Ep|Ip] [Er [E1 [E2 E3]]]]]]]; [left; exact H| |right; exists p', tt; auto].
           subst p'. rewrite Rs in Er. injection Er as <-. contradiction.
    + split.
      * intros [H|[p' [tt [Ip R]]]]; [left; exact H|right; exists p', tt; split; [right; exact Ip|exact R]].
      * intros [H|[p' [tt [[Ep|Ip] [Er R]]]]]; [left; exact H| |right; exists p', tt; auto].
        subst p'. rewrite Rs in Er. discriminate.
Qed.

Definition OwnL (st : tstate) (sb : sym) (x : lk) : Prop :=
  exists np p tt, In np (s_ports sb) /\ In p (snd np) /\ resolve_sym st (s_ns sb) p = Some tt /\ s_ns tt = s_ns sb /\
                  lcond sb tt (fst np) (pr_port p) = true /\ x = (s_inst sb, fst np, s_inst tt, pr_port p).

Lemma lown_ports sb st0 : forall nps st, same_res st0 st ->
  same_res st0 (fold_left (fun st (np : nat * list pref) => fold_left (link_own_ref sb (fst np)) (snd np) st) nps st) /\
  forall x, In x (links (fold_left (fun st (np : nat * list pref) => fold_left (link_own_ref sb (fst np)) (snd np) st) nps st)) <->
    In x (links st) \/
    exists np p tt, In np nps /\ In p (snd np) /\ resolve_sym st0 (s_ns sb) p = Some tt /\ s_ns tt = s_ns sb /\
                    lcond sb tt (fst np) (pr_port p) = true /\ x = (s_inst sb, fst np, s_inst tt, pr_port p).
Proof.
  induction nps as [|np nps IH]; intros st S; cbn [fold_left].
  - split; [exact S|]. intros x. split; [auto|]. intros [H|[np [p [tt [[] _]]]]]. exact H.
  - destruct (links_own_prefs sb (fst np) st0 (snd np) st S) as [S1 _]. destruct (IH _ S1) as [S2 H2].
    split; [exact S2|]. intros x. rewrite H2, (lown_prefs sb (fst np) st0 (snd np) st S). split.
    + intros [[H|[p [tt [Ip R]]]]|[np' [p [tt [Inp R]]]]].
      * left. exact H.
      * right. exists np, p, tt. split; [left; reflexivity|]. split; [exact Ip|exact R].
      * right. exists np', p, tt. split; [right; exact Inp|exact R].
    + intros [H|[np' [p [tt [[Enp|Inp] [Ip R]]]]]].
      * left. left. exact H.
      * subst np'. left. right. exists p, tt. auto.
      * right. exists np', p, tt. auto.
Qed.

Lemma links_own_links st sb : forall x, In x (links (links_own st sb)) <-> In x (links st) \/ OwnL st sb x.
Proof.
  unfold links_own. destruct (lown_ports sb st (s_ports sb) st (same_res_refl st)) as [_ H]. intros x. rewrite H. unfold OwnL. tauto.
Qed.

(* ---- links(sb), second half ---- *)
Lemma lin_prefs sb ref o : forall ps st x,
  In x (links (fold_left (link_in_ref sb ref o) ps st)) <->
    In x (links st) \/
    exists p, In p ps /\ matchp sb p = true /\ lcond ref sb o (pr_port p) = true /\ x = (s_inst ref, o, s_inst sb, pr_port p).
Proof.
  induction ps as [|p ps IH]; intros st x; cbn [fold_left].
  - split; [auto|]. intros [H|[p [[] _]]]. exact H.
  - rewrite IH, link_in_ref_links. destruct (matchp sb p) eqn:M.
    + destruct (lcond ref sb o (pr_port p)) eqn:C.
      * rewrite add_link_in. split.
        -- intros [[H|H]|[p' [Ip R]]]; [left; exact H|right; exists p; split; [left; reflexivity|auto]|right; exists p'; split; [right; exact Ip|exact R]].
        -- intros [H|[p' [[Ep|Ip] [Mp [Cp Ex]]]]]; [left; left; exact H|subst p'; left; right; exact Ex|right; exists p'; auto].
      * split.
        -- intros [H|[p' [Ip R]]]; [left; exact H|right; exists p'; split; [right; exact Ip|exact R]].
        -- intros [H|[p' [[Ep|Ip] [Mp [Cp Ex]]]]]; [left; exact H|subst p'; congruence|right; exists p'; auto].
    + split.
      * intros [H|[p' [Ip R]]]; [left; exact H|right; exists p'; split; [right; exact Ip|exact R]].
      * intros [H|[p' [[Ep|Ip] [Mp [Cp Ex]]]]]; [left; exact H|subst p'; congruence|right; exists p'; auto].
Qed.

Definition InL (sb ref : sym) (x : lk) : Prop :=
  exists np p, In np (s_ports ref) /\ In p (snd np) /\ matchp sb p = true /\ lcond ref sb (fst np) (pr_port p) = true /\
               x = (s_inst ref, fst np, s_inst sb, pr_port p).

Lemma lin_ports sb ref : forall nps st x,
  In x (links (fold_left (fun st (np : nat * list pref) => fold_left (link_in_ref sb ref (fst np)) (snd np) st) nps st)) <->
    In x (links st) \/
    exists np p, In np nps /\ In p (snd np) /\ matchp sb p = true /\ lcond ref sb (fst np) (pr_port p) = true /\
                 x = (s_inst ref, fst np, s_inst sb, pr_port p).
Proof.
  induction nps as [|np nps IH]; intros st x; cbn [fold_left].
  - split; [auto|]. intros [H|[np [p [[] _]]]]. exact H.
  - rewrite IH, lin_prefs. split.
    + intros [[H|[p [Ip R]]]|[np' [p [Inp R]]]].
      * left. exact H.
      * right. exists np, p. split; [left; reflexivity|]. split; [exact Ip|exact R].
      * right. exists np', p. split; [right; exact Inp|exact R].
    + intros [H|[np' [p [[Enp|Inp] [Ip R]]]]].
      * left. left. exact H.
      * subst np'. left. right. exists p. auto.
      * right. exists np', p. auto.
Qed.

Lemma lin_sym sb st ref x :
  In x (links (link_in_sym sb st ref)) <-> In x (links st) \/ (s_ns ref = s_ns sb /\ InL sb ref x).
Proof.
  unfold link_in_sym. destruct (Nat.eqb_spec (s_ns ref) (s_ns sb)) as [E|E]; cbn [negb].
  - rewrite lin_ports. unfold InL. tauto.
  - split; [auto|]. intros [H|[E' _]]; [exact H|contradiction].
Qed.

Lemma lin_syms sb : forall l st x,
  In x (links (fold_left (link_in_sym sb) l st)) <-> In x (links st) \/ exists ref, In ref l /\ s_ns ref = s_ns sb /\ InL sb ref x.
Proof.
  induction l as [|ref l IH]; intros st x; cbn [fold_left].
  - split; [auto|]. intros [H|[ref [[] _]]]. exact H.
  - rewrite IH, lin_sym. split.
    + intros [[H|[En R]]|[ref' [I' R]]]; [left; exact H|right; exists ref; split; [left; reflexivity|auto]|right; exists ref'; split; [right; exact I'|exact R]].
    + intros [H|[ref' [[Er|I'] R]]]; [left; left; exact H|subst ref'; left; right; exact R|right; exists ref'; auto].
Qed.

Lemma links_in_links st sb x :
  In x (links (links_in st sb)) <-> In x (links st) \/ exists ref, In ref (syms st) /\ s_ns ref = s_ns sb /\ InL sb ref x.
Proof. unfold links_in. apply lin_syms. Qed.

(* ---- the expected wiring ---- *)
Definition LFwd (st : tstate) (x : lk) : Prop :=
  exists sr tt np p, In sr (syms st) /\ In tt (syms st) /\ In np (s_ports sr) /\ In p (snd np) /\
    RefP (s_ns sr) p tt /\ s_ns tt = s_ns sr /\ lcond sr tt (fst np) (pr_port p) = true /\
    x = (s_inst sr, fst np, s_inst tt, pr_port p).

Definition LinksOK (st : tstate) : Prop := forall x, In x (links st) <-> LFwd st x.

Lemma lcond_true src tgt o i : lcond src tgt o i = true -> True. Proof. trivial. Qed.

(* ---- adding a symbol ---- *)
Theorem add_LinksOK st0 sb :
  TI st0 -> TI (linked_state st0 sb) -> sym_ok sb -> LinksOK st0 -> LinksOK (linked_state st0 sb).
Proof.
  intros T0 T2 OKsb L0. unfold linked_state in *. set (st1 := add_state st0 sb) in *.
  destruct (links_own_spec st1 sb) as [SO _]. destruct (links_in_spec (links_own st1 sb) sb) as [SI _].
  set (st2 := links_in (links_own st1 sb) sb) in *.
  assert (S12 : same_res st1 st2) by (eapply same_res_trans; eassumption).
  assert (Sy2 : syms st2 = syms st0 ++ [sb]) by (destruct S12 as [A _]; rewrite A; reflexivity).
  assert (SyO : syms (links_own st1 sb) = syms st0 ++ [sb]) by (destruct SO as [A _]; rewrite A; reflexivity).
  assert (RS : forall ns p, resolve_sym st1 ns p = resolve_sym st2 ns p) by (intros ns p; symmetry; apply resolve_sym_same; exact S12).
  intros x. unfold st2 at 1. rewrite links_in_links, links_own_links, SyO. change (links st1) with (links st0). rewrite (L0 x).
  unfold LFwd. rewrite Sy2. split.
  - intros [[[sr [tt [np [p [A [B R]]]]]]|[np [p [tt [A [B [C [D [E F]]]]]]]]]|[ref [A [B [np [p [C [D [E [F G]]]]]]]]]].
    + exists sr, tt, np, p. split; [apply in_or_app; left; exact A|]. split; [apply in_or_app; left; exact B|exact R].
    + rewrite RS in C. apply (resolve_iff st2 _ _ _ (ti_ids _ T2) (ti_ns _ T2)) in C. destruct C as [C1 C2]. rewrite Sy2 in C1.
      exists sb, tt, np, p. split; [apply in_or_app; right; left; reflexivity|]. tauto.
    + exists ref, sb, np, p. split; [exact A|]. split; [apply in_or_app; right; left; reflexivity|].
      split; [exact C|]. split; [exact D|]. split; [|split; [symmetry; exact B|split; [exact F|exact G]]].
      assert (Pk : pref_ok p).
      { apply in_app_or in A. destruct A as [A|[A|[]]]; [exact (ti_syms _ T0 ref A np p C D)|subst ref; exact (OKsb np p C D)]. }
      apply (matchp_iff sb p Pk) in E. destruct E as [E|[E1 [n [E2 E3]]]].
      * destruct E as [E|[E1 [n [E2 [_ E4]]]]]; [left; exact E|right; split; [exact E1|exists n; auto]].
      * right. split; [exact E1|]. exists n. auto.
  - intros [sr [tt [np [p [A [B [C [D [E [F [G H]]]]]]]]]]].
    apply in_app_or in A. apply in_app_or in B. destruct B as [B|[B|[]]].
    + destruct A as [A|[A|[]]].
      * left. left. exists sr, tt, np, p. tauto.
      * subst sr. left. right. exists np, p, tt. split; [exact C|]. split; [exact D|]. split; [|tauto].
        rewrite RS. apply (resolve_iff st2 _ _ _ (ti_ids _ T2) (ti_ns _ T2)). split; [rewrite Sy2; apply in_or_app; left; exact B|exact E].
    + subst tt. right. exists sr. split; [apply in_or_app; exact A|]. split; [auto|]. exists np, p. split; [exact C|]. split; [exact D|]. split; [|tauto].
      assert (Pk : pref_ok p).
      { destruct A as [A|[A|[]]]; [exact (ti_syms _ T0 sr A np p C D)|subst sr; exact (OKsb np p C D)]. }
      apply (matchp_iff sb p Pk). destruct E as [E|[E1 [n [E2 [E3 E4]]]]]; [left; left; exact E|]. right. split; [exact E1|]. exists n. auto.
Qed.

(* ---- removing a symbol ---- *)
Lemma unlink_ref_keeps sb o st p x : (fst (fst (fst x))) <> s_inst sb -> In x (links st) -> In x (links (unlink_ref sb o st p)).
Proof.
  intros N I. unfold unlink_ref. destruct (resolve_sym st (s_ns sb) p) as [ref|]; [|exact I]. cbn [links].
  apply filter_In. split; [exact I|]. destruct x as [[[a b] c] d]. cbn [fst] in N.
  destruct (Nat.eqb_spec a (s_inst sb)); [contradiction|]. reflexivity.
Qed.

Lemma unlinks_keeps st sb x : (fst (fst (fst x))) <> s_inst sb -> In x (links st) -> In x (links (unlinks st sb)).
Proof.
  intros N I. unfold unlinks. cbn [links].
  assert (G : forall nps st1, In x (links st1) ->
    In x (links (fold_left (fun st (np : nat * list pref) => fold_left (unlink_ref sb (fst np)) (snd np) st) nps st1))).
  { induction nps as [|np nps IH]; intros st1 I1; cbn [fold_left]; [exact I1|]. apply IH.
    generalize dependent st1. induction (snd np) as [|p ps IHp]; intros st1 I1; cbn [fold_left]; [exact I1|].
    apply IHp. apply unlink_ref_keeps; assumption. }
  apply G. exact I.
Qed.

Lemma free_links st id sb : find_sym st id = Some sb -> snd (free st id) = TDone true ->
  forall x, In x (links (fst (free st id))) <->
    In x (links st) /\ fst (fst (fst x)) <> s_inst sb /\ snd (fst x) <> s_inst sb.
Proof.
  intros F D x. unfold free in *. rewrite F in *. pose proof (unload_same st sb) as US.
  destruct (unload st sb) as [st1 [e|]]; cbn [fst snd] in *; [discriminate|]. destruct US as [_ [U2 _]].
  cbn [links]. unfold close_sym. cbn [links].
  assert (E : links (if s_node sb then log (unlinks st1 sb) (ECloseNode (s_inst sb)) else unlinks st1 sb) = links (unlinks st1 sb)) by (destruct (s_node sb); reflexivity).
  rewrite E, filter_In. destruct x as [[[a b] c] d]. cbn [fst snd]. rewrite andb_true_iff, !negb_true_iff, !Nat.eqb_neq. split.
  - intros [I [Na Nc]]. split; [|auto]. rewrite <- U2. apply (proj2 (unlinks_sub st1 sb)). exact I.
  - intros [I [Na Nc]]. split; [|auto]. apply unlinks_keeps; [exact Na|rewrite U2; exact I].
Qed.

Record HL (st : tstate) : Prop := {
  hl_ti : TI st;
  hl_inst : NoDup (map s_inst (syms st));
  hl_links : LinksOK st
}.

Lemma same_inst_same' st a b : NoDup (map s_inst (syms st)) -> In a (syms st) -> In b (syms st) -> s_inst a = s_inst b -> a = b.
Proof.
  intros ND. induction (syms st) as [|x l IH]; intros Ia Ib E; [destruct Ia|]. inversion ND as [|? ? Nx ND']; subst.
  destruct Ia as [Ia|Ia]; destruct Ib as [Ib|Ib]; try congruence.
  - subst x. exfalso. apply Nx. rewrite E. apply in_map. exact Ib.
  - subst x. exfalso. apply Nx. rewrite <- E. apply in_map. exact Ia.
  - apply IH; assumption.
Qed.

Lemma HL_same_tab st st' : same_tab st st' -> HL st -> HL st'.
Proof.
  intros S [T NI L]. pose proof S as [A [B _]]. split; [apply (TI_same_tab _ _ S T)|rewrite A; exact NI|].
  intros x. rewrite B. unfold LFwd. rewrite A. apply L.
Qed.

Theorem free_HL st id : HL st -> HL (fst (free st id)).
Proof.
  intros H. pose proof H as [T NI L]. destruct (find_sym st id) as [sb|] eqn:F.
  2:{ unfold free. rewrite F. exact H. }
  destruct (snd (free st id)) as [b|e] eqn:D.
  2:{ (* the unload failed: nothing but the log changed *)
      unfold free in *. rewrite F in *. pose proof (unload_same st sb) as US. destruct (unload st sb) as [st1 [e'|]]; cbn [fst snd] in *; [|discriminate].
      apply (HL_same_tab _ _ US H). }
  assert (D' : snd (free st id) = TDone true).
  { unfold free in *. rewrite F in *. destruct (unload st sb) as [st1 [e'|]]; cbn [snd] in *; [discriminate|reflexivity]. }
  destruct (find_sym_in _ _ _ F) as [Isb Eid]. subst id.
  pose proof (free_syms_exact st (s_id sb) T) as FS. rewrite D' in FS.
  assert (InS : forall s, In s (syms (fst (free st (s_id sb)))) <-> In s (syms st) /\ s <> sb).
  { intros s. rewrite FS. split.
    - intros [I N]. split; [exact I|]. intros E. subst s. apply (N eq_refl). reflexivity.
    - intros [I N]. split; [exact I|]. intros _ E. apply N. apply (same_id_same st); auto. apply (ti_ids _ T). }
  split.
  - apply free_TI. exact T.
  - assert (Sy : syms (fst (free st (s_id sb))) = filter (fun s => negb (Nat.eqb (s_id s) (s_id sb))) (syms st)).
    { unfold free. rewrite F. pose proof (unload_same st sb) as US. destruct (unload st sb) as [st1 [e'|]] eqn:U; cbn [fst snd].
      - unfold free in D'. rewrite F, U in D'. discriminate.
      - cbn [fst] in US. destruct US as [U1 _]. destruct (unlinks_spec st1 sb) as [[S1 _] _]. cbn [syms]. unfold close_sym. destruct (s_node sb); cbn [syms log]; rewrite S1, U1; reflexivity. }
    rewrite Sy. apply NoDup_map_filter. exact NI.
  - intros x. rewrite (free_links st (s_id sb) sb F D' x), (L x). unfold LFwd. split.
    + intros [[sr [tt [np [p [A [B [C [E [G [H1 [H2 H3]]]]]]]]]]] [Na Nc]]. subst x. cbn [fst snd] in Na, Nc.
      exists sr, tt, np, p. split; [apply InS; split; [exact A|intros E0; subst sr; apply Na; reflexivity]|].
      split; [apply InS; split; [exact B|intros E0; subst tt; apply Nc; reflexivity]|]. tauto.
    + intros [sr [tt [np [p [A [B R]]]]]]. apply InS in A. apply InS in B. destruct A as [A Nsr]. destruct B as [B Ntt].
      destruct R as [C [E [G [H1 [H2 H3]]]]]. subst x. cbn [fst snd].
      split; [exists sr, tt, np, p; tauto|]. split.
      * intros E0. apply Nsr. apply (same_inst_same' st); auto.
      * intros E0. apply Ntt. apply (same_inst_same' st); auto.
Qed.

Definition ok3_insert (st : tstate) (sb : sym) : Prop := ok_insert st sb /\ ~ In (s_inst sb) (map s_inst (syms st)).

Theorem insert_HL st sb : HL st -> ok3_insert st sb -> HL (fst (insert st sb)).
Proof.
  intros H [[OKsb NFr] Fi]. rewrite insert_unfold. pose proof (free_HL st (s_id sb) H) as H0.
  pose proof (free_syms_exact st (s_id sb) (hl_ti _ H)) as FS. pose proof (free_done_absent st (s_id sb) (hl_ti _ H)) as FA.
  destruct (free st (s_id sb)) as [st0 [b|e]]; cbn [fst snd] in *; [|exact H0].
  specialize (FA (ex_intro _ b eq_refl)). destruct H0 as [T0 NI0 L0].
  assert (Fi0 : ~ In (s_inst sb) (map s_inst (syms st0))).
  { intros I. apply Fi. apply in_map_iff in I. destruct I as [s [Es Is]]. apply in_map_iff. exists s. split; [exact Es|]. apply FS in Is. tauto. }
  assert (T2 : TI (linked_state st0 sb)).
  { apply add_TI; auto. intros s n Is. apply NFr; [apply FS in Is; tauto|]. intros E. apply FA. rewrite <- E. apply in_map. exact Is. }
  pose proof (add_LinksOK st0 sb T0 T2 OKsb L0) as L2. destruct (linked_state_shape st0 sb) as [Sy _].
  assert (H2 : HL (linked_state st0 sb)).
  { split; [exact T2| |exact L2]. rewrite Sy, map_app. cbn [map]. clear -NI0 Fi0. induction (map s_inst (syms st0)) as [|x l IH]; cbn.
    - constructor; [intros []|constructor].
    - inversion NI0 as [|? ? Nx ND']; subst. constructor.
      + intros I. apply in_app_or in I. destruct I as [I|[I|[]]]; [exact (Nx I)|]. apply Fi0. left. symmetry. exact I.
      + apply IH; [exact ND'|]. intros I. apply Fi0. right. exact I. }
  pose proof (load_same (linked_state st0 sb) sb) as LS.
  pose proof (HL_same_tab _ _ LS H2) as H3. destruct (load (linked_state st0 sb) sb) as [st3 [e|]]; exact H3.
Qed.

Lemma close_HL st : HL st -> HL (fst (close_table st)).
Proof.
  intros T. unfold close_table.
  assert (G : forall ids acc, HL (fst acc) ->
    HL (fst (fold_left (fun (acc : tstate * tres) (id : nat) =>
      match snd acc with
      | TFail _ => acc
      | TDone _ => match free (fst acc) id with (st', TFail e) => (st', TFail e) | (st', TDone _) => (st', TDone true) end
      end) ids acc))).
  { induction ids as [|id ids IH]; intros acc Ta; cbn [fold_left]; [exact Ta|]. apply IH.
    destruct (snd acc); [|exact Ta]. pose proof (free_HL (fst acc) id Ta) as F. destruct (free (fst acc) id) as [st' [b|e]]; exact F. }
  apply G. exact T.
Qed.

Definition ok3_op (st : tstate) (op : top) : Prop := match op with TInsert sb => ok3_insert st sb | _ => True end.
Fixpoint wf3_from (st : tstate) (ops : list top) : Prop :=
  match ops with [] => True | op :: rest => ok3_op st op /\ wf3_from (t_step st op) rest end.

Lemma HL_init : HL t_init.
Proof.
  split; [apply TI_init|constructor|]. intros x. split; [intros []|]. intros [sr [tt [np [p [[] _]]]]].
Qed.

(* In every state reached by a well-formed history (lifecycle flows may fail) the port links are exactly the resolved
   references of the present symbols between ports that their nodes offer. *)
Theorem t_run_HL ops : wf3_from t_init ops -> HL (t_run ops).
Proof.
  unfold t_run. generalize HL_init. generalize t_init. induction ops as [|op ops IH]; intros st T W; cbn [fold_left]; [exact T|].
  destruct W as [O W]. apply IH; [|exact W]. unfold t_step, t_step_res. destruct op as [sb|id|].
  - apply insert_HL; assumption.
  - apply free_HL; assumption.
  - apply close_HL; assumption.
Qed.

Definition ok3_op_b (st : tstate) (op : top) : bool :=
  match op with
  | TInsert sb => ok_op_b st (TInsert sb) && negb (existsb (fun s => Nat.eqb (s_inst s) (s_inst sb)) (syms st))
  | _ => true
  end.
Fixpoint wf3_from_b (st : tstate) (ops : list top) : bool :=
  match ops with [] => true | op :: rest => ok3_op_b st op && wf3_from_b (t_step st op) rest end.

Lemma wf3_from_b_sound : forall ops st, wf3_from_b st ops = true -> wf3_from st ops.
Proof.
  induction ops as [|op ops IH]; intros st H; cbn [wf3_from_b wf3_from] in *; [exact I|].
  apply andb_prop in H. destruct H as [H1 H2]. split; [|apply IH; exact H2].
  destruct op as [sb|id|]; cbn [ok3_op_b ok3_op] in *; try exact I.
  apply andb_prop in H1. destruct H1 as [H1 H4]. split; [apply (ok_op_b_sound st (TInsert sb)); exact H1|].
  intros I. apply in_map_iff in I. destruct I as [s [Es Is]]. apply negb_true_iff in H4.
  assert (X : existsb (fun s => Nat.eqb (s_inst s) (s_inst sb)) (syms st) = true) by (apply existsb_exists; exists s; split; [exact Is|apply Nat.eqb_eq; exact Es]).
  congruence.
Qed.
