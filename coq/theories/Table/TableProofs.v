(* Invariants of the symbol-table model (C06/C07): at most one symbol per id and per instance, and
   every port link joins two present symbol instances of one namespace through ports their nodes offer. *)
From Coq Require Import List NArith ZArith Bool Lia.
From Uf Require Import Table.Table.
Import ListNotations.

Definition lk_ok (ss : list sym) (l : nat * nat * nat * nat) : Prop :=
  let '(a, o, c, i) := l in
  exists s t, In s ss /\ In t ss /\ s_inst s = a /\ s_inst t = c /\ s_ns s = s_ns t /\
              mem o (s_outs s) = true /\ mem i (s_ins t) = true /\ s_node s = true /\ s_node t = true.

(* a step that keeps the symbols [S] and only adds well-formed links *)
Definition keeps (S : list sym) (st st' : tstate) : Prop :=
  syms st = S -> syms st' = S /\ (Forall (lk_ok S) (links st) -> Forall (lk_ok S) (links st')).

Lemma keeps_refl S st : keeps S st st.
Proof. intros H. auto. Qed.

Lemma keeps_trans S a b c : keeps S a b -> keeps S b c -> keeps S a c.
Proof. intros H1 H2 Ha. destruct (H1 Ha) as [Hb L1]. destruct (H2 Hb) as [Hc L2]. auto. Qed.

Lemma fold_keeps {A} S (f : tstate -> A -> tstate) (l : list A) :
  (forall st x, keeps S st (f st x)) -> forall st, keeps S st (fold_left f l st).
Proof.
  induction l as [|x l IH]; intros H st; cbn; [apply keeps_refl|].
  eapply keeps_trans; [apply H|]. apply IH. exact H.
Qed.

Lemma add_link_ok ss ls l : Forall (lk_ok ss) ls -> lk_ok ss l -> Forall (lk_ok ss) (add_link ls l).
Proof.
  intros H Hl. unfold add_link. destruct (existsb _ ls); auto. apply Forall_app. split; auto.
Qed.

Lemma find_sym_in st id s : find_sym st id = Some s -> In s (syms st) /\ s_id s = id.
Proof.
  unfold find_sym. intros H. apply find_some in H. destruct H as [H1 H2]. apply Nat.eqb_eq in H2. auto.
Qed.

Lemma resolve_sym_in st ns p s : resolve_sym st ns p = Some s -> In s (syms st).
Proof.
  unfold resolve_sym. destruct (resolve st ns p); [|discriminate]. intros H. apply (find_sym_in _ _ _ H).
Qed.

Lemma link_own_ref_keeps S sb o st p : In sb S -> keeps S st (link_own_ref sb o st p).
Proof.
  intros Hsb HS. unfold link_own_ref.
  destruct (resolve_sym st (s_ns sb) p) as [ref|] eqn:R; [|auto].
  destruct (Nat.eqb (s_ns ref) (s_ns sb)) eqn:Ns; [|auto].
  cbn [syms links]. split; auto. intros H.
  destruct (mem o (s_outs sb) && s_node sb && s_node ref && mem (pr_port p) (s_ins ref)) eqn:C; auto.
  apply add_link_ok; auto. apply andb_prop in C. destruct C as [C C4]. apply andb_prop in C. destruct C as [C C3].
  apply andb_prop in C. destruct C as [C1 C2]. apply Nat.eqb_eq in Ns.
  exists sb, ref. pose proof (resolve_sym_in _ _ _ _ R) as Hr. rewrite HS in Hr. repeat split; auto.
Qed.

Lemma links_own_keeps S st sb : In sb S -> keeps S st (links_own st sb).
Proof.
  intros Hsb. unfold links_own. apply fold_keeps. intros st1 np.
  apply fold_keeps. intros st2 p. apply link_own_ref_keeps. exact Hsb.
Qed.

Lemma link_in_ref_keeps S sb ref o st p : In sb S -> In ref S -> s_ns ref = s_ns sb -> keeps S st (link_in_ref sb ref o st p).
Proof.
  intros Hsb Href Ns HS. unfold link_in_ref. destruct (_ || _); [|auto].
  cbn [syms links]. split; auto. intros H.
  destruct (mem o (s_outs ref) && s_node ref && s_node sb && mem (pr_port p) (s_ins sb)) eqn:C; auto.
  apply add_link_ok; auto. apply andb_prop in C. destruct C as [C C4]. apply andb_prop in C. destruct C as [C C3].
  apply andb_prop in C. destruct C as [C1 C2].
  exists ref, sb. repeat split; auto.
Qed.

Lemma link_in_sym_keeps S sb st ref : In sb S -> In ref S -> keeps S st (link_in_sym sb st ref).
Proof.
  intros Hsb Href. unfold link_in_sym. destruct (negb (Nat.eqb (s_ns ref) (s_ns sb))) eqn:Ns; [apply keeps_refl|].
  apply negb_false_iff, Nat.eqb_eq in Ns.
  apply fold_keeps. intros st1 np. apply fold_keeps. intros st2 p. apply link_in_ref_keeps; auto.
Qed.

Lemma fold_keeps_in {A} S (f : tstate -> A -> tstate) (l : list A) :
  (forall st x, In x l -> keeps S st (f st x)) -> forall st, keeps S st (fold_left f l st).
Proof.
  induction l as [|x l IH]; intros H st; cbn; [apply keeps_refl|].
  eapply keeps_trans; [apply H; left; reflexivity|]. apply IH. intros st' y Hy. apply H. right. exact Hy.
Qed.

Lemma links_in_keeps S st sb : In sb S -> syms st = S -> keeps S st (links_in st sb).
Proof.
  intros Hsb HS0. unfold links_in. apply fold_keeps_in. intros st1 ref Href.
  apply link_in_sym_keeps; auto. rewrite <- HS0. exact Href.
Qed.

(* lifecycle flows and hooks change neither symbols nor links *)
Definition same_tab (st st' : tstate) : Prop :=
  syms st' = syms st /\ links st' = links st /\ nsmap st' = nsmap st /\ refs st' = refs st.

Lemma same_tab_refl st : same_tab st st.
Proof. repeat split. Qed.
Lemma same_tab_trans a b c : same_tab a b -> same_tab b c -> same_tab a c.
Proof. intros [A1 [A2 [A3 A4]]] [B1 [B2 [B3 B4]]]. repeat split; congruence. Qed.
Lemma same_tab_log st e : same_tab st (log st e).
Proof. repeat split. Qed.

Lemma exec_same st sb pn : same_tab st (fst (exec st sb pn)).
Proof.
  unfold exec. generalize (match find (fun np : nat * list pref => Nat.eqb (fst np) pn) (s_ports sb) with
                           | Some np => snd np | None => [] end) as ps. intros ps.
  assert (G : forall ps st0 e0, same_tab st st0 ->
    same_tab st (fst (fold_left (fun (acc : tstate * option nat) (p : pref) =>
      let '(st, err) := acc in
      match err with
      | Some _ => acc
      | None =>
          match resolve_sym st (s_ns sb) p with
          | Some ref =>
              if Nat.eqb (s_ns ref) (s_ns sb) && s_node ref && mem (pr_port p) (s_ins ref)
              then (log st (EExec (s_inst sb) pn), s_fail ref)
              else acc
          | None => acc
          end
      end) ps (st0, e0)))).
  { induction ps0 as [|p ps0 IH]; intros st0 e0 H; cbn [fold_left fst]; auto.
    destruct e0; [apply IH; auto|].
    destruct (resolve_sym st0 (s_ns sb) p) as [ref|]; [|apply IH; auto].
    destruct (_ && _); [apply IH; eapply same_tab_trans; [exact H|apply same_tab_log]|apply IH; auto].  }
  apply G. apply same_tab_refl.
Qed.

Lemma fold_life_same (f : tstate -> sym -> tstate * option nat) l :
  (forall st s, same_tab st (fst (f st s))) ->
  forall st0 e0, same_tab st0 (fst (fold_left (fun (acc : tstate * option nat) (s : sym) =>
      let '(st, err) := acc in
      match err with
      | Some _ => acc
      | None => if is_activated st s then f st s else acc
      end) l (st0, e0))).
Proof.
  intros Hf. induction l as [|s l IH]; intros st0 e0; cbn [fold_left fst]; [apply same_tab_refl|].
  destruct e0; [apply IH|]. destruct (is_activated st0 s); [|apply IH].
  destruct (f st0 s) as [st1 e1] eqn:E. eapply same_tab_trans; [|apply IH].
  pose proof (Hf st0 s) as H. rewrite E in H. exact H.
Qed.

Lemma activate_same st s : same_tab st (fst (activate st s)).
Proof.
  unfold activate. pose proof (exec_same st s port_init) as H1.
  destruct (exec st s port_init) as [st1 [e|]]; cbn [fst] in *; auto.
  eapply same_tab_trans; [exact H1|]. eapply same_tab_trans; [apply (same_tab_log st1)|apply exec_same].
Qed.

Lemma deactivate_same st s : same_tab st (fst (deactivate st s)).
Proof.
  unfold deactivate. pose proof (exec_same st s port_term) as H1.
  destruct (exec st s port_term) as [st1 [e|]]; cbn [fst] in *; auto.
  eapply same_tab_trans; [exact H1|]. eapply same_tab_trans; [apply (same_tab_log st1)|apply exec_same].
Qed.

Lemma load_same st sb : same_tab st (fst (load st sb)).
Proof. unfold load, life_fold, life_fold_from. apply (fold_life_same activate). apply activate_same. Qed.

Lemma unload_same st sb : same_tab st (fst (unload st sb)).
Proof. unfold unload, life_fold, life_fold_from. apply (fold_life_same deactivate). apply deactivate_same. Qed.

(* unlinks only removes links *)
Definition shrinks (st st' : tstate) : Prop := syms st' = syms st /\ (forall l, In l (links st') -> In l (links st)).

Lemma shrinks_refl st : shrinks st st.
Proof. split; auto. Qed.
Lemma shrinks_trans a b c : shrinks a b -> shrinks b c -> shrinks a c.
Proof. intros [A1 A2] [B1 B2]. split; [congruence|auto]. Qed.

Lemma fold_shrinks {A} (f : tstate -> A -> tstate) (l : list A) :
  (forall st x, shrinks st (f st x)) -> forall st, shrinks st (fold_left f l st).
Proof.
  induction l as [|x l IH]; intros H st; cbn; [apply shrinks_refl|].
  eapply shrinks_trans; [apply H|]. apply IH. exact H.
Qed.

Lemma unlink_ref_shrinks sb o st p : shrinks st (unlink_ref sb o st p).
Proof.
  unfold unlink_ref. destruct (resolve_sym st (s_ns sb) p); [|apply shrinks_refl].
  split; cbn [syms links]; auto. intros l Hl. apply filter_In in Hl. tauto.
Qed.

Lemma unlinks_sub st sb : syms (unlinks st sb) = syms st /\ (forall l, In l (links (unlinks st sb)) -> In l (links st)).
Proof.
  unfold unlinks. cbn [syms links].
  apply (fold_shrinks (fun st (np : nat * list pref) => fold_left (unlink_ref sb (fst np)) (snd np) st)).
  intros st1 np. apply fold_shrinks. intros st2 p. apply unlink_ref_shrinks.
Qed.

(* ---- the invariant ---- *)
Definition tinv (st : tstate) : Prop :=
  NoDup (map s_id (syms st)) /\ NoDup (map s_inst (syms st)) /\ Forall (lk_ok (syms st)) (links st).

Definition fresh_inst (st : tstate) (sb : sym) : Prop := ~ In (s_inst sb) (map s_inst (syms st)).

Lemma lk_ok_mono S S' l : (forall s, In s S -> In s S') -> lk_ok S l -> lk_ok S' l.
Proof.
  intros H. destruct l as [[[a o] c] i]. intros [s [t [A [B R]]]]. exists s, t. split; auto.
Qed.

Lemma NoDup_map_filter {A B} (f : A -> B) (p : A -> bool) l : NoDup (map f l) -> NoDup (map f (filter p l)).
Proof.
  induction l as [|x l IH]; cbn; intros H; auto. inversion H; subst.
  destruct (p x); cbn; auto. constructor; auto. intros C. apply H2.
  apply in_map_iff in C. destruct C as [y [E Hy]]. apply filter_In in Hy. apply in_map_iff. exists y. tauto.
Qed.

Lemma nodup_id_eq l x y : NoDup (map s_id l) -> In x l -> In y l -> s_id x = s_id y -> x = y.
Proof.
  induction l as [|z l IH]; cbn; intros N Hx Hy E; [destruct Hx|].
  inversion N; subst. destruct Hx as [->|Hx], Hy as [->|Hy]; auto.
  - exfalso. apply H1. rewrite E. apply in_map. exact Hy.
  - exfalso. apply H1. rewrite <- E. apply in_map. exact Hx.
Qed.

Lemma tinv_same st st' : same_tab st st' -> tinv st -> tinv st'.
Proof. intros [A [B _]] [I1 [I2 I3]]. unfold tinv. rewrite A, B. auto. Qed.

Lemma free_inv st id : tinv st -> tinv (fst (free st id)).
Proof.
  intros I. unfold free. destruct (find_sym st id) as [sb|] eqn:F; [|exact I].
  pose proof (unload_same st sb) as US. destruct (unload st sb) as [st1 [e|]]; cbn [fst] in *.
  { eapply tinv_same; eauto. }
  pose proof (tinv_same _ _ US I) as [I1 [I2 I3]]. destruct US as [U1 [U2 _]].
  destruct (find_sym_in _ _ _ F) as [Hsb Hid]. rewrite <- U1 in Hsb.
  destruct (unlinks_sub st1 sb) as [V1 V2].
  set (st2 := unlinks st1 sb) in *.
  unfold close_sym. set (st2' := if s_node sb then log st2 (ECloseNode (s_inst sb)) else st2).
  assert (E : syms st2' = syms st1 /\ links st2' = links st2).
  { unfold st2'. destruct (s_node sb); unfold log; cbn [syms links]; (split; [exact V1|reflexivity]). }
  destruct E as [E1 E2]. unfold tinv. cbn [syms links]. rewrite E1, E2.
  split; [apply NoDup_map_filter; exact I1|]. split; [apply NoDup_map_filter; exact I2|].
  apply Forall_forall. intros [[[a o] c] i] Hl. apply filter_In in Hl. destruct Hl as [Hl Hc].
  apply andb_prop in Hc. destruct Hc as [Ha Hc]. apply negb_true_iff, Nat.eqb_neq in Ha. apply negb_true_iff, Nat.eqb_neq in Hc.
  specialize (V2 _ Hl). rewrite Forall_forall in I3. specialize (I3 _ V2).
  destruct I3 as [s [t [Hs [Ht [Ea [Ec R]]]]]]. exists s, t.
  assert (K : forall x, In x (syms st1) -> s_inst x <> s_inst sb -> In x (filter (fun s0 => negb (Nat.eqb (s_id s0) id)) (syms st1))).
  { intros x Hx Ne. apply filter_In. split; auto. apply negb_true_iff, Nat.eqb_neq. intros Eid.
    apply Ne. f_equal. apply (nodup_id_eq (syms st1)); auto. congruence. }
  repeat split; try tauto; apply K; auto; congruence.
Qed.

Lemma NoDup_app_snoc {A} (l : list A) x : NoDup l -> ~ In x l -> NoDup (l ++ [x]).
Proof.
  induction l as [|a l IH]; cbn; intros N H; [repeat constructor; auto|].
  inversion N; subst. constructor.
  - intros C. apply in_app_or in C. destruct C as [C|[C|[]]]; auto.
  - apply IH; auto.
Qed.

Lemma free_syms_sub st id x : In x (syms (fst (free st id))) -> In x (syms st).
Proof.
  unfold free. destruct (find_sym st id) as [old|]; cbn [fst]; auto.
  pose proof (unload_same st old) as [U1 _]. destruct (unload st old) as [st1 [e|]]; cbn [fst] in *; [rewrite U1; auto|].
  cbn [syms]. intros Hx. apply filter_In in Hx. destruct Hx as [Hx _]. unfold close_sym in Hx. cbn [syms] in Hx.
  destruct (s_node old); unfold log in Hx; cbn [syms] in Hx; rewrite (proj1 (unlinks_sub _ _)), U1 in Hx; exact Hx.
Qed.

Lemma free_insts st id x : In x (map s_inst (syms (fst (free st id)))) -> In x (map s_inst (syms st)).
Proof.
  intros H. apply in_map_iff in H. destruct H as [s [E Hs]]. apply in_map_iff. exists s. split; auto.
  apply (free_syms_sub st id). exact Hs.
Qed.

(* the symbols after an insertion: those that survived the removal of the id, plus the new one,
   unless the removal was aborted by a failing flow *)
Lemma insert_syms st sb :
  syms (fst (insert st sb)) = syms (fst (free st (s_id sb))) ++ [sb] \/
  (exists e, snd (free st (s_id sb)) = TFail e /\ fst (insert st sb) = fst (free st (s_id sb))).
Proof.
  unfold insert. destruct (free st (s_id sb)) as [st0 [f|e]] eqn:Fr; cbn [fst snd]; [|right; eauto].
  left. set (nsm := match s_name sb with Some n => _ | None => _ end).
  set (st1 := mkt (syms st0 ++ [sb]) nsm (refs st0) (links st0) (events st0)).
  assert (HsbS : In sb (syms st1)) by (cbn; apply in_or_app; right; left; reflexivity).
  destruct (links_own_keeps (syms st1) st1 sb HsbS eq_refl) as [S2 _].
  destruct (links_in_keeps (syms st1) (links_own st1 sb) sb HsbS S2 S2) as [S3 _].
  pose proof (load_same (links_in (links_own st1 sb) sb) sb) as [A _].
  destruct (load (links_in (links_own st1 sb) sb) sb) as [st3 [e|]]; cbn [fst] in *; rewrite A, S3; reflexivity.
Qed.

Lemma insert_inv st sb : tinv st -> fresh_inst st sb -> tinv (fst (insert st sb)).
Proof.
  intros I Fr. pose proof (free_inv st (s_id sb) I) as J.
  unfold insert. destruct (free st (s_id sb)) as [st0 [f|e]] eqn:Fe; cbn [fst] in *; [|exact J].
  destruct J as [J1 [J2 J3]].
  assert (Sub : forall x, In x (syms st0) -> In x (syms st)).
  { intros x Hx. apply (free_syms_sub st (s_id sb)). rewrite Fe. exact Hx. }
  assert (NoId : ~ In (s_id sb) (map s_id (syms st0))).
  { assert (E : st0 = fst (free st (s_id sb))) by (rewrite Fe; reflexivity).
    assert (T : snd (free st (s_id sb)) = TDone f) by (rewrite Fe; reflexivity).
    rewrite E. revert T. unfold free. destruct (find_sym st (s_id sb)) as [old|] eqn:F; cbn [fst snd].
    - destruct (unload st old) as [st1 [e|]]; cbn [fst snd]; [discriminate|]. intros _.
      cbn [syms]. intros C. apply in_map_iff in C. destruct C as [x [Ex Hx]]. apply filter_In in Hx.
      destruct Hx as [_ Hx]. apply negb_true_iff, Nat.eqb_neq in Hx. congruence.
    - intros _ C. apply in_map_iff in C. destruct C as [x [Ex Hx]].
      unfold find_sym in F. pose proof (find_none _ _ F x Hx) as N. cbn beta in N. apply Nat.eqb_neq in N. congruence. }
  set (nsm := match s_name sb with Some n => _ | None => _ end).
  set (st1 := mkt (syms st0 ++ [sb]) nsm (refs st0) (links st0) (events st0)).
  set (S := syms st0 ++ [sb]).
  assert (HsbS : In sb S) by (apply in_or_app; right; left; reflexivity).
  assert (L1 : Forall (lk_ok S) (links st1)).
  { cbn [links st1]. eapply Forall_impl; [|exact J3]. intros l. apply lk_ok_mono. intros s Hs. apply in_or_app. auto. }
  destruct (links_own_keeps S st1 sb HsbS eq_refl) as [S2 L2].
  destruct (links_in_keeps S (links_own st1 sb) sb HsbS S2 S2) as [S3 L3].
  pose proof (load_same (links_in (links_own st1 sb) sb) sb) as LS.
  assert (T : tinv (links_in (links_own st1 sb) sb)).
  { unfold tinv. rewrite S3. unfold S. rewrite !map_app. cbn [map]. split; [|split].
    - apply NoDup_app_snoc; auto.
    - apply NoDup_app_snoc; auto. intros C. apply Fr. apply in_map_iff in C. destruct C as [x [E Hx]].
      apply in_map_iff. exists x. auto.
    - auto. }
  destruct (load (links_in (links_own st1 sb) sb) sb) as [st3 [e|]]; cbn [fst] in *; eapply tinv_same; eauto.
Qed.

Lemma insert_insts st sb x : In x (map s_inst (syms (fst (insert st sb)))) -> x = s_inst sb \/ In x (map s_inst (syms st)).
Proof.
  intros H. destruct (insert_syms st sb) as [E|[e [_ E]]].
  - rewrite E, map_app in H. apply in_app_or in H. destruct H as [H|[<-|[]]]; auto.
    right. apply (free_insts st (s_id sb)). exact H.
  - rewrite E in H. right. apply (free_insts st (s_id sb)). exact H.
Qed.

(* ---- every reachable state ---- *)
Fixpoint fresh_ops (used : list nat) (ops : list top) : Prop :=
  match ops with
  | [] => True
  | TInsert sb :: rest => ~ In (s_inst sb) used /\ fresh_ops (s_inst sb :: used) rest
  | _ :: rest => fresh_ops used rest
  end.

Lemma close_inv ids : forall st r, tinv st ->
  let res := fold_left (fun (acc : tstate * tres) (id : nat) =>
    match snd acc with
    | TFail _ => acc
    | TDone _ => match free (fst acc) id with (st', TFail e) => (st', TFail e) | (st', TDone _) => (st', TDone true) end
    end) ids (st, r) in
  tinv (fst res) /\ (forall x, In x (map s_inst (syms (fst res))) -> In x (map s_inst (syms st))).
Proof.
  induction ids as [|id ids IH]; intros st r H; cbn [fold_left fst snd]; [auto|].
  destruct r as [f|e]; [|apply IH; auto].
  pose proof (free_inv st id H) as FI. pose proof (free_insts st id) as FS.
  destruct (free st id) as [st' [f'|e']]; cbn [fst] in *.
  - destruct (IH st' (TDone true) FI) as [A B]. split; [exact A|intros x Hx; apply FS, B, Hx].
  - destruct (IH st' (TFail e') FI) as [A B]. split; [exact A|intros x Hx; apply FS, B, Hx].
Qed.

Theorem t_run_inv ops : fresh_ops [] ops -> tinv (t_run ops).
Proof.
  unfold t_run.
  assert (G : forall ops st used, tinv st -> (forall x, In x (map s_inst (syms st)) -> In x used) ->
               fresh_ops used ops -> tinv (fold_left t_step ops st)).
  { induction ops0 as [|op ops0 IH]; intros st used I U F; cbn [fold_left]; auto.
    destruct op as [sb|id|]; unfold t_step at 2; cbn [fresh_ops t_step_res] in *.
    - destruct F as [Fr F]. apply (IH _ (s_inst sb :: used)); auto.
      + apply insert_inv; auto. intros C. apply Fr, U, C.
      + intros x Hx. destruct (insert_insts _ _ _ Hx) as [->|Hx']; [left; reflexivity|right; auto].
    - apply (IH _ used); auto.
      + apply free_inv. exact I.
      + intros x Hx. apply U. apply (free_insts st id). exact Hx.
    - unfold close_table. destruct (close_inv (close_order st) st (TDone true) I) as [A B].
      apply (IH _ used); auto. }
  intros F. apply (G ops t_init []); auto.
  split; [constructor|]. split; constructor.
Qed.

(* ---- order of the notifications inside one removal ---- *)
Definition unload_ev (x : ev) : Prop := (exists i, x = EUnload i) \/ (exists i p, x = EExec i p).

Lemma exec_events st sb pn : exists es, events (fst (exec st sb pn)) = events st ++ es /\ Forall unload_ev es.
Proof.
  unfold exec. generalize (match find (fun np : nat * list pref => Nat.eqb (fst np) pn) (s_ports sb) with
                           | Some np => snd np | None => [] end) as ps. intros ps.
  assert (G : forall ps st0 e0, exists es,
    events (fst (fold_left (fun (acc : tstate * option nat) (p : pref) =>
      let '(st, err) := acc in
      match err with
      | Some _ => acc
      | None =>
          match resolve_sym st (s_ns sb) p with
          | Some ref =>
              if Nat.eqb (s_ns ref) (s_ns sb) && s_node ref && mem (pr_port p) (s_ins ref)
              then (log st (EExec (s_inst sb) pn), s_fail ref)
              else acc
          | None => acc
          end
      end) ps (st0, e0))) = events st0 ++ es /\ Forall unload_ev es).
  { induction ps0 as [|p ps0 IH]; intros st0 e0; cbn [fold_left fst].
    - exists []. rewrite app_nil_r. auto.
    - destruct e0; [apply IH|]. destruct (resolve_sym st0 (s_ns sb) p) as [ref|]; [|apply IH].
      destruct (_ && _); [|apply IH].
      destruct (IH (log st0 (EExec (s_inst sb) pn)) (s_fail ref)) as [es [E F]].
      exists (EExec (s_inst sb) pn :: es). rewrite E. cbn [log events]. rewrite <- app_assoc. split; auto.
      constructor; auto. right. eauto. }
  apply G.
Qed.

Lemma deactivate_events st s : exists es, events (fst (deactivate st s)) = events st ++ es /\ Forall unload_ev es.
Proof.
  unfold deactivate. destruct (exec_events st s port_term) as [e1 [E1 F1]].
  destruct (exec st s port_term) as [st1 [e|]]; cbn [fst] in *; [eauto|].
  destruct (exec_events (log st1 (EUnload (s_inst s))) s port_final) as [e2 [E2 F2]].
  exists (e1 ++ [EUnload (s_inst s)] ++ e2). rewrite E2. cbn [log events]. rewrite E1, <- !app_assoc. split; auto.
  apply Forall_app. split; auto. constructor; [left; eauto|auto].
Qed.

Lemma unload_events st sb : exists es, events (fst (unload st sb)) = events st ++ es /\ Forall unload_ev es.
Proof.
  unfold unload, life_fold, life_fold_from. generalize (rev (linked st sb)) as l. intros l.
  assert (G : forall l st0 e0, exists es,
    events (fst (fold_left (fun (acc : tstate * option nat) (s : sym) =>
      let '(st, err) := acc in
      match err with
      | Some _ => acc
      | None => if is_activated st s then deactivate st s else acc
      end) l (st0, e0))) = events st0 ++ es /\ Forall unload_ev es).
  { induction l0 as [|s l0 IH]; intros st0 e0; cbn [fold_left fst].
    - exists []. rewrite app_nil_r. auto.
    - destruct e0; [apply IH|]. destruct (is_activated st0 s); [|apply IH].
      destruct (deactivate_events st0 s) as [e1 [E1 F1]].
      destruct (deactivate st0 s) as [st1 e'] eqn:X. cbn [fst] in *.
      destruct (IH st1 e') as [es [E F]]. exists (e1 ++ es). rewrite E, E1, <- app_assoc. split; auto.
      apply Forall_app. auto. }
  apply G.
Qed.

Lemma unlinks_events st sb : events (unlinks st sb) = events st.
Proof.
  unfold unlinks. cbn [events].
  assert (G : forall (nps : list (nat * list pref)) st0,
            events (fold_left (fun st (np : nat * list pref) => fold_left (unlink_ref sb (fst np)) (snd np) st) nps st0) = events st0).
  { induction nps as [|np nps IH]; intros st0; cbn [fold_left]; auto. rewrite IH.
    generalize (snd np) as ps. intros ps. revert st0. induction ps as [|p ps IHp]; intros st0; cbn [fold_left]; auto.
    rewrite IHp. unfold unlink_ref. destruct (resolve_sym st0 (s_ns sb) p); reflexivity. }
  apply G.
Qed.

(* removing a symbol: first the term flows / unload notifications / final flows (dependents first),
   then - only if none of them failed - the node is closed *)
Theorem free_events st id sb : find_sym st id = Some sb ->
  exists us, Forall unload_ev us /\
    match snd (free st id) with
    | TFail _ => events (fst (free st id)) = events st ++ us
    | TDone _ => events (fst (free st id)) = events st ++ us ++ (if s_node sb then [ECloseNode (s_inst sb)] else [])
    end.
Proof.
  intros F. unfold free. rewrite F.
  destruct (unload_events st sb) as [us [E Fu]]. exists us. split; auto.
  destruct (unload st sb) as [st1 [e|]]; cbn [fst snd events] in *; auto.
  unfold close_sym. cbn [events].
  destruct (s_node sb); unfold log; cbn [events]; rewrite unlinks_events, E.
  - rewrite app_assoc. reflexivity.
  - rewrite app_nil_r. reflexivity.
Qed.

(* ---- lifecycle wrapping and abort (C08) ---- *)
(* a flow only produces requests of that symbol and port *)
Lemma exec_only st sb pn : exists k, events (fst (exec st sb pn)) = events st ++ repeat (EExec (s_inst sb) pn) k.
Proof.
  unfold exec. generalize (match find (fun np : nat * list pref => Nat.eqb (fst np) pn) (s_ports sb) with
                           | Some np => snd np | None => [] end) as ps. intros ps.
  assert (G : forall ps st0 e0, exists k,
    events (fst (fold_left (fun (acc : tstate * option nat) (p : pref) =>
      let '(st, err) := acc in
      match err with
      | Some _ => acc
      | None =>
          match resolve_sym st (s_ns sb) p with
          | Some ref =>
              if Nat.eqb (s_ns ref) (s_ns sb) && s_node ref && mem (pr_port p) (s_ins ref)
              then (log st (EExec (s_inst sb) pn), s_fail ref)
              else acc
          | None => acc
          end
      end) ps (st0, e0))) = events st0 ++ repeat (EExec (s_inst sb) pn) k).
  { induction ps0 as [|p ps0 IH]; intros st0 e0; cbn [fold_left fst].
    - exists 0. cbn. rewrite app_nil_r. reflexivity.
    - destruct e0; [apply IH|]. destruct (resolve_sym st0 (s_ns sb) p) as [ref|]; [|apply IH].
      destruct (_ && _); [|apply IH].
      destruct (IH (log st0 (EExec (s_inst sb) pn)) (s_fail ref)) as [k E].
      exists (S k). rewrite E. cbn [log events repeat]. rewrite <- app_assoc. reflexivity. }
  apply G.
Qed.

(* one activation: the init flow, then - only if it did not fail - the load hooks, then the begin flow *)
Theorem activate_shape st s :
  exists i b, events (fst (activate st s)) =
    events st ++ repeat (EExec (s_inst s) port_init) i ++
    match snd (exec st s port_init) with
    | Some _ => []
    | None => ELoad (s_inst s) :: repeat (EExec (s_inst s) port_begin) b
    end.
Proof.
  unfold activate. destruct (exec_only st s port_init) as [i Ei].
  destruct (exec st s port_init) as [st1 [e|]] eqn:X; cbn [fst snd] in *.
  - exists i, 0. rewrite Ei, app_nil_r. reflexivity.
  - destruct (exec_only (log st1 (ELoad (s_inst s))) s port_begin) as [b Eb].
    exists i, b. rewrite Eb. cbn [log events]. rewrite Ei, <- !app_assoc. reflexivity.
Qed.

Theorem deactivate_shape st s :
  exists t f, events (fst (deactivate st s)) =
    events st ++ repeat (EExec (s_inst s) port_term) t ++
    match snd (exec st s port_term) with
    | Some _ => []
    | None => EUnload (s_inst s) :: repeat (EExec (s_inst s) port_final) f
    end.
Proof.
  unfold deactivate. destruct (exec_only st s port_term) as [i Ei].
  destruct (exec st s port_term) as [st1 [e|]] eqn:X; cbn [fst snd] in *.
  - exists i, 0. rewrite Ei, app_nil_r. reflexivity.
  - destruct (exec_only (log st1 (EUnload (s_inst s))) s port_final) as [b Eb].
    exists i, b. rewrite Eb. cbn [log events]. rewrite Ei, <- !app_assoc. reflexivity.
Qed.

(* the first failing flow ends the operation: nothing more is notified, its error is the result *)
Theorem life_fold_abort f l : forall st e,
  fold_left (fun (acc : tstate * option nat) (s : sym) =>
    let '(st, err) := acc in
    match err with
    | Some _ => acc
    | None => if is_activated st s then f st s else acc
    end) l (st, Some e) = (st, Some e).
Proof. induction l as [|s l IH]; intros st e; cbn [fold_left]; auto. Qed.

Theorem insert_error_is_flow_error st sb e : snd (insert st sb) = TFail e ->
  (exists st', free st (s_id sb) = (st', TFail e)) \/
  (exists st2, snd (load st2 sb) = Some e).
Proof.
  unfold insert. destruct (free st (s_id sb)) as [st0 [f|e0]]; cbn [snd].
  - set (st2 := links_in _ sb). destruct (load st2 sb) as [st3 [e1|]] eqn:L; cbn [snd]; [|discriminate].
    intros H. injection H as <-. right. exists st2. rewrite L. reflexivity.
  - intros H. injection H as <-. left. eauto.
Qed.
