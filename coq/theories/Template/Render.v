(* A concrete engine for the {{ . }} / {{ .NAME }} fragment of text/template, used to instantiate
   [render] in the correspondence run, and the checker for C18. *)
From Coq Require Import List NArith ZArith Bool Lia.
From Uf Require Import Template.Template.
Import ListNotations.

Fixpoint digits (fuel : nat) (n : N) : list N :=
  match fuel with
  | O => []
  | S f => if N.ltb n 10 then [(48 + n)%N] else digits f (n / 10) ++ [(48 + n mod 10)%N]
  end.

Definition fmt_scalar (d : jdoc) : tres (list N) :=
  match d with
  | JStr s => TOk s
  | JNum z => if Z.ltb z 0 then TOk (45%N :: digits 20 (Z.to_N (- z))) else TOk (digits 20 (Z.to_N z))
  | JBool true => TOk [116; 114; 117; 101]%N
  | JBool false => TOk [102; 97; 108; 115; 101]%N
  | JNull => TOk [60; 110; 111; 32; 118; 97; 108; 117; 101; 62]%N    (* <no value> *)
  | _ => TErr
  end.

(* fmt %v: scalars, and flat maps of scalars as map[k:v k2:v2] (keys ascending); deeper nesting is
   outside the fragment the harness generates *)
Definition fmt (d : jdoc) : tres (list N) :=
  match d with
  | JMap l =>
      let body := fold_left (fun (acc : tres (list N)) (kv : list N * jdoc) =>
                    match acc, (match snd kv with JNull => TOk [60; 110; 105; 108; 62]%N | o => fmt_scalar o end) with
                    | TOk a, TOk v => TOk (a ++ (match a with [] => [] | _ => [32%N] end) ++ fst kv ++ [58%N] ++ v)
                    | _, _ => TErr
                    end) l (TOk []) in
      match body with
      | TOk b => TOk ([109; 97; 112; 91]%N ++ b ++ [93%N])
      | TErr => TErr
      end
  | other => fmt_scalar other
  end.

Definition trim (s : list N) : list N :=
  let drop := fix drop (s : list N) := match s with 32%N :: t => drop t | _ => s end in
  rev (drop (rev (drop s))).

Definition lookup (data : jdoc) (name : list N) : jdoc :=
  match data with
  | JMap l => match find (fun kv => bytes_eqb (fst kv) name) l with Some kv => snd kv | None => JNull end
  | _ => JNull
  end.

(* an action is a substitution ({{ . }}, {{ .NAME }}) or one of the control words of a single,
   non-nested conditional: {{ if .NAME }} ... {{ else }} ... {{ end }} *)
Inductive act := ASubst (r : tres (list N)) | AIf (cond : bool) | AElse | AEnd | ABad.

Definition truthy (d : jdoc) : bool :=
  match d with
  | JNull => false
  | JBool b => b
  | JNum z => negb (Z.eqb z 0)
  | JStr s => match s with [] => false | _ => true end
  | JList l => match l with [] => false | _ => true end
  | JMap l => match l with [] => false | _ => true end
  end.

Definition select (data : jdoc) (path : list N) : tres jdoc :=
  match path with
  | 46%N :: name =>
      match name with
      | [] => TOk data
      | _ => match data with
             | JMap _ => TOk (lookup data name)
             | _ => TErr        (* "can't evaluate field" on a scalar *)
             end
      end
  | _ => TErr
  end.

Definition action (body : list N) (data : jdoc) : act :=
  match trim body with
  | 105%N :: 102%N :: 32%N :: rest =>                         (* "if " *)
      match select data (trim rest) with TOk d => AIf (truthy d) | TErr => ABad end
  | [101; 108; 115; 101]%N => AElse
  | [101; 110; 100]%N => AEnd
  | path => match select data path with
            | TOk d => ASubst (fmt d)
            | TErr => ABad
            end
  end.

(* mode: 0 outside a conditional; 1 / 2 inside the if branch (taken / not); 3 / 4 inside the else branch *)
Definition emitting (mode : nat) : bool := match mode with 0 | 1 | 3 => true | _ => false end.

Fixpoint render_go (s : list N) (inact : bool) (acc : list N) (data : jdoc) (mode : nat) : tres (list N) :=
  match s with
  | [] => if inact then TErr else match mode with 0 => TOk [] | _ => TErr end
  | c :: t =>
      if inact then
        match c, t with
        | 125%N, 125%N :: t' =>
            match action acc data with
            | ASubst r =>
                match (if emitting mode then r else TOk []), render_go t' false [] data mode with
                | TOk a, TOk rest => TOk (a ++ rest)
                | _, _ => TErr
                end
            | AIf b => match mode with 0 => render_go t' false [] data (if b then 1 else 2) | _ => TErr end
            | AElse => match mode with
                       | 1 => render_go t' false [] data 4
                       | 2 => render_go t' false [] data 3
                       | _ => TErr
                       end
            | AEnd => match mode with 0 => TErr | _ => render_go t' false [] data 0 end
            | ABad => TErr
            end
        | _, _ => render_go t true (acc ++ [c]) data mode
        end
      else
        match c, t with
        | 123%N, 123%N :: t' => render_go t' true [] data mode
        | _, _ => match render_go t false [] data mode with
                  | TOk r => TOk (if emitting mode then c :: r else r)
                  | TErr => TErr
                  end
        end
  end.

Definition render_impl (s : list N) (data : jdoc) : tres (list N) := render_go s false [] data 0.

(* the recorded assumption about the engine holds for this one *)
Lemma render_go_plain data : forall s, has_action s = false -> render_go s false [] data 0 = TOk s.
Proof.
  fix IH 1. intros s. destruct s as [|c t]; [reflexivity|].
  intros H. cbn [render_go].
  assert (Ht : has_action t = false).
  { destruct t as [|c' t']; auto. cbn in H.
    destruct c as [|p]; [exact H|]. destruct (Pos.eqb_spec p 123) as [->|N].
    - destruct c' as [|p']; [exact H|]. destruct (Pos.eqb_spec p' 123) as [->|N']; [discriminate|].
      do 7 (destruct p' as [p'|p'|]; try exact H; try congruence).
    - do 7 (destruct p as [p|p|]; try exact H; try congruence). }
  assert (E : match c, t with
              | 123%N, 123%N :: t' => render_go t' true [] data 0
              | _, _ => match render_go t false [] data 0 with
                        | TOk r => TOk (if emitting 0 then c :: r else r)
                        | TErr => TErr
                        end
              end = match render_go t false [] data 0 with TOk r => TOk (c :: r) | TErr => TErr end).
  { destruct t as [|c' t']; [destruct c as [|p]; [reflexivity|]; do 7 (destruct p as [p|p|]; try reflexivity)|].
    destruct c as [|p]; [reflexivity|]. destruct (Pos.eqb_spec p 123) as [->|N].
    - destruct c' as [|p']; [reflexivity|]. destruct (Pos.eqb_spec p' 123) as [->|N']; [cbn in H; discriminate|].
      do 7 (destruct p' as [p'|p'|]; try reflexivity; try congruence).
    - do 7 (destruct p as [p|p|]; try reflexivity; try congruence). }
  rewrite E, (IH t Ht). reflexivity.
Qed.

Lemma render_impl_plain s data : has_action s = false -> render_impl s data = TOk s.
Proof. apply render_go_plain. Qed.

(* ---- checker ---- *)
Fixpoint jdoc_eqb (a b : jdoc) {struct a} : bool :=
  match a, b with
  | JNull, JNull => true
  | JBool x, JBool y => Bool.eqb x y
  | JNum x, JNum y => Z.eqb x y
  | JStr x, JStr y => bytes_eqb x y
  | JList x, JList y =>
      (fix go (l l' : list jdoc) : bool :=
         match l, l' with [], [] => true | u :: t, v :: t' => jdoc_eqb u v && go t t' | _, _ => false end) x y
  | JMap x, JMap y =>
      (fix go (l l' : list (list N * jdoc)) : bool :=
         match l, l' with
         | [], [] => true
         | (k, u) :: t, (k', v) :: t' => bytes_eqb k k' && jdoc_eqb u v && go t t'
         | _, _ => false
         end) x y
  | _, _ => false
  end.

Inductive c18res := RBindErr | RBuildErr | RDone (fields : jdoc) | RPanic.

Record c18case := mk18 {
  c18ns : list N; c18env : list envent; c18vals : list valrec; c18fields : jdoc; c18obs : c18res
}.

(* Go maps: entries are listed in ascending key order by the harness; the model keeps insertion order.
   Rendering can change keys, so results are compared after sorting entries by key. *)
Fixpoint bytes_leb (a b : list N) : bool :=
  match a, b with
  | [], _ => true
  | _, [] => false
  | x :: a', y :: b' => if N.ltb x y then true else if N.ltb y x then false else bytes_leb a' b'
  end.

Fixpoint ins_entry (e : list N * jdoc) (l : list (list N * jdoc)) : list (list N * jdoc) :=
  match l with
  | [] => [e]
  | x :: t => if bytes_leb (fst e) (fst x) then e :: l else x :: ins_entry e t
  end.

Fixpoint canon (d : jdoc) : jdoc :=
  match d with
  | JList l => JList ((fix go (l : list jdoc) := match l with [] => [] | x :: t => canon x :: go t end) l)
  | JMap l => JMap ((fix go (l : list (list N * jdoc)) :=
                       match l with [] => [] | (k, v) :: t => ins_entry (k, canon v) (go t) end) l)
  | other => other
  end.

Definition c18model (c : c18case) : c18res :=
  match bind render_impl (c18ns c) (c18env c) (c18vals c) with
  | TErr => RBindErr
  | TOk env' =>
      match build render_impl env' (c18fields c) with
      | TErr => RBuildErr
      | TOk d => RDone (canon d)
      end
  end.

Definition c18ok (c : c18case) : bool :=
  match c18model c, c18obs c with
  | RBindErr, RBindErr => true
  | RBuildErr, RBuildErr => true
  | RDone a, RDone b => jdoc_eqb a b
  | _, _ => false
  end.

Fixpoint mismatches_from {A} (ok : A -> bool) (i : nat) (l : list A) : list nat :=
  match l with
  | [] => []
  | c :: t => if ok c then mismatches_from ok (S i) t else i :: mismatches_from ok (S i) t
  end.
Definition mismatches {A} (ok : A -> bool) (l : list A) : list nat := mismatches_from ok 0 l.
