(* C18: data without a template action comes back equal; execution only rewrites strings. *)
From Coq Require Import List NArith ZArith Bool Lia.
From Uf Require Import Template.Template.
Import ListNotations.

Section jdoc_ind2.
  Variable P : jdoc -> Prop.
  Hypothesis HNull : P JNull.
  Hypothesis HBool : forall b, P (JBool b).
  Hypothesis HNum : forall z, P (JNum z).
  Hypothesis HStr : forall s, P (JStr s).
  Hypothesis HList : forall l, Forall P l -> P (JList l).
  Hypothesis HMap : forall l, Forall (fun kv => P (snd kv)) l -> P (JMap l).

  Fixpoint jdoc_ind2 (d : jdoc) : P d :=
    match d return P d with
    | JNull => HNull
    | JBool b => HBool b
    | JNum z => HNum z
    | JStr s => HStr s
    | JList l => HList l ((fix go (l : list jdoc) : Forall P l :=
                             match l return Forall P l with
                             | [] => Forall_nil _
                             | x :: t => Forall_cons x (jdoc_ind2 x) (go t)
                             end) l)
    | JMap l => HMap l ((fix go (l : list (list N * jdoc)) : Forall (fun kv => P (snd kv)) l :=
                           match l return Forall (fun kv => P (snd kv)) l with
                           | [] => Forall_nil _
                           | kv :: t => Forall_cons kv (jdoc_ind2 (snd kv)) (go t)
                           end) l)
    end.
End jdoc_ind2.

Section Laws.
  Variable render : list N -> jdoc -> tres (list N).
  Hypothesis render_plain : forall s data, has_action s = false -> render s data = TOk s.

  Theorem exec_identity data : forall d, plain d = true -> exec render data d = TOk d.
  Proof.
    apply (jdoc_ind2 (fun d => plain d = true -> exec render data d = TOk d)); try (intros; reflexivity).
    - intros s H. cbn in *. rewrite render_plain; auto. apply negb_true_iff. exact H.
    - intros l HF H. cbn [exec plain] in *.
      assert (G : (fix go (l : list jdoc) : tres (list jdoc) :=
                     match l with
                     | [] => TOk []
                     | x :: t => match exec render data x, go t with
                                 | TOk x', TOk t' => TOk (x' :: t')
                                 | _, _ => TErr
                                 end
                     end) l = TOk l).
      { induction HF as [|x l Hx HF IH]; auto. apply andb_prop in H. destruct H as [H1 H2].
        rewrite (Hx H1), (IH H2). reflexivity. }
      rewrite G. reflexivity.
    - intros l HF H. cbn [exec plain] in *.
      assert (G : (fix go (l : list (list N * jdoc)) : tres (list (list N * jdoc)) :=
                     match l with
                     | [] => TOk []
                     | (k, v) :: t => match render k data, exec render data v, go t with
                                      | TOk k', TOk v', TOk t' => TOk ((k', v') :: t')
                                      | _, _, _ => TErr
                                      end
                     end) l = TOk l).
      { induction HF as [|[k v] l Hx HF IH]; auto. cbn [snd] in Hx.
        apply andb_prop in H. destruct H as [H12 H3]. apply andb_prop in H12. destruct H12 as [H1 H2].
        rewrite (render_plain k data) by (apply negb_true_iff; exact H1). rewrite (Hx H2), (IH H3). reflexivity. }
      rewrite G. reflexivity.
  Qed.

  (* whatever the engine does, the result has the shape of the input: nothing but strings changes *)
  Theorem exec_shape data : forall d d', exec render data d = TOk d' -> same_shape d d' = true.
  Proof.
    apply (jdoc_ind2 (fun d => forall d', exec render data d = TOk d' -> same_shape d d' = true)).
    - intros d' H. injection H as <-. reflexivity.
    - intros b d' H. injection H as <-. cbn. destruct b; reflexivity.
    - intros z d' H. injection H as <-. cbn. apply Z.eqb_refl.
    - intros s d' H. cbn in H. destruct (render s data); [|discriminate]. injection H as <-. reflexivity.
    - intros l HF d' H. cbn [exec] in H.
      match type of H with match ?g l with _ => _ end = _ => set (go := g) in * end.
      destruct (go l) as [l'|] eqn:G; [|discriminate]. injection H as <-. cbn [same_shape].
      revert l' G. induction HF as [|x l Hx HF IH]; intros l' G; cbn in G.
      + injection G as <-. reflexivity.
      + destruct (exec render data x) as [x'|] eqn:Ex; [|discriminate].
        fold go in G. destruct (go l) as [t'|] eqn:Gt; [|discriminate]. injection G as <-.
        rewrite (Hx _ eq_refl). cbn. apply IH. reflexivity.
    - intros l HF d' H. cbn [exec] in H.
      match type of H with match ?g l with _ => _ end = _ => set (go := g) in * end.
      destruct (go l) as [l'|] eqn:G; [|discriminate]. injection H as <-. cbn [same_shape].
      revert l' G. induction HF as [|[k v] l Hx HF IH]; intros l' G; cbn in G.
      + injection G as <-. reflexivity.
      + destruct (render k data) as [k'|]; [|discriminate].
        destruct (exec render data v) as [v'|] eqn:Ev; [|discriminate].
        fold go in G. destruct (go l) as [t'|] eqn:Gt; [|discriminate]. injection G as <-.
        cbn [snd] in Hx. rewrite (Hx _ Ev). cbn. apply IH. reflexivity.
  Qed.

  (* Build leaves plain fields alone whatever the environment holds *)
  Theorem build_identity env fields : plain fields = true -> build render env fields = TOk fields.
  Proof. intros H. unfold build. destruct env; auto. apply exec_identity. exact H. Qed.

  (* an identified variable that no value provides is rejected *)
  Theorem bind_missing ns e rest vals :
    pick ns e vals = None -> ent_identified e = true -> bind render ns (e :: rest) vals = TErr.
  Proof. intros H I. cbn [bind]. rewrite H, I. reflexivity. Qed.
End Laws.
