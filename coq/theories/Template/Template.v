(* Model of pkg/template (parse/execute over JSON-like data, repaired tree) and of the environment
   binding of pkg/spec (Meta.Bind, Unstructured.Build).  The text/template engine itself is a
   Section variable [render] with one recorded assumption: text without an action renders to itself. *)
From Coq Require Import List NArith ZArith Bool Lia.
Import ListNotations.

Inductive jdoc :=
| JNull
| JBool (b : bool)
| JNum (z : Z)
| JStr (s : list N)
| JList (l : list jdoc)
| JMap (l : list (list N * jdoc)).     (* entries in ascending key order (canonical) *)

Inductive tres (A : Type) := TOk (a : A) | TErr.
Arguments TOk {A} a.
Arguments TErr {A}.

(* "{{" *)
Fixpoint has_action (s : list N) : bool :=
  match s with
  | 123%N :: ((123%N :: _) as _) => true
  | _ :: t => has_action t
  | [] => false
  end.

Section Engine.
  (* text/template: Parse + Execute of one string against data; TErr = parse or execution error *)
  Variable render : list N -> jdoc -> tres (list N).
  Hypothesis render_plain : forall s data, has_action s = false -> render s data = TOk s.

  (* Template.Execute over a document: strings (values and map keys) are rendered, everything else is kept *)
  Fixpoint exec (data : jdoc) (d : jdoc) {struct d} : tres jdoc :=
    match d with
    | JStr s => match render s data with TOk s' => TOk (JStr s') | TErr => TErr end
    | JList l =>
        match (fix go (l : list jdoc) : tres (list jdoc) :=
                 match l with
                 | [] => TOk []
                 | x :: t => match exec data x, go t with
                             | TOk x', TOk t' => TOk (x' :: t')
                             | _, _ => TErr
                             end
                 end) l with
        | TOk l' => TOk (JList l')
        | TErr => TErr
        end
    | JMap l =>
        match (fix go (l : list (list N * jdoc)) : tres (list (list N * jdoc)) :=
                 match l with
                 | [] => TOk []
                 | (k, v) :: t => match render k data, exec data v, go t with
                                  | TOk k', TOk v', TOk t' => TOk ((k', v') :: t')
                                  | _, _, _ => TErr
                                  end
                 end) l with
        | TOk l' => TOk (JMap l')
        | TErr => TErr
        end
    | other => TOk other
    end.

  (* a document without any template action *)
  Fixpoint plain (d : jdoc) : bool :=
    match d with
    | JStr s => negb (has_action s)
    | JList l => (fix go (l : list jdoc) : bool := match l with [] => true | x :: t => plain x && go t end) l
    | JMap l => (fix go (l : list (list N * jdoc)) : bool :=
                   match l with [] => true | (k, v) :: t => negb (has_action k) && plain v && go t end) l
    | _ => true
    end.

  (* same shape: only the text of strings and keys may differ *)
  Fixpoint same_shape (a b : jdoc) {struct a} : bool :=
    match a, b with
    | JNull, JNull => true
    | JBool x, JBool y => Bool.eqb x y
    | JNum x, JNum y => Z.eqb x y
    | JStr _, JStr _ => true
    | JList x, JList y =>
        (fix go (l l' : list jdoc) : bool :=
           match l, l' with [], [] => true | u :: t, v :: t' => same_shape u v && go t t' | _, _ => false end) x y
    | JMap x, JMap y =>
        (fix go (l l' : list (list N * jdoc)) : bool :=
           match l, l' with [], [] => true | (_, u) :: t, (_, v) :: t' => same_shape u v && go t t' | _, _ => false end) x y
    | _, _ => false
    end.
End Engine.

(* ---- Meta.Bind / Unstructured.Build ---- *)
Record envent := mkenv { e_key : list N; e_id : nat; e_name : list N; e_data : jdoc }.     (* id 0 = uuid.Nil; name [] = "" *)
Record valrec := mkval { v_id : nat; v_ns : list N; v_name : list N; v_data : jdoc }.

Definition bytes_eqb := fix go (a b : list N) : bool :=
  match a, b with [], [] => true | x :: a', y :: b' => N.eqb x y && go a' b' | _, _ => false end.

Definition ent_identified (e : envent) : bool := negb (Nat.eqb (e_id e) 0) || negb (bytes_eqb (e_name e) []).
Definition val_identified (v : valrec) : bool := negb (Nat.eqb (v_id v) 0) || negb (bytes_eqb (v_name v) []).

(* value.Is(example) with example = {ID: e.ID, Namespace: ns, Name: e.Name} *)
Definition val_is (v : valrec) (ns : list N) (e : envent) : bool :=
  (Nat.eqb (e_id e) 0 || Nat.eqb (e_id e) (v_id v)) &&
  (bytes_eqb ns [] || bytes_eqb ns (v_ns v)) &&
  (bytes_eqb (e_name e) [] || bytes_eqb (e_name e) (v_name v)).

Definition pick (ns : list N) (e : envent) (vals : list valrec) : option valrec :=
  find (fun v => (negb (val_identified v) && negb (ent_identified e)) || (ent_identified e && val_is v ns e)) vals.

Section Bind.
  Variable render : list N -> jdoc -> tres (list N).

  (* Bind: every env entry takes the first matching value; its data is executed as a template against
     the value's data; an identified entry without a value is an error *)
  Fixpoint bind (ns : list N) (env : list envent) (vals : list valrec) : tres (list envent) :=
    match env with
    | [] => TOk []
    | e :: rest =>
        match pick ns e vals with
        | Some v =>
            match exec render (v_data v) (e_data e), bind ns rest vals with
            | TOk d, TOk rest' => TOk (mkenv (e_key e) (v_id v) (v_name v) d :: rest')
            | _, _ => TErr
            end
        | None =>
            if ent_identified e then TErr
            else match bind ns rest vals with TOk rest' => TOk (e :: rest') | TErr => TErr end
        end
    end.

  (* Build: the fields are executed against the map env-key -> entry data (skipped when env is empty) *)
  Definition build (env : list envent) (fields : jdoc) : tres jdoc :=
    match env with
    | [] => TOk fields
    | _ => exec render (JMap (map (fun e => (e_key e, e_data e)) env)) fields
    end.
End Bind.
